#!/usr/bin/env bash
# (Re)build what the checks need from /repo's *current working tree*. Cargo's fingerprinting makes
# this a no-op when nothing changed under /repo.
#   ./build.sh harness   the gv harness (links /repo/guard as a library)          [stable toolchain]
#   ./build.sh tool      the cfn-guard binary, by the repository's pinned toolchain
#   ./build.sh all
set -euo pipefail
cd "$(dirname "$0")"
export CARGO_NET_OFFLINE=true
what="${1:-all}"
if [ ! -f /verif/vendor/.complete ]; then
  echo "vendor/ missing: run ./setup.sh first" >&2; exit 2
fi
if [ "$what" = harness ] || [ "$what" = all ]; then
  ( cd harness && cargo +stable build --release --quiet 2>&1 | grep -v '^warning' || true )
  test -x harness/target/release/gv || { echo "harness build failed" >&2; ( cd harness && cargo +stable build --release 2>&1 | tail -40 ) >&2; exit 2; }
fi
if [ "$what" = tool ] || [ "$what" = all ]; then
  ( cd /repo && cargo build --release --offline --quiet -p cfn-guard --bin cfn-guard --target-dir /verif/target/tool 2>&1 | grep -v '^warning' || true )
  test -x /verif/target/tool/release/cfn-guard || { echo "tool build failed" >&2; exit 2; }
fi
