#!/usr/bin/env bash
# (Re)build what the checks need from /repo's *current working tree*. Cargo's fingerprinting makes
# this a no-op when nothing changed under /repo.
#   ./build.sh harness   the gv harness (links /repo/guard as a library)          [stable toolchain]
#   ./build.sh tool      the cfn-guard binary, by the repository's pinned toolchain
#   ./build.sh all
set -euo pipefail
cd "$(dirname "$0")"
export CARGO_NET_OFFLINE=true
what="${1:-all}"
if [ ! -f /verif/vendor/.complete ]; then
  echo "vendor/ missing: run ./setup.sh first" >&2; exit 2
fi
if [ "$what" = harness ] || [ "$what" = all ]; then
  # a stale binary must never stand in for a failed build: cargo's own exit status decides
  if ! ( cd harness && cargo +stable build --release --quiet > ../target-harness-build.log 2>&1 ); then
    echo "harness build failed" >&2; grep -v '^warning' target-harness-build.log | tail -40 >&2; exit 2
  fi
  test -x harness/target/release/gv || { echo "harness build failed" >&2; exit 2; }
fi
if [ "$what" = tool ] || [ "$what" = all ]; then
  if ! ( cd /repo && cargo build --release --offline --quiet -p cfn-guard --bin cfn-guard --target-dir /verif/target/tool > /verif/target-tool-build.log 2>&1 ); then
    echo "tool build failed" >&2; grep -v '^warning' /verif/target-tool-build.log | tail -40 >&2; exit 2
  fi
  test -x /verif/target/tool/release/cfn-guard || { echo "tool build failed" >&2; exit 2; }
fi
