use cfn_guard::{run_checks, ValidateInput};
fn main() {
    let rules = "rule same { a == 0.18731771569502986 }\n";
    for (name, data) in [("json", "{\"a\": 0.18731771569502986}"), ("yaml", "a: 0.18731771569502986\n")] {
        let r = run_checks(ValidateInput { content: data, file_name: "d" }, ValidateInput { content: rules, file_name: "r.guard" }, false).unwrap();
        println!("{}: {}", name, if r.contains("\"not_compliant\": []") || !r.contains("same") || r.contains("\"compliant\": [\n    \"same\"") { "PASS" } else { "FAIL" });
        if name == "json" { println!("{}", &r[..r.len().min(600)]); }
    }
}
