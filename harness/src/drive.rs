//! Driving the tool: library entry point, CLI commands in process (builders + Writer/Reader), and
//! the real binary as a process. Every in-process call is wrapped in catch_unwind; the panic site
//! is captured by a process-wide hook into a thread-local.
use crate::model::St;
use cfn_guard::commands::validate::{OutputFormatType, ShowSummaryType};
use cfn_guard::commands::Executable;
use cfn_guard::utils::reader::{ReadBuffer, Reader};
use cfn_guard::utils::writer::{WriteBuffer, Writer};
use cfn_guard::{CommandBuilder, ParseTreeBuilder, RulegenBuilder, TestBuilder, ValidateBuilder, ValidateInput};
use std::cell::RefCell;
use std::io::Cursor;
use std::panic::{catch_unwind, AssertUnwindSafe};
use std::path::{Path, PathBuf};
use std::sync::Once;

thread_local! {
    static LAST_PANIC: RefCell<Option<String>> = RefCell::new(None);
    static TMPDIR: RefCell<Option<PathBuf>> = RefCell::new(None);
}
static HOOK: Once = Once::new();

pub fn install_panic_hook() {
    HOOK.call_once(|| {
        std::panic::set_hook(Box::new(|info| {
            let loc = info.location().map(|l| format!("{}:{}", l.file(), l.line())).unwrap_or_default();
            let msg = if let Some(s) = info.payload().downcast_ref::<&str>() {
                s.to_string()
            } else if let Some(s) = info.payload().downcast_ref::<String>() {
                s.clone()
            } else {
                String::from("<non-string panic>")
            };
            let short: String = msg.chars().take(160).collect();
            LAST_PANIC.with(|p| *p.borrow_mut() = Some(format!("{} {}", strip_repo(&loc), short)));
        }));
    });
}
fn strip_repo(loc: &str) -> String {
    loc.replace("/repo/guard/", "")
}

pub fn guarded<T>(f: impl FnOnce() -> T) -> Result<T, String> {
    install_panic_hook();
    LAST_PANIC.with(|p| *p.borrow_mut() = None);
    match catch_unwind(AssertUnwindSafe(f)) {
        Ok(v) => Ok(v),
        Err(_) => Err(LAST_PANIC.with(|p| p.borrow_mut().take()).unwrap_or_else(|| "panic (site unknown)".into())),
    }
}

// ------------------------------------------------------------------------------------------------
// library entry point

#[derive(Debug, Clone)]
pub enum Lib {
    Ok(String),
    Err(String),
    Panic(String),
}

pub fn run_checks(doc: &str, rules: &str, verbose: bool) -> Lib {
    run_checks_named(doc, "d.json", rules, "r.guard", verbose)
}
pub fn run_checks_named(doc: &str, dname: &str, rules: &str, rname: &str, verbose: bool) -> Lib {
    match guarded(|| {
        cfn_guard::run_checks(
            ValidateInput { content: doc, file_name: dname },
            ValidateInput { content: rules, file_name: rname },
            verbose,
        )
    }) {
        Ok(Ok(s)) => Lib::Ok(s),
        Ok(Err(e)) => Lib::Err(e.to_string()),
        Err(p) => Lib::Panic(p),
    }
}

#[derive(Debug, Clone, PartialEq)]
pub enum Verdict {
    /// per-rule statuses in record order + file status
    Ok { rules: Vec<(String, St)>, file: St },
    ParseErr(String),
    EvalErr(String),
    Panic(String),
}

impl Verdict {
    pub fn short(&self) -> String {
        match self {
            Verdict::Ok { rules, file } => format!(
                "file={} {}",
                file.text(),
                rules.iter().map(|(n, s)| format!("{}={}", n, s.text())).collect::<Vec<_>>().join(" ")
            ),
            Verdict::ParseErr(e) => format!("PARSE-ERROR {}", e.chars().take(200).collect::<String>()),
            Verdict::EvalErr(e) => format!("EVAL-ERROR {}", e.chars().take(200).collect::<String>()),
            Verdict::Panic(p) => format!("PANIC {}", p),
        }
    }
    pub fn is_ok(&self) -> bool {
        matches!(self, Verdict::Ok { .. })
    }
}

pub fn strip_file_prefix(name: &str) -> String {
    // the default rule of a named file is "<file>/default"; every other rule has its bare name
    if name.ends_with("/default") {
        "default".to_string()
    } else {
        name.to_string()
    }
}

/// Extract top-level RuleCheck statuses and the FileCheck status from the verbose record.
pub fn record_verdict(rec: &serde_json::Value) -> Option<(Vec<(String, St)>, St)> {
    let file = St::parse(rec.get("container")?.get("FileCheck")?.get("status")?.as_str()?)?;
    let mut rules = vec![];
    for ch in rec.get("children")?.as_array()? {
        if let Some(rc) = ch.get("container").and_then(|c| c.get("RuleCheck")) {
            rules.push((rc.get("name")?.as_str()?.to_string(), St::parse(rc.get("status")?.as_str()?)?));
        }
    }
    Some((rules, file))
}

pub fn classify_err(e: &str) -> Verdict {
    // run_checks maps rules-file parse errors to Error::ParseError(..) => "Parser Error"; data
    // errors likewise. Evaluation errors come from eval_rules_file.
    if e.contains("Parser Error") || e.contains("Error parsing") || e.starts_with("Parse") {
        Verdict::ParseErr(e.to_string())
    } else {
        Verdict::EvalErr(e.to_string())
    }
}

pub fn verdict(doc: &str, rules: &str) -> (Verdict, Option<serde_json::Value>) {
    match run_checks(doc, rules, true) {
        Lib::Ok(s) => {
            if s.is_empty() {
                // empty rules file
                return (Verdict::Ok { rules: vec![], file: St::Skip }, None);
            }
            match serde_json::from_str::<serde_json::Value>(&s) {
                Ok(j) => match record_verdict(&j) {
                    Some((rules, file)) => (Verdict::Ok { rules, file }, Some(j)),
                    None => (Verdict::EvalErr(format!("record without FileCheck: {}", &s[..s.len().min(200)])), Some(j)),
                },
                Err(e) => (Verdict::EvalErr(format!("verbose record is not JSON: {}", e)), None),
            }
        }
        Lib::Err(e) => (classify_err(&e), None),
        Lib::Panic(p) => (Verdict::Panic(p), None),
    }
}

// ------------------------------------------------------------------------------------------------
// scratch directory (per thread, under /dev/shm when available)

pub fn scratch() -> PathBuf {
    TMPDIR.with(|t| {
        let mut t = t.borrow_mut();
        if t.is_none() {
            let base = if Path::new("/dev/shm").is_dir() { PathBuf::from("/dev/shm") } else { std::env::temp_dir() };
            let d = base.join(format!("gv-{}-{:?}", std::process::id(), std::thread::current().id()).replace(['(', ')'], ""));
            let _ = std::fs::remove_dir_all(&d);
            std::fs::create_dir_all(&d).expect("scratch dir");
            *t = Some(d);
        }
        t.clone().unwrap()
    })
}
pub fn scratch_cleanup_all() {
    for base in ["/dev/shm", std::env::temp_dir().to_str().unwrap_or("/tmp")] {
        if let Ok(rd) = std::fs::read_dir(base) {
            let prefix = format!("gv-{}-", std::process::id());
            for e in rd.flatten() {
                if e.file_name().to_string_lossy().starts_with(&prefix) {
                    let _ = std::fs::remove_dir_all(e.path());
                }
            }
        }
    }
}
/// Fresh, empty sub-directory of this thread's scratch dir.
pub fn fresh_dir(name: &str) -> PathBuf {
    let d = scratch().join(name);
    let _ = std::fs::remove_dir_all(&d);
    std::fs::create_dir_all(&d).expect("fresh dir");
    d
}
pub fn write_file(p: &Path, content: &str) {
    if let Some(parent) = p.parent() {
        let _ = std::fs::create_dir_all(parent);
    }
    std::fs::write(p, content).expect("write scratch file");
}

// ------------------------------------------------------------------------------------------------
// CLI commands in process

#[derive(Debug, Clone)]
pub struct Run {
    /// Ok(exit code) as returned by execute(); Err(display of the error) is what main() turns into
    /// "Error occurred ..." and exit status 255
    pub code: Result<i32, String>,
    pub out: String,
    pub err: String,
    pub panic: Option<String>,
}
impl Run {
    /// the process exit status main() would produce
    pub fn status(&self) -> i32 {
        match &self.code {
            Ok(c) => *c,
            Err(_) => 255,
        }
    }
    pub fn brief(&self) -> String {
        format!(
            "code={:?} panic={:?} out[{}]={:?} err[{}]={:?}",
            self.code,
            self.panic,
            self.out.len(),
            self.out.chars().take(300).collect::<String>(),
            self.err.len(),
            self.err.chars().take(300).collect::<String>()
        )
    }
}

fn run_exec(build: impl FnOnce() -> Result<Box<dyn Executable>, cfn_guard::Error>, stdin: &str) -> Run {
    let errpath = scratch().join("stderr.txt");
    let r = guarded(|| {
        let errfile = std::fs::File::create(&errpath).expect("stderr file");
        let mut writer = Writer::new_with_err(WriteBuffer::Vec(vec![]), WriteBuffer::File(errfile)).expect("writer");
        let mut reader = Reader::new(ReadBuffer::Cursor(Cursor::new(stdin.as_bytes().to_vec())));
        let code = match build() {
            Ok(cmd) => cmd.execute(&mut writer, &mut reader).map_err(|e| e.to_string()),
            Err(e) => Err(format!("{}", e)),
        };
        let out = writer.into_string().unwrap_or_default();
        (code, out)
    });
    let err = std::fs::read_to_string(&errpath).unwrap_or_default();
    match r {
        Ok((code, out)) => Run { code, out, err, panic: None },
        Err(p) => Run { code: Err(format!("panic {}", p)), out: String::new(), err, panic: Some(p) },
    }
}

#[derive(Debug, Clone, Copy, PartialEq, Eq, Hash)]
pub enum Fmt {
    Single,
    Json,
    Yaml,
    Junit,
    Sarif,
}
impl Fmt {
    pub fn to_tool(self) -> OutputFormatType {
        match self {
            Fmt::Single => OutputFormatType::SingleLineSummary,
            Fmt::Json => OutputFormatType::JSON,
            Fmt::Yaml => OutputFormatType::YAML,
            Fmt::Junit => OutputFormatType::Junit,
            Fmt::Sarif => OutputFormatType::Sarif,
        }
    }
    pub fn flag(self) -> &'static str {
        match self {
            Fmt::Single => "single-line-summary",
            Fmt::Json => "json",
            Fmt::Yaml => "yaml",
            Fmt::Junit => "junit",
            Fmt::Sarif => "sarif",
        }
    }
}

#[derive(Debug, Clone, Copy, PartialEq, Eq, Hash)]
pub enum Show {
    All,
    Pass,
    Fail,
    Skip,
    None,
}
impl Show {
    pub fn to_tool(self) -> ShowSummaryType {
        match self {
            Show::All => ShowSummaryType::All,
            Show::Pass => ShowSummaryType::Pass,
            Show::Fail => ShowSummaryType::Fail,
            Show::Skip => ShowSummaryType::Skip,
            Show::None => ShowSummaryType::None,
        }
    }
    pub fn flag(self) -> &'static str {
        match self {
            Show::All => "all",
            Show::Pass => "pass",
            Show::Fail => "fail",
            Show::Skip => "skip",
            Show::None => "none",
        }
    }
}

#[derive(Debug, Clone)]
pub struct VOpts {
    pub fmt: Fmt,
    pub structured: bool,
    pub verbose: bool,
    pub print_json: bool,
    pub show: Vec<Show>,
    pub alphabetical: bool,
    pub last_modified: bool,
}
impl VOpts {
    pub fn structured(fmt: Fmt) -> VOpts {
        VOpts { fmt, structured: true, verbose: false, print_json: false, show: vec![Show::None], alphabetical: false, last_modified: false }
    }
    pub fn plain(fmt: Fmt, show: Vec<Show>) -> VOpts {
        VOpts { fmt, structured: false, verbose: false, print_json: false, show, alphabetical: false, last_modified: false }
    }
    pub fn argv(&self) -> Vec<String> {
        let mut a = vec![];
        a.push("-o".to_string());
        a.push(self.fmt.flag().to_string());
        if self.structured {
            a.push("--structured".into());
        }
        if self.verbose {
            a.push("-v".into());
        }
        if self.print_json {
            a.push("-p".into());
        }
        a.push("-S".into());
        a.push(self.show.iter().map(|s| s.flag()).collect::<Vec<_>>().join(","));
        if self.alphabetical {
            a.push("-a".into());
        }
        if self.last_modified {
            a.push("-m".into());
        }
        a
    }
    fn builder(&self) -> ValidateBuilder {
        ValidateBuilder::default()
            .output_format(self.fmt.to_tool())
            .structured(self.structured)
            .verbose(self.verbose)
            .print_json(self.print_json)
            .show_summary(self.show.iter().map(|s| s.to_tool()).collect())
            .alphabetical(self.alphabetical)
            .last_modified(self.last_modified)
    }
}

pub fn payload_json(rules: &[String], data: &[String]) -> String {
    serde_json::json!({ "rules": rules, "data": data }).to_string()
}

pub fn validate_payload(rules: &[String], data: &[String], input_params: &[String], o: &VOpts) -> Run {
    let stdin = payload_json(rules, data);
    let b = o.builder().payload(true).input_params(input_params.to_vec());
    run_exec(move || b.try_build().map(|c| Box::new(c) as Box<dyn Executable>), &stdin)
}

/// rules/data/input_params are paths; `stdin` is the data when `data` is empty
pub fn validate_files(rules: &[String], data: &[String], input_params: &[String], o: &VOpts, stdin: &str) -> Run {
    let b = o.builder().rules(rules.to_vec()).data(data.to_vec()).input_params(input_params.to_vec());
    run_exec(move || b.try_build().map(|c| Box::new(c) as Box<dyn Executable>), stdin)
}

pub fn parse_tree(rules_text: &str, json: bool) -> Run {
    let b = ParseTreeBuilder::default().print_json(json).print_yaml(!json);
    run_exec(move || b.try_build().map(|c| Box::new(c) as Box<dyn Executable>), rules_text)
}

pub fn parses(rules_text: &str) -> bool {
    let r = parse_tree(rules_text, true);
    r.code == Ok(0)
}

#[derive(Debug, Clone)]
pub struct TOpts {
    pub fmt: Fmt,
    pub verbose: bool,
    pub alphabetical: bool,
    pub last_modified: bool,
}
pub fn test_files(rules: &str, test_data: &str, o: &TOpts) -> Run {
    let b = TestBuilder::default()
        .rules(Some(rules.to_string()))
        .test_data(Some(test_data.to_string()))
        .output_format(o.fmt.to_tool())
        .verbose(o.verbose)
        .alphabetical(o.alphabetical)
        .last_modified(o.last_modified);
    run_exec(move || b.try_build().map(|c| Box::new(c) as Box<dyn Executable>), "")
}
pub fn test_dir(dir: &str, o: &TOpts) -> Run {
    let b = TestBuilder::default()
        .directory(Some(dir.to_string()))
        .output_format(o.fmt.to_tool())
        .verbose(o.verbose)
        .alphabetical(o.alphabetical)
        .last_modified(o.last_modified);
    run_exec(move || b.try_build().map(|c| Box::new(c) as Box<dyn Executable>), "")
}

pub fn rulegen(template_path: &str) -> Run {
    let b = RulegenBuilder::default().template(template_path.to_string());
    run_exec(move || b.try_build().map(|c| Box::new(c) as Box<dyn Executable>), "")
}

// ------------------------------------------------------------------------------------------------
// the real binary

pub fn tool_path() -> PathBuf {
    PathBuf::from(std::env::var("GV_TOOL").unwrap_or_else(|_| "/verif/target/tool/release/cfn-guard".to_string()))
}

#[derive(Debug, Clone)]
pub struct Proc {
    pub status: Option<i32>,
    pub signal: Option<i32>,
    pub out: Vec<u8>,
    pub err: Vec<u8>,
    pub timed_out: bool,
    /// CPU seconds (user + system) the child had consumed when the watchdog killed it
    pub cpu_s: f64,
}
impl Proc {
    pub fn out_s(&self) -> String {
        String::from_utf8_lossy(&self.out).to_string()
    }
    pub fn err_s(&self) -> String {
        String::from_utf8_lossy(&self.err).to_string()
    }
    pub fn crashed(&self) -> bool {
        self.signal.is_some() || self.status == Some(101) || self.err_s().contains("panicked at")
    }
}

pub fn spawn_tool(args: &[String], stdin: &[u8], env: &[(String, String)], cwd: Option<&Path>, timeout_s: u64) -> Proc {
    use std::io::{Read, Write};
    use std::os::unix::process::ExitStatusExt;
    use std::process::{Command, Stdio};
    let mut c = Command::new(tool_path());
    c.args(args).stdin(Stdio::piped()).stdout(Stdio::piped()).stderr(Stdio::piped());
    c.env("NO_COLOR", "1");
    for (k, v) in env {
        c.env(k, v);
    }
    if let Some(d) = cwd {
        c.current_dir(d);
    }
    let mut child = c.spawn().expect("spawn cfn-guard binary (run ./setup.sh first)");
    // stdin is fed from a thread of its own: a child that never reads it (or writes a lot before
    // it does) must not block the harness
    let t_in = {
        let mut si = child.stdin.take().unwrap();
        let bytes = stdin.to_vec();
        std::thread::spawn(move || {
            let _ = si.write_all(&bytes);
        })
    };
    let mut so = child.stdout.take().unwrap();
    let mut se = child.stderr.take().unwrap();
    let t_out = std::thread::spawn(move || {
        let mut b = vec![];
        let _ = so.read_to_end(&mut b);
        b
    });
    let t_err = std::thread::spawn(move || {
        let mut b = vec![];
        let _ = se.read_to_end(&mut b);
        b
    });
    let start = std::time::Instant::now();
    let mut timed_out = false;
    let mut cpu_s = 0.0f64;
    let st = loop {
        match child.try_wait() {
            Ok(Some(st)) => break st,
            Ok(None) => {
                if start.elapsed().as_secs() >= timeout_s {
                    // was it computing all the time (a hang of its own) or waiting / starved?
                    if let Ok(stat) = std::fs::read_to_string(format!("/proc/{}/stat", child.id())) {
                        if let Some(rest) = stat.rsplit(") ").next() {
                            let f: Vec<&str> = rest.split(' ').collect();
                            // fields 14 (utime) and 15 (stime) of the whole line; `rest` starts at field 3
                            if f.len() > 12 {
                                let ticks = f[11].parse::<f64>().unwrap_or(0.0) + f[12].parse::<f64>().unwrap_or(0.0);
                                cpu_s = ticks / 100.0;
                            }
                        }
                    }
                    let _ = child.kill();
                    timed_out = true;
                    break child.wait().expect("wait");
                }
                std::thread::sleep(std::time::Duration::from_millis(2));
            }
            Err(_) => break child.wait().expect("wait"),
        }
    };
    let _ = t_in.join();
    Proc { status: st.code(), signal: st.signal(), out: t_out.join().unwrap(), err: t_err.join().unwrap(), timed_out, cpu_s }
}

pub fn scratch_cleanup_thread() {
    TMPDIR.with(|t| {
        if let Some(d) = t.borrow_mut().take() {
            let _ = std::fs::remove_dir_all(d);
        }
    });
}
