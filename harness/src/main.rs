//! gv — the verification harness for cloudformation-guard (see /verif/DESIGN.md).
//!   gv run <ID> <quick|thorough>        run one property's check
//!   gv replay <ID> <file>               re-evaluate a saved case, bypassing all generators

use gv::engine::{CaseResult, Tier};
use gv::{drive, props};

fn main() {
    let args: Vec<String> = std::env::args().collect();
    if args.len() < 3 {
        eprintln!("usage: gv run <ID> <quick|thorough> | gv replay <ID> <file>");
        std::process::exit(2);
    }
    drive::install_panic_hook();
    let id = args[2].to_uppercase();
    match args[1].as_str() {
        "run" => {
            let tier = match args.get(3).map(|s| s.as_str()).or(std::env::var("VERIF_TIER").ok().as_deref()) {
                Some("thorough") => Tier::Thorough,
                _ => Tier::Quick,
            };
            let seed: u64 = std::env::var("VERIF_SEED").ok().and_then(|s| s.trim().parse::<i64>().ok()).map(|x| x as u64).unwrap_or(1);
            let code = props::run(&id, tier, seed);
            // the main thread's scratch directory (replays of recorded findings run here)
            gv::drive::scratch_cleanup_thread();
            std::process::exit(code);
        }
        "replay" => {
            let path = args.get(3).expect("replay file");
            let txt = std::fs::read_to_string(path).expect("read replay file");
            let j: serde_json::Value = serde_json::from_str(&txt).expect("replay file is JSON");
            let case = if j.get("case").is_some() { &j["case"] } else { &j };
            match props::replay(&id, case) {
                CaseResult::Fail(f) => {
                    println!("VIOLATION property={} replay={}", id, path);
                    println!("  {}", f.msg);
                    gv::drive::scratch_cleanup_thread();
                    std::process::exit(1);
                }
                CaseResult::Fails(fs) => {
                    println!("VIOLATION property={} replay={}", id, path);
                    for f in fs {
                        println!("  {}", f.msg);
                    }
                    gv::drive::scratch_cleanup_thread();
                    std::process::exit(1);
                }
                CaseResult::Pass(_) => {
                    println!("replay {}: property holds on this case", path);
                    gv::drive::scratch_cleanup_thread();
                    std::process::exit(0);
                }
                CaseResult::Discard(w) => {
                    println!("replay {}: case discarded ({})", path, w);
                    gv::drive::scratch_cleanup_thread();
                    std::process::exit(0);
                }
            }
        }
        _ => {
            eprintln!("unknown command");
            std::process::exit(2);
        }
    }
}
