//! Choice stream: every generator in the harness is a plain function of a `Choices` cursor over a
//! `Vec<u32>` that the property library (proptest) — or libFuzzer, for the structured targets —
//! produced. All randomness therefore stays inside the library: the vector is what is shrunk
//! (shorter, and element-wise towards 0) and what is replayed. Generators are written so that 0 is
//! always the simplest alternative and an exhausted stream yields 0, i.e. the smallest structure.
//! Values are mapped monotonically (x*n >> 32), not by `%`, so element shrinking shrinks the choice.

pub struct Choices<'a> {
    data: &'a [u32],
    pos: usize,
}

impl<'a> Choices<'a> {
    pub fn new(data: &'a [u32]) -> Self {
        Choices { data, pos: 0 }
    }
    pub fn raw(&mut self) -> u32 {
        let v = self.data.get(self.pos).copied().unwrap_or(0);
        self.pos += 1;
        v
    }
    pub fn exhausted(&self) -> bool {
        self.pos >= self.data.len()
    }
    pub fn used(&self) -> usize {
        self.pos
    }
    /// uniform in 0..n (n>=1), monotone in the raw value
    pub fn below(&mut self, n: usize) -> usize {
        if n <= 1 {
            // still consume, so that the stream position does not depend on n
            self.raw();
            return 0;
        }
        ((self.raw() as u64 * n as u64) >> 32) as usize
    }
    /// inclusive range
    pub fn range(&mut self, lo: usize, hi: usize) -> usize {
        lo + self.below(hi - lo + 1)
    }
    /// true with probability num/den; false is the "simple" outcome
    pub fn chance(&mut self, num: u32, den: u32) -> bool {
        // raw small -> false
        let r = self.raw() as u64;
        r * (den as u64) >= ((den - num) as u64) << 32
    }
    pub fn pick<'b, T>(&mut self, xs: &'b [T]) -> &'b T {
        &xs[self.below(xs.len())]
    }
    /// weighted choice; index 0 is the simple alternative
    pub fn weighted(&mut self, w: &[u32]) -> usize {
        let total: u64 = w.iter().map(|x| *x as u64).sum();
        let mut r = (self.raw() as u64 * total) >> 32;
        for (i, x) in w.iter().enumerate() {
            if r < *x as u64 {
                return i;
            }
            r -= *x as u64;
        }
        w.len() - 1
    }
}

/// splitmix64, used only to derive per-shard seeds and for the exhaustive enumerations' sampling
/// of *which* shard handles which index — never inside a property.
pub fn splitmix(mut x: u64) -> u64 {
    x = x.wrapping_add(0x9E3779B97F4A7C15);
    let mut z = x;
    z = (z ^ (z >> 30)).wrapping_mul(0xBF58476D1CE4E5B9);
    z = (z ^ (z >> 27)).wrapping_mul(0x94D049BB133111EB);
    z ^ (z >> 31)
}
