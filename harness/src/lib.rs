//! gv library: generators, drivers, reference model and the per-property predicates (shared by the
//! `gv` binary and the libFuzzer targets under /verif/fuzz).
pub mod ast;
pub mod choices;
pub mod docw;
pub mod drive;
pub mod engine;
pub mod gen;
pub mod model;
pub mod props;
pub mod regex_mini;
pub mod val;
pub mod vprint;
