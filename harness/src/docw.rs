//! Document writers (DESIGN 3.3): one abstract document -> JSON compact / JSON pretty / flow YAML /
//! block YAML with a random layout. Every writer records, for each scalar it emits, the 0-based
//! (line, column-in-characters) of the first character of its token, keyed by the slash pointer.
use crate::choices::Choices;
use crate::val::{fmt_float, V};
use std::collections::BTreeMap;

#[derive(Clone, Copy, Debug, PartialEq, Eq, Hash)]
pub enum Style {
    JsonCompact,
    JsonPretty,
    YamlFlow,
    YamlBlock,
}
pub const STYLES: [Style; 4] = [Style::JsonCompact, Style::JsonPretty, Style::YamlFlow, Style::YamlBlock];
impl Style {
    pub fn text(&self) -> &'static str {
        match self {
            Style::JsonCompact => "json-compact",
            Style::JsonPretty => "json-pretty",
            Style::YamlFlow => "yaml-flow",
            Style::YamlBlock => "yaml-block",
        }
    }
    pub fn ext(&self) -> &'static str {
        match self {
            Style::JsonCompact | Style::JsonPretty => "json",
            _ => "yaml",
        }
    }
}

pub struct Written {
    pub text: String,
    /// pointer ("/a/0/b") -> (line, column) of the scalar's first character
    pub pos: BTreeMap<String, (usize, usize)>,
    /// scalars that were emitted plain / quoted (statistics)
    pub plain_strings: u32,
    pub quoted_strings: u32,
    pub block_scalars: u32,
    pub empty_nulls: u32,
}

struct W<'a, 'b> {
    u: &'a mut Choices<'b>,
    out: String,
    line: usize,
    col: usize,
    pos: BTreeMap<String, (usize, usize)>,
    plain: u32,
    quoted: u32,
    layout: bool,
    block_scalars: u32,
    empty_nulls: u32,
    ascii_json: bool,
}

const KEYWORDS: [&str; 11] = ["y", "n", "yes", "no", "on", "off", "true", "false", "null", "~", ""];

/// May this string be written as a plain YAML scalar and still be a *string* under both the YAML
/// 1.1 and the 1.2 core schema? (Conservative.)
pub fn plain_safe(s: &str) -> bool {
    if s.is_empty() || KEYWORDS.contains(&s.to_lowercase().as_str()) {
        return false;
    }
    let first = s.chars().next().unwrap();
    if !(first.is_ascii_alphabetic() || first == '_' || first == '/') {
        return false;
    }
    if s.ends_with(' ') || s.contains(": ") || s.contains(" #") || s.ends_with(':') {
        return false;
    }
    if !s.chars().all(|c| c.is_ascii_alphanumeric() || matches!(c, '_' | '.' | '/' | '-' | ' ' | ':' ) || (c as u32) > 0x7f && !c.is_control() && c != '\u{feff}' && c != '\u{85}' && c != '\u{2028}' && c != '\u{2029}') {
        return false;
    }
    // number-like / special float words of YAML 1.1 (".inf", "0x1f", "1_000", "1:30")
    let l = s.to_lowercase();
    if l.starts_with("0x") || l.starts_with("0o") {
        return false;
    }
    true
}

impl<'a, 'b> W<'a, 'b> {
    fn put(&mut self, s: &str) {
        for c in s.chars() {
            if c == '\n' {
                self.line += 1;
                self.col = 0;
            } else {
                self.col += 1;
            }
        }
        self.out.push_str(s);
    }
    fn mark(&mut self, ptr: &str) {
        self.pos.insert(ptr.to_string(), (self.line, self.col));
    }
    fn json_string(&mut self, s: &str) {
        let mut t = String::new();
        crate::val::write_json_str(&mut t, s);
        if self.ascii_json {
            // what ASCII-only JSON writers emit (Python's json.dumps by default): \uXXXX for every
            // non-ASCII character, a surrogate pair beyond the basic plane
            let mut a = String::new();
            for c in t.chars() {
                if (c as u32) < 0x7f {
                    a.push(c);
                } else {
                    let mut b = [0u16; 2];
                    for unit in c.encode_utf16(&mut b) {
                        a.push_str(&format!("\\u{:04x}", unit));
                    }
                }
            }
            t = a;
        }
        self.put(&t);
    }
    fn yaml_dq(&mut self, s: &str) {
        let mut t = String::from("\"");
        for c in s.chars() {
            match c {
                '"' => t.push_str("\\\""),
                '\\' => t.push_str("\\\\"),
                '\n' => t.push_str("\\n"),
                '\r' => t.push_str("\\r"),
                '\t' => t.push_str("\\t"),
                '\u{85}' => t.push_str("\\N"),
                '\u{2028}' => t.push_str("\\L"),
                '\u{2029}' => t.push_str("\\P"),
                '\u{feff}' => t.push_str("\\uFEFF"),
                c if (c as u32) < 0x20 || c as u32 == 0x7f => t.push_str(&format!("\\x{:02x}", c as u32)),
                c => t.push(c),
            }
        }
        t.push('"');
        self.put(&t);
    }
    fn yaml_string(&mut self, s: &str) {
        let sq_ok = !s.chars().any(|c| c == '\n' || c == '\r' || (c as u32) < 0x20 || c as u32 == 0x7f || c == '\u{85}' || c == '\u{2028}' || c == '\u{2029}' || c == '\u{feff}');
        if plain_safe(s) && self.u.chance(1, 2) {
            self.plain += 1;
            self.put(s);
        } else if sq_ok && self.u.chance(1, 2) {
            self.quoted += 1;
            self.put(&format!("'{}'", s.replace('\'', "''")));
        } else {
            self.quoted += 1;
            self.yaml_dq(s);
        }
    }
    fn scalar(&mut self, v: &V, ptr: &str, yaml: bool) {
        self.mark(ptr);
        match v {
            V::Null => self.put("null"),
            V::Bool(b) => self.put(if *b { "true" } else { "false" }),
            V::Int(i) => self.put(&i.to_string()),
            V::Float(f) => {
                // the spellings other writers use for the same number: `1e+22` (explicit exponent
                // sign: Python, JavaScript), `1E22`, `1.0e22`
                let mut t = fmt_float(*f);
                if self.layout {
                    if let Some(i) = t.find('e') {
                        if !t[i + 1..].starts_with('-') && self.u.chance(1, 2) {
                            t.insert(i + 1, '+');
                        }
                        if !t[..i].contains('.') && self.u.chance(1, 3) {
                            t.insert_str(i, ".0");
                        }
                        if self.u.chance(1, 4) {
                            t = t.replace('e', "E");
                        }
                    }
                }
                self.put(&t)
            }
            V::Str(s) => {
                if yaml {
                    self.yaml_string(s)
                } else {
                    self.json_string(s)
                }
            }
            _ => unreachable!(),
        }
    }
    fn nl(&mut self, indent: usize) {
        self.put("\n");
        self.put(&" ".repeat(indent));
    }

    fn json(&mut self, v: &V, ptr: &str, pretty: bool, unit: usize, depth: usize) {
        match v {
            V::List(l) => {
                self.put("[");
                for (i, x) in l.iter().enumerate() {
                    if i > 0 {
                        self.put(",");
                    }
                    if pretty {
                        self.nl((depth + 1) * unit);
                    }
                    self.json(x, &format!("{}/{}", ptr, i), pretty, unit, depth + 1);
                }
                if pretty && !l.is_empty() {
                    self.nl(depth * unit);
                }
                self.put("]");
            }
            V::Map(m) => {
                self.put("{");
                for (i, (k, x)) in m.iter().enumerate() {
                    if i > 0 {
                        self.put(",");
                    }
                    if pretty {
                        self.nl((depth + 1) * unit);
                    }
                    self.json_string(k);
                    self.put(if pretty { ": " } else { ":" });
                    self.json(x, &format!("{}/{}", ptr, k), pretty, unit, depth + 1);
                }
                if pretty && !m.is_empty() {
                    self.nl(depth * unit);
                }
                self.put("}");
            }
            s => self.scalar(s, ptr, false),
        }
    }

    fn flow(&mut self, v: &V, ptr: &str, depth: usize) {
        match v {
            V::List(l) => {
                self.put("[");
                for (i, x) in l.iter().enumerate() {
                    if i > 0 {
                        self.put(",");
                        if self.layout && self.u.chance(1, 6) {
                            self.nl(depth * 2 + 2);
                        } else {
                            self.put(" ");
                        }
                    }
                    self.flow(x, &format!("{}/{}", ptr, i), depth + 1);
                }
                self.put("]");
            }
            V::Map(m) => {
                self.put("{");
                for (i, (k, x)) in m.iter().enumerate() {
                    if i > 0 {
                        self.put(",");
                        if self.layout && self.u.chance(1, 6) {
                            self.nl(depth * 2 + 2);
                        } else {
                            self.put(" ");
                        }
                    }
                    self.yaml_key(k);
                    self.put(": ");
                    self.flow(x, &format!("{}/{}", ptr, k), depth + 1);
                }
                self.put("}");
            }
            s => self.scalar(s, ptr, true),
        }
    }
    fn yaml_key(&mut self, k: &str) {
        // keys are strings: quoted unless plain-safe
        self.yaml_string(k)
    }
    fn filler(&mut self, indent: usize) {
        if !self.layout {
            return;
        }
        if self.u.chance(1, 8) {
            self.put("\n");
        }
        if self.u.chance(1, 8) {
            self.put(&" ".repeat(indent));
            self.put("# a comment: with 'quotes', [brackets] and key: value\n");
        }
    }

    /// block style; the cursor is at the start of a line's content (indent already written) for
    /// containers, or right after "key: " / "- " for scalars
    fn block(&mut self, v: &V, ptr: &str, indent: usize, unit: usize, seq_indent: bool) {
        match v {
            V::Map(m) if !m.is_empty() => {
                for (i, (k, x)) in m.iter().enumerate() {
                    if i > 0 {
                        self.put("\n");
                        self.filler(indent);
                        self.put(&" ".repeat(indent));
                    }
                    self.yaml_key(k);
                    self.put(":");
                    self.block_value(x, &format!("{}/{}", ptr, k), indent, unit, seq_indent, false);
                }
            }
            V::List(l) if !l.is_empty() => {
                for (i, x) in l.iter().enumerate() {
                    if i > 0 {
                        self.put("\n");
                        self.filler(indent);
                        self.put(&" ".repeat(indent));
                    }
                    self.put("-");
                    self.block_value(x, &format!("{}/{}", ptr, i), indent, unit, seq_indent, true);
                }
            }
            V::Map(_) => {
                self.put("{}");
            }
            V::List(_) => {
                self.put("[]");
            }
            s => self.scalar(s, ptr, true),
        }
    }
    /// after "key:" or "-"
    fn block_value(&mut self, x: &V, ptr: &str, indent: usize, unit: usize, seq_indent: bool, in_seq: bool) {
        match x {
            V::Map(m) if !m.is_empty() => {
                if in_seq {
                    // "- key: value" with the map's further keys aligned under the first key
                    self.put(" ");
                    self.block(x, ptr, indent + 2, unit, seq_indent);
                } else {
                    self.put("\n");
                    self.put(&" ".repeat(indent + unit));
                    self.block(x, ptr, indent + unit, unit, seq_indent);
                }
            }
            V::List(l) if !l.is_empty() => {
                if in_seq {
                    self.put(" ");
                    self.block(x, ptr, indent + 2, unit, seq_indent);
                } else {
                    let ind = if seq_indent { indent + unit } else { indent };
                    self.put("\n");
                    self.put(&" ".repeat(ind));
                    self.block(x, ptr, ind, unit, seq_indent);
                }
            }
            // empty containers and nested flow values
            V::Map(_) | V::List(_) => {
                self.put(" ");
                self.flow(x, ptr, 0);
            }
            // an empty value is null (`key:` / `-` with nothing after it)
            V::Null if self.layout && self.u.chance(1, 3) => {
                self.empty_nulls += 1;
            }
            V::Str(t) if self.layout && block_scalar_ok(t) && self.u.chance(1, 3) => {
                // literal / folded block scalar: always a string, whatever the text looks like
                self.put(" ");
                self.mark(ptr);
                let clip = t.ends_with('\n');
                let body = if clip { &t[..t.len() - 1] } else { &t[..] };
                let header = if clip {
                    "|"
                } else if !body.contains('\n') && self.u.chance(1, 3) {
                    ">-"
                } else {
                    "|-"
                };
                self.put(header);
                if self.u.chance(1, 6) {
                    self.put(" # block scalar");
                }
                let ind = indent + 1 + self.u.below(3);
                for line in body.split('\n') {
                    self.put("\n");
                    if !line.is_empty() {
                        self.put(&" ".repeat(ind));
                        self.put(line);
                    }
                }
                self.quoted += 1;
                self.block_scalars += 1;
            }
            s => {
                self.put(" ");
                self.scalar(s, ptr, true);
            }
        }
    }
}

/// May this string be written as a literal block scalar (`|`, `|-`) with auto-detected indentation?
fn block_scalar_ok(s: &str) -> bool {
    let body = s.strip_suffix('\n').unwrap_or(s);
    if body.is_empty() || body.starts_with(' ') || body.starts_with('\n') || body.ends_with('\n') {
        return false;
    }
    if body.chars().any(|c| (c != '\n' && (c as u32) < 0x20) || c as u32 == 0x7f || c == '\u{85}' || c == '\u{2028}' || c == '\u{2029}' || c == '\u{feff}') {
        return false;
    }
    // no whitespace-only lines, no trailing blanks on the last line
    !body.split('\n').any(|l| !l.is_empty() && l.trim().is_empty()) && !body.ends_with(' ')
}

/// Leading blank lines / indentation before the document proper: positions are relative to the
/// text as it is on disk, not to the first non-blank character. `spaces`: may the first token be
/// indented on its own line (not a `---` marker, a comment or a block mapping)?
fn lead(w: &mut W, spaces: bool) {
    if !w.layout || !w.u.chance(1, 4) {
        return;
    }
    let nl = w.u.below(4);
    for _ in 0..nl {
        if w.u.chance(1, 3) {
            w.put("  ");
        }
        w.put("\n");
    }
    if spaces {
        let sp = w.u.below(4);
        w.put(&" ".repeat(sp));
        if sp == 0 && nl == 0 {
            w.put(" ");
        }
    } else if nl == 0 {
        w.put("\n");
    }
}

pub fn write_doc(v: &V, style: Style, u: &mut Choices, layout: bool) -> Written {
    let mut w = W { u, out: String::new(), line: 0, col: 0, pos: BTreeMap::new(), plain: 0, quoted: 0, layout, block_scalars: 0, empty_nulls: 0, ascii_json: false };
    match style {
        Style::JsonCompact => {
            w.ascii_json = layout && w.u.chance(1, 3);
            lead(&mut w, true);
            w.json(v, "", false, 0, 0)
        }
        Style::JsonPretty => {
            w.ascii_json = layout && w.u.chance(1, 3);
            lead(&mut w, true);
            let unit = [2usize, 4, 1, 3][w.u.below(4)];
            w.json(v, "", true, unit, 0)
        }
        Style::YamlFlow => {
            if layout && w.u.chance(1, 4) {
                lead(&mut w, false);
                w.put("---\n");
            } else {
                lead(&mut w, true);
            }
            w.flow(v, "", 0)
        }
        Style::YamlBlock => {
            let unit = [2usize, 4, 3][w.u.below(3)];
            let seq_indent = w.u.chance(1, 2);
            lead(&mut w, false);
            if layout && w.u.chance(1, 4) {
                w.put("# leading comment\n");
            }
            if layout && w.u.chance(1, 4) {
                w.put("---\n");
            }
            w.block(v, "", 0, unit, seq_indent)
        }
    }
    if !layout || w.block_scalars > 0 || w.u.chance(3, 4) {
        w.put("\n");
    }
    // a block document may be indented as a whole (every line by the same amount)
    if layout && style == Style::YamlBlock && matches!(v, V::Map(m) if !m.is_empty()) && !w.out.contains("---\n") && w.u.chance(1, 6) {
        let k = 1 + w.u.below(3);
        let pad = " ".repeat(k);
        let mut t = String::new();
        for line in w.out.split_inclusive('\n') {
            if line != "\n" {
                t.push_str(&pad);
            }
            t.push_str(line);
        }
        w.out = t;
        for (_, p) in w.pos.iter_mut() {
            p.1 += k;
        }
    }
    Written { text: w.out, pos: w.pos, plain_strings: w.plain, quoted_strings: w.quoted, block_scalars: w.block_scalars, empty_nulls: w.empty_nulls }
}
