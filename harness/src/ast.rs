//! The harness's own rule AST (independent of the crate's) and its canonical pretty-printer.
use crate::val::{fmt_float, V};

#[derive(Clone, Debug, PartialEq)]
pub enum Lit {
    V(V),
    Regex(String),
    RangeI(i64, i64, bool, bool), // lo, hi, lower inclusive, upper inclusive
    RangeF(f64, f64, bool, bool),
    List(Vec<Lit>), // list literal that may contain regex/range members
}

impl Lit {
    pub fn is_list(&self) -> bool {
        matches!(self, Lit::V(V::List(_)) | Lit::List(_))
    }
}

#[derive(Clone, Debug, PartialEq)]
pub enum Head {
    Key(String),
    This,
    Var(String),
}

#[derive(Clone, Debug, PartialEq)]
pub enum Part {
    Key(String),
    /// `.%name` interpolation: key(s) taken from a variable
    VarKey(String),
    Star,   // .*
    AllIdx, // [*]
    Idx(i32),
    Filter(Cnf),
    /// `[ name | clauses ]`: a filter over the entries of a map that also captures the keys of the
    /// selected entries in the variable `name`
    CapFilter(String, Cnf),
    /// `[ keys == <lit> ]` / `[ keys in [..] ]`
    KeysFilter { op: BinOp, neg: bool, rhs: Lit },
    /// `[ keys in %v ]`: the right-hand side is a variable (which may resolve to nothing at all)
    KeysFilterVar { op: BinOp, neg: bool, var: String },
}

#[derive(Clone, Debug, PartialEq)]
pub struct Query {
    pub head: Head,
    pub parts: Vec<Part>,
}

#[derive(Clone, Copy, Debug, PartialEq, Eq, Hash)]
pub enum BinOp {
    Eq,
    In,
    Lt,
    Le,
    Gt,
    Ge,
}
pub const BINOPS: [BinOp; 6] = [BinOp::Eq, BinOp::In, BinOp::Lt, BinOp::Le, BinOp::Gt, BinOp::Ge];

#[derive(Clone, Copy, Debug, PartialEq, Eq, Hash)]
pub enum UnOp {
    Exists,
    Empty,
    IsString,
    IsList,
    IsStruct,
    IsBool,
    IsInt,
    IsFloat,
    IsNull,
}
pub const UNOPS: [UnOp; 9] = [
    UnOp::Exists,
    UnOp::Empty,
    UnOp::IsString,
    UnOp::IsList,
    UnOp::IsStruct,
    UnOp::IsBool,
    UnOp::IsInt,
    UnOp::IsFloat,
    UnOp::IsNull,
];

impl UnOp {
    pub fn text(&self) -> &'static str {
        match self {
            UnOp::Exists => "exists",
            UnOp::Empty => "empty",
            UnOp::IsString => "is_string",
            UnOp::IsList => "is_list",
            UnOp::IsStruct => "is_struct",
            UnOp::IsBool => "is_bool",
            UnOp::IsInt => "is_int",
            UnOp::IsFloat => "is_float",
            UnOp::IsNull => "is_null",
        }
    }
}

#[derive(Clone, Debug, PartialEq)]
pub struct Call {
    pub name: String,
    pub args: Vec<Expr>,
}

/// Anything that can stand on a right-hand side / as a `let` value / as an argument.
#[derive(Clone, Debug, PartialEq)]
pub enum Expr {
    Lit(Lit),
    Query { some: bool, q: Query },
    Call(Call),
}

#[derive(Clone, Debug, PartialEq)]
pub enum Kind {
    Unary { op: UnOp, opneg: bool },
    Binary { op: BinOp, opneg: bool, rhs: Expr },
}

#[derive(Clone, Debug, PartialEq)]
pub struct Clause {
    pub prefneg: bool,
    pub some: bool,
    pub q: Query,
    pub kind: Kind,
    pub msg: Option<String>,
}

#[derive(Clone, Debug, PartialEq)]
pub struct Let {
    pub name: String,
    pub value: Expr,
}

#[derive(Clone, Debug, PartialEq)]
pub enum Item {
    Clause(Clause),
    Ref { neg: bool, name: String, msg: Option<String> },
    PCall { neg: bool, name: String, args: Vec<Expr>, msg: Option<String> },
    Block { some: bool, q: Query, notempty: bool, lets: Vec<Let>, body: Cnf },
    When { cond: Cnf, lets: Vec<Let>, body: Cnf },
    TypeBlock { ty: String, when: Option<Cnf>, lets: Vec<Let>, body: Cnf },
}

pub type Cnf = Vec<Vec<Item>>;

#[derive(Clone, Debug, PartialEq)]
pub struct Rule {
    pub name: String,
    pub when: Option<Cnf>,
    pub lets: Vec<Let>,
    pub body: Cnf,
}

#[derive(Clone, Debug, PartialEq)]
pub struct PRule {
    pub name: String,
    pub params: Vec<String>,
    pub lets: Vec<Let>,
    pub body: Cnf,
}

#[derive(Clone, Debug, PartialEq, Default)]
pub struct File {
    pub lets: Vec<Let>,
    pub prules: Vec<PRule>,
    pub rules: Vec<Rule>,
    /// clauses outside any rule (the implicit `default` rule); printed first
    pub default: Cnf,
}

// ------------------------------------------------------------------------------------------------
// literals

/// Guard string literal for `s`, or None if not expressible (a value ending in a backslash).
pub fn guard_str(s: &str, prefer_double: bool) -> Option<String> {
    if s.ends_with('\\') {
        return None;
    }
    let q = if prefer_double { '"' } else { '\'' };
    let mut out = String::new();
    out.push(q);
    for c in s.chars() {
        if c == q {
            out.push('\\');
        }
        out.push(c);
    }
    out.push(q);
    Some(out)
}

/// Is this value expressible as a Guard literal (DESIGN 3.2: no negative floats, no i64::MIN, no
/// floats that Rust prints with an unsigned exponent unless fixed up, no strings ending in '\')?
pub fn v_expressible(v: &V) -> bool {
    match v {
        V::Int(i) => *i != i64::MIN,
        V::Float(f) => f.is_finite() && !(f.is_sign_negative()),
        V::Str(s) => !s.ends_with('\\'),
        V::List(l) => l.iter().all(v_expressible),
        V::Map(m) => m.iter().all(|(k, x)| !k.ends_with('\\') && v_expressible(x)),
        _ => true,
    }
}

pub fn float_lit(f: f64) -> String {
    // "1e308" -> "1e+308" (the grammar wants a sign in the exponent); "5e-324" stays.
    let s = fmt_float(f);
    if let Some(p) = s.find('e') {
        let (m, e) = s.split_at(p);
        let e = &e[1..];
        let m = if m.contains('.') { m.to_string() } else { format!("{}.0", m) };
        if e.starts_with('-') || e.starts_with('+') {
            format!("{}e{}", m, e)
        } else {
            format!("{}e+{}", m, e)
        }
    } else {
        s
    }
}

pub fn print_v(v: &V, out: &mut String) {
    match v {
        V::Null => out.push_str("null"),
        V::Bool(b) => out.push_str(if *b { "true" } else { "false" }),
        V::Int(i) => out.push_str(&i.to_string()),
        V::Float(f) => out.push_str(&float_lit(*f)),
        V::Str(s) => out.push_str(&guard_str(s, false).unwrap_or_else(|| "''".into())),
        V::List(l) => {
            out.push('[');
            for (i, x) in l.iter().enumerate() {
                if i > 0 {
                    out.push_str(", ");
                }
                print_v(x, out);
            }
            out.push(']');
        }
        V::Map(m) => {
            out.push('{');
            for (i, (k, x)) in m.iter().enumerate() {
                if i > 0 {
                    out.push_str(", ");
                }
                out.push_str(&guard_str(k, true).unwrap_or_else(|| "\"\"".into()));
                out.push_str(": ");
                print_v(x, out);
            }
            out.push('}');
        }
    }
}

pub fn print_lit(l: &Lit, out: &mut String) {
    match l {
        Lit::V(v) => print_v(v, out),
        Lit::Regex(r) => {
            out.push('/');
            out.push_str(&r.replace('/', "\\/"));
            out.push('/');
        }
        Lit::RangeI(lo, hi, li, ui) => {
            out.push('r');
            out.push(if *li { '[' } else { '(' });
            out.push_str(&format!("{}, {}", lo, hi));
            out.push(if *ui { ']' } else { ')' });
        }
        Lit::RangeF(lo, hi, li, ui) => {
            out.push('r');
            out.push(if *li { '[' } else { '(' });
            out.push_str(&format!("{}, {}", float_lit(*lo), float_lit(*hi)));
            out.push(if *ui { ']' } else { ')' });
        }
        Lit::List(xs) => {
            out.push('[');
            for (i, x) in xs.iter().enumerate() {
                if i > 0 {
                    out.push_str(", ");
                }
                print_lit(x, out);
            }
            out.push(']');
        }
    }
}

pub fn lit_text(l: &Lit) -> String {
    let mut s = String::new();
    print_lit(l, &mut s);
    s
}
pub fn v_text(v: &V) -> String {
    let mut s = String::new();
    print_v(v, &mut s);
    s
}

// ------------------------------------------------------------------------------------------------
// canonical printer

fn simple_key(k: &str) -> bool {
    let mut cs = k.chars();
    match cs.next() {
        Some(c) if c.is_ascii_alphabetic() => {}
        _ => return false,
    }
    k.chars().all(|c| c.is_ascii_alphanumeric() || c == '_')
}

pub fn print_key(k: &str, first: bool, out: &mut String) {
    if simple_key(k) {
        if !first {
            out.push('.');
        }
        out.push_str(k);
    } else {
        if !first {
            out.push('.');
        }
        out.push_str(&guard_str(k, false).unwrap_or_else(|| "''".into()));
    }
}

pub fn print_parts(parts: &[Part], ind: &str, out: &mut String) {
    for p in parts {
        match p {
            Part::Key(k) => print_key(k, false, out),
            Part::VarKey(v) => {
                out.push_str(".%");
                out.push_str(v);
            }
            Part::Star => out.push_str(".*"),
            Part::AllIdx => out.push_str("[*]"),
            Part::Idx(i) => out.push_str(&format!("[{}]", i)),
            Part::Filter(cnf) => {
                out.push_str("[ ");
                let ind2 = format!("{}    ", ind);
                print_cnf(cnf, &ind2, out);
                out.push_str(" ]");
            }
            Part::CapFilter(name, cnf) => {
                out.push_str("[ ");
                out.push_str(name);
                out.push_str(" | ");
                let ind2 = format!("{}    ", ind);
                print_cnf(cnf, &ind2, out);
                out.push_str(" ]");
            }
            Part::KeysFilter { op, neg, rhs } => {
                out.push_str("[ keys ");
                out.push_str(binop_text(*op, *neg));
                out.push(' ');
                print_lit(rhs, out);
                out.push_str(" ]");
            }
            Part::KeysFilterVar { op, neg, var } => {
                out.push_str("[ keys ");
                out.push_str(binop_text(*op, *neg));
                out.push_str(" %");
                out.push_str(var);
                out.push_str(" ]");
            }
        }
    }
}

pub fn print_query(q: &Query, ind: &str, out: &mut String) {
    match &q.head {
        Head::Key(k) => print_key(k, true, out),
        Head::This => out.push_str("this"),
        Head::Var(v) => {
            out.push('%');
            out.push_str(v);
        }
    }
    print_parts(&q.parts, ind, out);
}

pub fn binop_text(op: BinOp, neg: bool) -> &'static str {
    match (op, neg) {
        (BinOp::Eq, false) => "==",
        (BinOp::Eq, true) => "!=",
        (BinOp::In, false) => "in",
        (BinOp::In, true) => "not in",
        (BinOp::Lt, false) => "<",
        (BinOp::Le, false) => "<=",
        (BinOp::Gt, false) => ">",
        (BinOp::Ge, false) => ">=",
        // ordering operators have no operator-level negation in the grammar
        (BinOp::Lt, true) => "<",
        (BinOp::Le, true) => "<=",
        (BinOp::Gt, true) => ">",
        (BinOp::Ge, true) => ">=",
    }
}

pub fn print_expr(e: &Expr, ind: &str, out: &mut String) {
    match e {
        Expr::Lit(l) => print_lit(l, out),
        Expr::Query { some, q } => {
            if *some {
                out.push_str("some ");
            }
            print_query(q, ind, out)
        }
        Expr::Call(c) => print_call(&c.name, &c.args, ind, out),
    }
}

pub fn print_call(name: &str, args: &[Expr], ind: &str, out: &mut String) {
    out.push_str(name);
    out.push('(');
    for (i, a) in args.iter().enumerate() {
        if i > 0 {
            out.push_str(", ");
        }
        print_expr(a, ind, out);
    }
    out.push(')');
}

fn print_msg(m: &Option<String>, out: &mut String) {
    if let Some(m) = m {
        out.push_str(" <<");
        out.push_str(m);
        out.push_str(">>");
    }
}

pub fn print_clause(c: &Clause, ind: &str, out: &mut String) {
    if c.prefneg {
        out.push_str("not ");
    }
    if c.some {
        out.push_str("some ");
    }
    print_query(&c.q, ind, out);
    out.push(' ');
    match &c.kind {
        Kind::Unary { op, opneg } => {
            if *opneg {
                out.push('!');
            }
            out.push_str(op.text());
        }
        Kind::Binary { op, opneg, rhs } => {
            out.push_str(binop_text(*op, *opneg));
            out.push(' ');
            print_expr(rhs, ind, out);
        }
    }
    print_msg(&c.msg, out);
}

pub fn print_lets(lets: &[Let], ind: &str, out: &mut String) {
    for l in lets {
        out.push_str(ind);
        out.push_str("let ");
        out.push_str(&l.name);
        out.push_str(" = ");
        print_expr(&l.value, ind, out);
        out.push('\n');
    }
}

fn print_body(lets: &[Let], body: &Cnf, ind: &str, out: &mut String) {
    out.push_str("{\n");
    let ind2 = format!("{}  ", ind);
    print_lets(lets, &ind2, out);
    out.push_str(&ind2);
    print_cnf(body, &ind2, out);
    out.push('\n');
    out.push_str(ind);
    out.push('}');
}

pub fn print_item(it: &Item, ind: &str, out: &mut String) {
    match it {
        Item::Clause(c) => print_clause(c, ind, out),
        Item::Ref { neg, name, msg } => {
            if *neg {
                out.push_str("not ");
            }
            out.push_str(name);
            print_msg(msg, out);
        }
        Item::PCall { neg, name, args, msg } => {
            if *neg {
                out.push_str("not ");
            }
            print_call(name, args, ind, out);
            print_msg(msg, out);
        }
        Item::Block { some, q, notempty, lets, body } => {
            if *some {
                out.push_str("some ");
            }
            print_query(q, ind, out);
            if *notempty {
                out.push_str(" !empty");
            }
            out.push(' ');
            print_body(lets, body, ind, out);
        }
        Item::When { cond, lets, body } => {
            out.push_str("when ");
            let ci = format!("{}     ", ind);
            print_cnf(cond, &ci, out);
            out.push(' ');
            print_body(lets, body, ind, out);
        }
        Item::TypeBlock { ty, when, lets, body } => {
            out.push_str(ty);
            out.push(' ');
            if let Some(w) = when {
                out.push_str("when ");
                let ci = format!("{}     ", ind);
                print_cnf(w, &ci, out);
                out.push(' ');
            }
            print_body(lets, body, ind, out);
        }
    }
}

/// Lines separated by newline+indent, alternatives by " or\n"+indent. The first item is printed
/// at the current position.
pub fn print_cnf(cnf: &Cnf, ind: &str, out: &mut String) {
    for (i, line) in cnf.iter().enumerate() {
        if i > 0 {
            out.push('\n');
            out.push_str(ind);
        }
        for (j, it) in line.iter().enumerate() {
            if j > 0 {
                out.push_str(" or\n");
                out.push_str(ind);
            }
            print_item(it, ind, out);
        }
    }
}

pub fn print_rule(r: &Rule, out: &mut String) {
    out.push_str("rule ");
    out.push_str(&r.name);
    if let Some(w) = &r.when {
        out.push_str(" when ");
        print_cnf(w, "      ", out);
    }
    out.push(' ');
    print_body(&r.lets, &r.body, "", out);
    out.push('\n');
}

pub fn print_prule(r: &PRule, out: &mut String) {
    out.push_str("rule ");
    out.push_str(&r.name);
    out.push('(');
    out.push_str(&r.params.join(", "));
    out.push_str(") ");
    print_body(&r.lets, &r.body, "", out);
    out.push('\n');
}

pub fn print_file(f: &File) -> String {
    let mut out = String::new();
    print_lets(&f.lets, "", &mut out);
    if !f.default.is_empty() {
        print_cnf(&f.default, "", &mut out);
        out.push('\n');
    }
    for p in &f.prules {
        print_prule(p, &mut out);
    }
    for r in &f.rules {
        print_rule(r, &mut out);
    }
    out
}

pub fn clause_text(c: &Clause) -> String {
    let mut s = String::new();
    print_clause(c, "", &mut s);
    s
}
pub fn query_text(q: &Query) -> String {
    let mut s = String::new();
    print_query(q, "", &mut s);
    s
}

// ------------------------------------------------------------------------------------------------
// small constructors used by the enumerations

pub fn q_key(path: &[&str]) -> Query {
    Query { head: Head::Key(path[0].to_string()), parts: path[1..].iter().map(|k| Part::Key(k.to_string())).collect() }
}
pub fn cl_bin(q: Query, op: BinOp, opneg: bool, rhs: Lit) -> Clause {
    Clause { prefneg: false, some: false, q, kind: Kind::Binary { op, opneg, rhs: Expr::Lit(rhs) }, msg: None }
}
pub fn cl_un(q: Query, op: UnOp, opneg: bool) -> Clause {
    Clause { prefneg: false, some: false, q, kind: Kind::Unary { op, opneg }, msg: None }
}
pub fn rule1(name: &str, item: Item) -> Rule {
    Rule { name: name.to_string(), when: None, lets: vec![], body: vec![vec![item]] }
}
pub fn file_of(rules: Vec<Rule>) -> File {
    File { lets: vec![], prules: vec![], rules, default: vec![] }
}

// ------------------------------------------------------------------------------------------------
// traversal helpers

/// visit every CNF of the file in a fixed pre-order
pub fn visit_cnfs(file: &mut File, f: &mut dyn FnMut(&mut Cnf)) {
    fn in_query(q: &mut Query, f: &mut dyn FnMut(&mut Cnf)) {
        for p in q.parts.iter_mut() {
            if let Part::Filter(c) | Part::CapFilter(_, c) = p {
                f(c);
                in_cnf(c, f);
            }
        }
    }
    fn in_expr(e: &mut Expr, f: &mut dyn FnMut(&mut Cnf)) {
        match e {
            Expr::Query { q, .. } => in_query(q, f),
            Expr::Call(c) => c.args.iter_mut().for_each(|a| in_expr(a, f)),
            _ => {}
        }
    }
    fn in_lets(ls: &mut Vec<Let>, f: &mut dyn FnMut(&mut Cnf)) {
        for l in ls.iter_mut() {
            in_expr(&mut l.value, f);
        }
    }
    fn in_cnf(c: &mut Cnf, f: &mut dyn FnMut(&mut Cnf)) {
        for line in c.iter_mut() {
            for it in line.iter_mut() {
                match it {
                    Item::Clause(cl) => {
                        in_query(&mut cl.q, f);
                        if let Kind::Binary { rhs, .. } = &mut cl.kind {
                            in_expr(rhs, f);
                        }
                    }
                    Item::Block { q, lets, body, .. } => {
                        in_query(q, f);
                        in_lets(lets, f);
                        f(body);
                        in_cnf(body, f);
                    }
                    Item::When { cond, lets, body } => {
                        f(cond);
                        in_cnf(cond, f);
                        in_lets(lets, f);
                        f(body);
                        in_cnf(body, f);
                    }
                    Item::TypeBlock { when, lets, body, .. } => {
                        if let Some(w) = when {
                            f(w);
                            in_cnf(w, f);
                        }
                        in_lets(lets, f);
                        f(body);
                        in_cnf(body, f);
                    }
                    Item::PCall { args, .. } => args.iter_mut().for_each(|a| in_expr(a, f)),
                    Item::Ref { .. } => {}
                }
            }
        }
    }
    in_lets(&mut file.lets, f);
    for p in file.prules.iter_mut() {
        f(&mut p.body);
        in_cnf(&mut p.body, f);
    }
    for r in file.rules.iter_mut() {
        if let Some(w) = &mut r.when {
            f(w);
            in_cnf(w, f);
        }
        in_lets(&mut r.lets, f);
        f(&mut r.body);
        in_cnf(&mut r.body, f);
    }
}


/// Append `suffix` to every custom message of the file (C09: messages that span several lines).
pub fn suffix_messages(file: &mut File, suffix: &str) {
    fn fix_cnf(c: &mut Cnf, suffix: &str) {
        for line in c.iter_mut() {
            for it in line.iter_mut() {
                match it {
                    Item::Clause(Clause { msg: Some(m), .. })
                    | Item::Ref { msg: Some(m), .. }
                    | Item::PCall { msg: Some(m), .. } => m.push_str(suffix),
                    _ => {}
                }
            }
        }
    }
    let sfx = suffix.to_string();
    visit_cnfs(file, &mut |c| fix_cnf(c, &sfx));
}

/// Give every rule, parameterised rule and custom message of the file a prefix (used to make names
/// globally distinct across several rules files).
pub fn prefix_names(file: &mut File, prefix: &str) {
    fn fix_cnf(c: &mut Cnf, prefix: &str) {
        for line in c.iter_mut() {
            for it in line.iter_mut() {
                match it {
                    Item::Clause(cl) => {
                        if let Some(m) = &mut cl.msg {
                            *m = format!("{}{}", prefix, m);
                        }
                    }
                    Item::Ref { name, msg, .. } | Item::PCall { name, msg, .. } => {
                        *name = format!("{}{}", prefix, name);
                        if let Some(m) = msg {
                            *m = format!("{}{}", prefix, m);
                        }
                    }
                    _ => {}
                }
            }
        }
    }
    let p = prefix.to_string();
    visit_cnfs(file, &mut |c| fix_cnf(c, &p));
    for r in file.rules.iter_mut() {
        r.name = format!("{}{}", prefix, r.name);
    }
    for r in file.prules.iter_mut() {
        r.name = format!("{}{}", prefix, r.name);
    }
}
