//! Variant printer (C14): prints the same AST under a stream of choices that picks, for every
//! token occurrence, one documented synonym, and a random layout (indentation, blank lines,
//! trailing blanks, line breaks inside lists and filters, `#` comments).
use crate::ast::*;
use crate::choices::Choices;
use crate::val::V;
use std::collections::BTreeMap;

pub struct VP<'a, 'b> {
    pub u: &'a mut Choices<'b>,
    pub out: String,
    /// token class -> number of non-canonical spellings chosen
    pub used: BTreeMap<&'static str, u32>,
    pub comments: u32,
    pub unit: usize,
    /// probability knobs (x/8)
    pub p_syn: u32,
    pub p_layout: u32,
    /// forced spelling: (token class, alternative index) used at every occurrence of that class
    pub force: Option<(&'static str, usize)>,
}

impl<'a, 'b> VP<'a, 'b> {
    pub fn new(u: &'a mut Choices<'b>) -> Self {
        let unit = [2usize, 4, 1, 3][u.below(4)];
        VP { u, out: String::new(), used: BTreeMap::new(), comments: 0, unit, p_syn: 4, p_layout: 2, force: None }
    }

    fn kw(&mut self, class: &'static str, alts: &[&str]) {
        let mut i = if self.u.chance(self.p_syn, 8) { self.u.below(alts.len()) } else { 0 };
        if let Some((c, a)) = self.force {
            i = if c == class { a.min(alts.len() - 1) } else { 0 };
        }
        if i != 0 {
            *self.used.entry(class).or_default() += 1;
        }
        self.out.push_str(alts[i]);
    }
    fn ind(&mut self, depth: usize) {
        for _ in 0..depth * self.unit {
            self.out.push(' ');
        }
    }
    /// after an opening `[` (or the `name |` of a key capture): a blank, or a line break that may carry
    /// a comment
    fn open_filter(&mut self, depth: usize) {
        if self.u.chance(self.p_layout, 8) {
            if self.u.chance(1, 2) {
                self.out.push_str(" # comment after the opening bracket ] }");
                self.comments += 1;
            }
            self.out.push('\n');
            self.ind(depth);
            *self.used.entry("break-in-filter").or_default() += 1;
        } else {
            self.out.push(' ');
        }
    }
    /// before the closing `]`
    fn close_filter(&mut self, depth: usize) {
        if self.u.chance(self.p_layout, 8) {
            if self.u.chance(1, 2) {
                self.out.push_str(" # comment before the closing bracket [ {");
                self.comments += 1;
            }
            self.out.push('\n');
            self.ind(depth);
        } else {
            self.out.push(' ');
        }
        self.out.push(']');
    }
    /// end the current line: optional trailing blanks / trailing comment, newline, optional blank
    /// lines and comment lines
    fn eol(&mut self, depth: usize, allow_comment: bool) {
        if self.u.chance(self.p_layout, 8) {
            self.out.push_str(["  ", " ", "\t"][self.u.below(3)]);
            *self.used.entry("trailing-blank").or_default() += 1;
        }
        if allow_comment && self.u.chance(self.p_layout, 8) {
            self.out.push_str(" # trailing comment, with 'quotes' and { braces }");
            self.comments += 1;
        }
        self.out.push('\n');
        if self.u.chance(self.p_layout, 8) {
            self.out.push('\n');
            *self.used.entry("blank-line").or_default() += 1;
        }
        if allow_comment && self.u.chance(self.p_layout, 8) {
            self.ind(depth);
            self.out.push_str("# a comment line: rule x { a == 1 } or when\n");
            self.comments += 1;
        }
    }

    fn string(&mut self, s: &str) {
        let mut dbl = self.u.chance(self.p_syn, 8);
        if let Some((c, a)) = self.force {
            dbl = c == "quote" && a == 1;
        }
        if dbl {
            *self.used.entry("quote").or_default() += 1;
        }
        self.out.push_str(&guard_str(s, dbl).unwrap_or_else(|| "''".into()));
    }

    fn value(&mut self, v: &V, depth: usize) {
        match v {
            V::Null => self.kw("null", &["null", "NULL"]),
            V::Bool(true) => self.kw("bool", &["true", "True"]),
            V::Bool(false) => self.kw("bool", &["false", "False"]),
            V::Int(i) => self.out.push_str(&i.to_string()),
            V::Float(f) => self.out.push_str(&float_lit(*f)),
            V::Str(s) => self.string(s),
            V::List(l) => {
                self.out.push('[');
                if !l.is_empty() {
                    self.list_gap(depth);
                }
                for (i, x) in l.iter().enumerate() {
                    if i > 0 {
                        self.list_gap(depth);
                        self.out.push(',');
                        self.list_break(depth);
                    }
                    self.value(x, depth);
                }
                if !l.is_empty() {
                    self.list_gap(depth);
                }
                self.out.push(']');
            }
            V::Map(m) => {
                self.out.push('{');
                for (i, (k, x)) in m.iter().enumerate() {
                    if i > 0 {
                        self.out.push(',');
                        self.list_break(depth);
                    }
                    // map keys: bare when simple, else quoted (either quote)
                    let simple = !k.is_empty() && k.chars().all(|c| c.is_ascii_alphanumeric() || c == '_' || c == '-');
                    let mut bare = self.u.chance(self.p_syn, 8);
                    if let Some((c, a)) = self.force {
                        bare = c == "bare-map-key" && a == 1;
                    }
                    if simple && bare {
                        self.out.push_str(k);
                        *self.used.entry("bare-map-key").or_default() += 1;
                    } else {
                        self.string(k);
                    }
                    self.out.push_str(": ");
                    self.value(x, depth);
                }
                self.out.push('}');
            }
        }
    }
    /// blanks or a line break where a list literal allows them besides after a comma: after `[`,
    /// before a comma (leading-comma style), before `]`
    fn list_gap(&mut self, depth: usize) {
        if self.u.chance(self.p_layout, 16) {
            match self.u.below(3) {
                0 => self.out.push(' '),
                1 => self.out.push_str("  "),
                _ => {
                    self.out.push('\n');
                    self.ind(depth + 2);
                    *self.used.entry("break-in-list").or_default() += 1;
                }
            }
        }
    }
    fn list_break(&mut self, depth: usize) {
        if self.u.chance(self.p_layout, 8) {
            self.out.push('\n');
            self.ind(depth + 2);
            *self.used.entry("break-in-list").or_default() += 1;
        } else {
            self.out.push(' ');
        }
    }

    fn lit(&mut self, l: &Lit, depth: usize) {
        match l {
            Lit::V(v) => self.value(v, depth),
            Lit::List(xs) => {
                self.out.push('[');
                if !xs.is_empty() {
                    self.list_gap(depth);
                }
                for (i, x) in xs.iter().enumerate() {
                    if i > 0 {
                        self.list_gap(depth);
                        self.out.push(',');
                        self.list_break(depth);
                    }
                    self.lit(x, depth);
                }
                if !xs.is_empty() {
                    self.list_gap(depth);
                }
                self.out.push(']');
            }
            other => print_lit(other, &mut self.out),
        }
    }

    fn key(&mut self, k: &str, first: bool) {
        if !first {
            self.out.push('.');
        }
        let simple = k.chars().next().map_or(false, |c| c.is_ascii_alphabetic()) && k.chars().all(|c| c.is_ascii_alphanumeric() || c == '_');
        if simple {
            self.out.push_str(k);
        } else {
            self.string(k);
        }
    }

    fn parts(&mut self, parts: &[Part], depth: usize) {
        for p in parts {
            match p {
                Part::Key(k) => self.key(k, false),
                Part::VarKey(v) => {
                    self.out.push_str(".%");
                    self.out.push_str(v);
                }
                Part::Star => self.out.push_str(".*"),
                Part::AllIdx => {
                    self.out.push('[');
                    if self.u.chance(self.p_layout, 8) {
                        self.out.push(' ');
                    }
                    self.out.push_str("*]");
                }
                Part::Idx(i) => {
                    let mut dot = self.u.chance(self.p_syn, 8);
                    if let Some((c, a)) = self.force {
                        dot = c == "index-dot" && a == 1;
                    }
                    if *i >= 0 && dot {
                        self.out.push_str(&format!(".{}", i));
                        *self.used.entry("index-dot").or_default() += 1;
                    } else {
                        self.out.push_str(&format!("[{}]", i));
                    }
                }
                Part::Filter(cnf) => {
                    self.out.push('[');
                    self.open_filter(depth + 2);
                    self.cnf(cnf, depth + 2, true);
                    self.close_filter(depth + 1);
                }
                Part::CapFilter(name, cnf) => {
                    self.out.push('[');
                    self.open_filter(depth + 2);
                    self.out.push_str(name);
                    // a line break inside the filter, between the capture name and its `|`
                    if self.u.chance(self.p_layout, 8) {
                        self.out.push('\n');
                        self.ind(depth + 2);
                        *self.used.entry("break-in-filter").or_default() += 1;
                    } else if self.u.chance(self.p_layout, 8) {
                        // or no blank at all
                    } else {
                        self.out.push(' ');
                    }
                    self.out.push('|');
                    self.open_filter(depth + 2);
                    self.cnf(cnf, depth + 2, true);
                    self.close_filter(depth + 1);
                }
                Part::KeysFilter { op, neg, rhs } => {
                    self.out.push('[');
                    self.open_filter(depth + 2);
                    self.kw("keys", &["keys", "KEYS"]);
                    self.out.push(' ');
                    self.binop(*op, *neg);
                    self.out.push(' ');
                    self.lit(rhs, depth);
                    self.close_filter(depth + 1);
                }
                Part::KeysFilterVar { op, neg, var } => {
                    self.out.push('[');
                    self.open_filter(depth + 2);
                    self.kw("keys", &["keys", "KEYS"]);
                    self.out.push(' ');
                    self.binop(*op, *neg);
                    self.out.push_str(" %");
                    self.out.push_str(var);
                    self.close_filter(depth + 1);
                }
            }
        }
    }

    fn query(&mut self, q: &Query, depth: usize, may_this: bool) {
        match &q.head {
            Head::Key(k) => {
                let mut lead = self.u.chance(self.p_syn, 16);
                if let Some((c, a)) = self.force {
                    lead = c == "leading-this" && a == 1;
                }
                if may_this && lead {
                    self.kw("this", &["this", "THIS"]);
                    *self.used.entry("leading-this").or_default() += 1;
                    self.key(k, false);
                } else {
                    self.key(k, true);
                }
            }
            Head::This => self.kw("this", &["this", "THIS"]),
            Head::Var(v) => {
                self.out.push('%');
                self.out.push_str(v);
            }
        }
        self.parts(&q.parts, depth);
    }

    fn binop(&mut self, op: BinOp, neg: bool) {
        match (op, neg) {
            (BinOp::Eq, false) => self.out.push_str("=="),
            (BinOp::Eq, true) => self.out.push_str("!="),
            (BinOp::In, n) => {
                if n {
                    self.kw("not", &["not ", "NOT ", "!"]);
                }
                self.kw("in", &["in", "IN"]);
            }
            (o, _) => self.out.push_str(binop_text(o, false)),
        }
    }

    fn expr(&mut self, e: &Expr, depth: usize) {
        match e {
            Expr::Lit(l) => self.lit(l, depth),
            Expr::Query { some, q } => {
                if *some {
                    self.kw("some", &["some", "SOME"]);
                    self.out.push(' ');
                }
                self.query(q, depth, false)
            }
            Expr::Call(c) => self.call(&c.name, &c.args, depth),
        }
    }
    fn call(&mut self, name: &str, args: &[Expr], depth: usize) {
        self.out.push_str(name);
        self.out.push('(');
        for (i, a) in args.iter().enumerate() {
            if i > 0 {
                self.out.push_str(if self.u.chance(self.p_layout, 8) { " ,  " } else { ", " });
            }
            self.expr(a, depth);
        }
        self.out.push(')');
    }
    fn msg(&mut self, m: &Option<String>) {
        if let Some(m) = m {
            self.out.push_str(if self.u.chance(self.p_layout, 8) { "  <<" } else { " <<" });
            self.out.push_str(m);
            self.out.push_str(">>");
        }
    }
    fn prefix_not(&mut self) {
        self.kw("not", &["not ", "NOT ", "!"]);
    }

    fn clause(&mut self, c: &Clause, depth: usize) {
        if c.prefneg {
            self.prefix_not();
        }
        if c.some {
            self.kw("some", &["some", "SOME"]);
            self.out.push(' ');
        }
        // a leading `this.` only where no `some` / negation token precedes a `this`-less query
        self.query(&c.q, depth, true);
        self.out.push(' ');
        match &c.kind {
            Kind::Unary { op, opneg } => {
                if *opneg {
                    self.kw("not", &["!", "not ", "NOT "]);
                }
                let (lo, up) = match op {
                    UnOp::Exists => ("exists", "EXISTS"),
                    UnOp::Empty => ("empty", "EMPTY"),
                    UnOp::IsString => ("is_string", "IS_STRING"),
                    UnOp::IsList => ("is_list", "IS_LIST"),
                    UnOp::IsStruct => ("is_struct", "IS_STRUCT"),
                    UnOp::IsBool => ("is_bool", "IS_BOOL"),
                    UnOp::IsInt => ("is_int", "IS_INT"),
                    UnOp::IsFloat => ("is_float", "IS_FLOAT"),
                    UnOp::IsNull => ("is_null", "IS_NULL"),
                };
                self.kw("unary-op", &[lo, up]);
            }
            Kind::Binary { op, opneg, rhs } => {
                self.binop(*op, *opneg);
                self.out.push(' ');
                self.expr(rhs, depth);
            }
        }
        self.msg(&c.msg);
    }

    fn lets(&mut self, lets: &[Let], depth: usize) {
        for l in lets {
            self.ind(depth);
            self.out.push_str("let ");
            self.out.push_str(&l.name);
            self.out.push(' ');
            self.kw("assign", &["=", ":="]);
            self.out.push(' ');
            self.expr(&l.value, depth);
            self.eol(depth, true);
        }
    }

    fn body(&mut self, lets: &[Let], body: &Cnf, depth: usize) {
        self.out.push('{');
        self.eol(depth + 1, true);
        self.lets(lets, depth + 1);
        self.ind(depth + 1);
        self.cnf(body, depth + 1, true);
        self.eol(depth, true);
        self.ind(depth);
        self.out.push('}');
    }

    fn when_kw(&mut self) {
        self.kw("when", &["when", "WHEN"]);
        self.out.push(' ');
    }

    fn item(&mut self, it: &Item, depth: usize) {
        match it {
            Item::Clause(c) => self.clause(c, depth),
            Item::Ref { neg, name, msg } => {
                if *neg {
                    self.prefix_not();
                }
                self.out.push_str(name);
                self.msg(msg);
            }
            Item::PCall { neg, name, args, msg } => {
                if *neg {
                    self.prefix_not();
                }
                self.call(name, args, depth);
                self.msg(msg);
            }
            Item::Block { some, q, notempty, lets, body } => {
                if *some {
                    self.kw("some", &["some", "SOME"]);
                    self.out.push(' ');
                }
                self.query(q, depth, true);
                if *notempty {
                    self.out.push(' ');
                    self.kw("not", &["!", "not ", "NOT "]);
                    self.kw("unary-op", &["empty", "EMPTY"]);
                }
                self.out.push(' ');
                self.body(lets, body, depth);
            }
            Item::When { cond, lets, body } => {
                self.when_kw();
                self.cnf(cond, depth + 3, false);
                self.out.push(' ');
                self.body(lets, body, depth);
            }
            Item::TypeBlock { ty, when, lets, body } => {
                self.out.push_str(ty);
                self.out.push(' ');
                if let Some(w) = when {
                    self.when_kw();
                    self.cnf(w, depth + 3, false);
                    self.out.push(' ');
                }
                self.body(lets, body, depth);
            }
        }
    }

    /// `comments`: whether comment lines may be inserted between the lines of this CNF
    fn cnf(&mut self, cnf: &Cnf, depth: usize, comments: bool) {
        for (i, line) in cnf.iter().enumerate() {
            if i > 0 {
                self.eol(depth, comments);
                self.ind(depth);
            }
            for (j, it) in line.iter().enumerate() {
                if j > 0 {
                    self.out.push(' ');
                    self.kw("or", &["or", "OR", "|OR|"]);
                    if self.u.chance(self.p_layout, 8) {
                        self.out.push(' ');
                    } else {
                        self.out.push('\n');
                        self.ind(depth);
                    }
                }
                self.item(it, depth);
            }
        }
    }

    pub fn file(&mut self, f: &File) {
        if self.u.chance(self.p_layout, 8) {
            self.out.push_str("# leading comment\n\n");
            self.comments += 1;
        }
        self.lets(&f.lets, 0);
        if !f.default.is_empty() {
            self.cnf(&f.default, 0, true);
            self.eol(0, true);
        }
        for p in &f.prules {
            self.out.push_str("rule ");
            self.out.push_str(&p.name);
            self.out.push('(');
            for (i, a) in p.params.iter().enumerate() {
                if i > 0 {
                    self.out.push_str(if self.u.chance(self.p_layout, 8) { " , " } else { ", " });
                }
                self.out.push_str(a);
            }
            self.out.push_str(") ");
            self.body(&p.lets, &p.body, 0);
            self.eol(0, true);
        }
        for r in &f.rules {
            self.out.push_str("rule ");
            self.out.push_str(&r.name);
            if let Some(w) = &r.when {
                self.out.push(' ');
                self.when_kw();
                self.cnf(w, 3, false);
            }
            self.out.push(' ');
            self.body(&r.lets, &r.body, 0);
            self.eol(0, true);
        }
        if self.u.chance(self.p_layout, 8) {
            // no trailing newline at the end of the file
            while self.out.ends_with('\n') {
                self.out.pop();
            }
        }
    }
}

pub struct Variant {
    pub text: String,
    pub classes: BTreeMap<&'static str, u32>,
    pub comments: u32,
}

pub fn print_variant(f: &File, u: &mut Choices) -> Variant {
    let mut p = VP::new(u);
    p.file(f);
    Variant { text: p.out.clone(), classes: p.used.clone(), comments: p.comments }
}

/// every (token class, alternative) pair of the synonym table
pub const SYNONYM_TABLE: [(&str, usize); 18] = [
    ("when", 1),
    ("some", 1),
    ("this", 1),
    ("keys", 1),
    ("in", 1),
    ("unary-op", 1),
    ("not", 1),
    ("not", 2),
    ("or", 1),
    ("or", 2),
    ("assign", 1),
    ("quote", 1),
    ("index-dot", 1),
    ("leading-this", 1),
    ("bool", 1),
    ("null", 1),
    ("bare-map-key", 1),
    ("canonical", 0),
];

/// print with exactly one token class forced to one alternative everywhere, canonical layout
pub fn print_forced(f: &File, class: &'static str, alt: usize) -> Variant {
    let empty: [u32; 0] = [];
    let mut u = Choices::new(&empty);
    let mut p = VP::new(&mut u);
    p.p_layout = 0;
    p.force = Some((class, alt));
    p.file(f);
    Variant { text: p.out.clone(), classes: p.used.clone(), comments: p.comments }
}
