//! Engine: tiers, seeds, sharded proptest runners over choice streams, bounded-exhaustive
//! enumerations, statistics, known findings, replay files, evidence.
use crate::choices::{splitmix, Choices};
use crate::val::fnv;
use proptest::prelude::*;
use proptest::test_runner::{Config, RngSeed, TestCaseError, TestError, TestRunner};
use serde_json::{json, Value as J};
use std::collections::{BTreeMap, HashSet};
use std::path::PathBuf;
use std::sync::atomic::{AtomicBool, Ordering};
use std::sync::Mutex;

#[derive(Clone, Copy, PartialEq, Eq, Debug)]
pub enum Tier {
    Quick,
    Thorough,
}
impl Tier {
    pub fn text(&self) -> &'static str {
        match self {
            Tier::Quick => "quick",
            Tier::Thorough => "thorough",
        }
    }
    pub fn pick<T>(&self, q: T, t: T) -> T {
        match self {
            Tier::Quick => q,
            Tier::Thorough => t,
        }
    }
}

pub fn verif_root() -> PathBuf {
    PathBuf::from(std::env::var("GV_ROOT").unwrap_or_else(|_| "/verif".to_string()))
}

#[derive(Clone, Debug)]
pub struct Failure {
    /// one line: what was expected and what was observed
    pub msg: String,
    /// class of the failure (matched against known_findings.json signatures)
    pub sig: String,
    /// the case in *text* form: enough to re-run the predicate without any generator
    pub case: J,
}

pub enum CaseResult {
    Pass(Info),
    Discard(&'static str),
    Fail(Failure),
    /// several independent failures found by one (batched) case
    Fails(Vec<Failure>),
}

#[derive(Default, Clone)]
pub struct Info {
    pub nontrivial: bool,
    /// hash identifying the case for distinctness
    pub key: u64,
    pub classes: Vec<String>,
    /// number of tool executions performed for this case
    pub evals: u64,
    pub sample: Option<J>,
}

#[derive(Default)]
pub struct Stats {
    pub cases: u64,
    pub evaluations: u64,
    pub nontrivial: HashSet<u64>,
    pub classes: BTreeMap<String, u64>,
    pub discards: BTreeMap<String, u64>,
    pub excluded_known: BTreeMap<String, u64>,
    pub samples: Vec<J>,
    pub frozen: bool,
}
impl Stats {
    fn merge(&mut self, o: Stats) {
        self.cases += o.cases;
        self.evaluations += o.evaluations;
        self.nontrivial.extend(o.nontrivial);
        for (k, v) in o.classes {
            *self.classes.entry(k).or_default() += v;
        }
        for (k, v) in o.discards {
            *self.discards.entry(k).or_default() += v;
        }
        for (k, v) in o.excluded_known {
            *self.excluded_known.entry(k).or_default() += v;
        }
        for s in o.samples {
            if self.samples.len() < 12 {
                self.samples.push(s);
            }
        }
    }
    fn record(&mut self, info: Info) {
        self.cases += 1;
        self.evaluations += info.evals;
        for c in info.classes {
            *self.classes.entry(c).or_default() += 1;
        }
        if info.nontrivial {
            let new = self.nontrivial.insert(info.key);
            if new && self.samples.len() < 4 {
                if let Some(s) = info.sample {
                    self.samples.push(s);
                }
            }
        }
    }
}

#[derive(Clone, Debug)]
pub struct Finding {
    pub id: String,
    pub property: String,
    pub status: String, // "known" | "fixed"
    pub signature: String,
    pub replay: String,
    pub what: String,
    pub commit: String,
}

pub fn load_findings() -> Vec<Finding> {
    let p = verif_root().join("known_findings.json");
    let txt = match std::fs::read_to_string(&p) {
        Ok(t) => t,
        Err(_) => return vec![],
    };
    let j: J = serde_json::from_str(&txt).expect("known_findings.json is not JSON");
    let mut out = vec![];
    for f in j["findings"].as_array().cloned().unwrap_or_default() {
        let g = |k: &str| f[k].as_str().unwrap_or("").to_string();
        out.push(Finding {
            id: g("id"),
            property: g("property"),
            status: g("status"),
            signature: g("signature"),
            replay: g("replay"),
            what: g("what"),
            commit: g("commit"),
        });
    }
    out
}

pub struct StageInfo {
    pub name: String,
    pub kind: &'static str,
    pub cases: u64,
    pub exhaustive: bool,
    pub wall_s: f64,
}

pub struct Session {
    pub id: String,
    pub tier: Tier,
    pub seed: u64,
    pub threads: usize,
    pub stats: Mutex<Stats>,
    pub failures: Mutex<Vec<Failure>>,
    pub stages: Mutex<Vec<StageInfo>>,
    pub known: Vec<Finding>,
    pub stop: AtomicBool,
    pub inconclusive: Mutex<Vec<String>>,
    pub start: std::time::Instant,
    /// shrink budget of the random stages (lower it for expensive cases)
    pub shrink_iters: std::sync::atomic::AtomicU32,
}

impl Session {
    pub fn new(id: &str, tier: Tier, seed: u64) -> Session {
        let threads = std::env::var("GV_THREADS").ok().and_then(|s| s.parse().ok()).unwrap_or_else(|| {
            std::thread::available_parallelism().map(|n| n.get()).unwrap_or(8).min(16)
        });
        let known = load_findings().into_iter().filter(|f| f.property == id).collect();
        Session {
            id: id.to_string(),
            tier,
            seed,
            threads,
            stats: Mutex::new(Stats::default()),
            failures: Mutex::new(vec![]),
            stages: Mutex::new(vec![]),
            known,
            stop: AtomicBool::new(false),
            inconclusive: Mutex::new(vec![]),
            start: std::time::Instant::now(),
            shrink_iters: std::sync::atomic::AtomicU32::new(2500),
        }
    }

    /// Some(finding id) if the failure's signature is a recorded *known* (not fixed) finding
    pub fn known_sig(&self, sig: &str) -> Option<String> {
        self.known
            .iter()
            .find(|f| f.status == "known" && !f.signature.is_empty() && f.signature.split('|').any(|pat| glob_match(pat.trim(), sig)))
            .map(|f| f.id.clone())
    }

    fn note_failure(&self, f: Failure) {
        let mut fs = self.failures.lock().unwrap();
        if fs.iter().any(|x| x.sig == f.sig) {
            return;
        }
        fs.push(f);
        if fs.len() >= 6 {
            self.stop.store(true, Ordering::SeqCst);
        }
    }

    /// Handle one case result inside a worker. Returns Err(failure) when the case is an
    /// unlisted violation.
    fn absorb(&self, st: &mut Stats, r: CaseResult) -> Result<(), Failure> {
        match r {
            CaseResult::Pass(info) => {
                if !st.frozen {
                    st.record(info);
                }
                Ok(())
            }
            CaseResult::Discard(why) => {
                if !st.frozen {
                    *st.discards.entry(why.to_string()).or_default() += 1;
                }
                Ok(())
            }
            CaseResult::Fail(f) => {
                if let Some(id) = self.known_sig(&f.sig) {
                    if !st.frozen {
                        st.cases += 1;
                        *st.excluded_known.entry(id).or_default() += 1;
                    }
                    Ok(())
                } else {
                    Err(f)
                }
            }
            CaseResult::Fails(fs) => {
                let mut first = None;
                if !st.frozen {
                    st.cases += 1;
                }
                for f in fs {
                    if let Some(id) = self.known_sig(&f.sig) {
                        if !st.frozen {
                            *st.excluded_known.entry(id).or_default() += 1;
                        }
                    } else if first.is_none() {
                        first = Some(f);
                    } else {
                        self.note_failure(f);
                    }
                }
                match first {
                    Some(f) => Err(f),
                    None => Ok(()),
                }
            }
        }
    }

    /// Bounded-exhaustive stage: `f(i)` for every i in 0..total, sharded over the worker threads.
    pub fn run_enum(&self, name: &str, total: usize, f: impl Fn(usize) -> CaseResult + Sync) {
        let t0 = std::time::Instant::now();
        let next = std::sync::atomic::AtomicUsize::new(0);
        let stage_stats = Mutex::new(Stats::default());
        let chunk = 64usize;
        std::thread::scope(|s| {
            for _ in 0..self.threads {
                s.spawn(|| {
                    let mut st = Stats::default();
                    loop {
                        if self.stop.load(Ordering::Relaxed) {
                            break;
                        }
                        let lo = next.fetch_add(chunk, Ordering::Relaxed);
                        if lo >= total {
                            break;
                        }
                        for i in lo..(lo + chunk).min(total) {
                            if let Err(fail) = self.absorb(&mut st, f(i)) {
                                self.note_failure(fail);
                            }
                        }
                    }
                    stage_stats.lock().unwrap().merge(st);
                    crate::drive::scratch_cleanup_thread();
                });
            }
        });
        self.finish_stage(stage_stats);
        let complete = !self.stop.load(Ordering::Relaxed);
        self.stages.lock().unwrap().push(StageInfo {
            name: name.to_string(),
            kind: "enumeration",
            cases: total as u64,
            exhaustive: complete,
            wall_s: t0.elapsed().as_secs_f64(),
        });
    }

    /// Random stage: `cases` cases in total, split over the worker threads; each worker owns a
    /// proptest TestRunner seeded from (seed, stage name, shard). The generated value is a choice
    /// stream; `f` decodes it into a case and checks it.
    pub fn run_random(&self, name: &str, cases: u32, max_len: usize, f: impl Fn(&mut Choices) -> CaseResult + Sync) {
        let t0 = std::time::Instant::now();
        let per = (cases as usize + self.threads - 1) / self.threads;
        let name_h = fnv(name.as_bytes());
        let stage_stats = Mutex::new(Stats::default());
        std::thread::scope(|s| {
            for shard in 0..self.threads {
                let f = &f;
                let stage_stats = &stage_stats;
                s.spawn(move || {
                    let seed = splitmix(self.seed ^ name_h.rotate_left(17) ^ splitmix(shard as u64 + 1));
                    let cfg = Config {
                        cases: per as u32,
                        failure_persistence: None,
                        rng_seed: RngSeed::Fixed(seed),
                        max_shrink_iters: self.shrink_iters.load(Ordering::Relaxed),
                        max_global_rejects: u32::MAX,
                        max_local_rejects: u32::MAX,
                        verbose: 0,
                        ..Config::default()
                    };
                    let mut runner = TestRunner::new(cfg);
                    let strat = proptest::collection::vec(any::<u32>(), (max_len / 4).max(4)..max_len.max(8));
                    let st = std::cell::RefCell::new(Stats::default());
                    let last_fail: std::cell::RefCell<Option<Failure>> = std::cell::RefCell::new(None);
                    let res = runner.run(&strat, |v| {
                        if self.stop.load(Ordering::Relaxed) && !st.borrow().frozen {
                            return Ok(());
                        }
                        let mut u = Choices::new(&v);
                        let r = f(&mut u);
                        let mut stm = st.borrow_mut();
                        match self.absorb(&mut stm, r) {
                            Ok(()) => Ok(()),
                            Err(fail) => {
                                stm.frozen = true;
                                let m = fail.msg.clone();
                                // during shrinking keep only failures of the same class
                                let mut lf = last_fail.borrow_mut();
                                if let Some(prev) = lf.as_ref() {
                                    if prev.sig != fail.sig {
                                        return Ok(());
                                    }
                                }
                                *lf = Some(fail);
                                Err(TestCaseError::fail(m))
                            }
                        }
                    });
                    match res {
                        Ok(()) => {}
                        Err(e) => {
                            if let Some(f) = last_fail.borrow_mut().take() {
                                self.note_failure(f);
                                self.stop.store(true, Ordering::SeqCst);
                            } else {
                                // the runner gave up without a failure of the property: a panic in the
                                // harness's own code (proptest catches it) or an abort - the shard's
                                // remaining cases were not run, which must not pass for a clean run
                                let why = match &e {
                                    TestError::Fail(r, _) => format!("{}", r),
                                    TestError::Abort(r) => format!("{}", r),
                                };
                                self.inconclusive(format!("stage '{}' shard {}: the case runner stopped early without a property failure (harness fault?): {}", name, shard, why.chars().take(300).collect::<String>()));
                            }
                        }
                    }
                    stage_stats.lock().unwrap().merge(st.into_inner());
                    crate::drive::scratch_cleanup_thread();
                });
            }
        });
        self.finish_stage(stage_stats);
        self.stages.lock().unwrap().push(StageInfo {
            name: name.to_string(),
            kind: "random(proptest)",
            cases: (per * self.threads) as u64,
            exhaustive: false,
            wall_s: t0.elapsed().as_secs_f64(),
        });
    }

    fn finish_stage(&self, stage_stats: Mutex<Stats>) {
        let mut st = stage_stats.into_inner().unwrap();
        st.samples.truncate(3);
        let mut all = self.stats.lock().unwrap();
        let keep = std::mem::take(&mut all.samples);
        let mut mine = std::mem::take(&mut st.samples);
        all.merge(st);
        all.samples = keep;
        all.samples.append(&mut mine);
    }

    pub fn inconclusive(&self, why: String) {
        self.inconclusive.lock().unwrap().push(why);
    }

    pub fn class_count(&self, k: &str) -> u64 {
        self.stats.lock().unwrap().classes.get(k).copied().unwrap_or(0)
    }
}

pub fn write_replay(id: &str, f: &Failure) -> PathBuf {
    let dir = verif_root().join("replays").join(id);
    let _ = std::fs::create_dir_all(&dir);
    let body = json!({ "property": id, "signature": f.sig, "message": f.msg, "case": f.case });
    let txt = serde_json::to_string_pretty(&body).unwrap();
    let name = format!("{:016x}.json", fnv(txt.as_bytes()));
    let p = dir.join(name);
    std::fs::write(&p, txt).expect("write replay");
    p
}

pub struct EvidenceSpec {
    pub rule: String,
    pub assumptions: Vec<String>,
}

/// Replays the recorded findings, runs `body`, prints VIOLATION / KNOWN-FINDING lines, writes the
/// evidence file and returns the process exit code.
pub fn execute(
    id: &str,
    tier: Tier,
    seed: u64,
    spec: EvidenceSpec,
    replay: &dyn Fn(&J) -> CaseResult,
    body: &dyn Fn(&Session),
) -> i32 {
    let run = Session::new(id, tier, seed);
    let mut violations: Vec<(String, String)> = vec![]; // (replay path, msg)
    let mut known_lines = vec![];
    // 1. recorded findings
    for f in &run.known {
        if f.replay.is_empty() {
            continue;
        }
        let p = verif_root().join(&f.replay);
        let txt = match std::fs::read_to_string(&p) {
            Ok(t) => t,
            Err(e) => {
                run.inconclusive(format!("cannot read replay {}: {}", p.display(), e));
                continue;
            }
        };
        let j: J = serde_json::from_str(&txt).expect("replay file is JSON");
        let rr = match replay(&j["case"]) {
            CaseResult::Fails(mut fs) if !fs.is_empty() => CaseResult::Fail(fs.remove(0)),
            x => x,
        };
        match rr {
            CaseResult::Fail(fail) => {
                if f.status == "known" {
                    known_lines.push(format!("KNOWN-FINDING: property={} {} {} [{}]", id, f.id, f.what, fail.sig));
                } else {
                    violations.push((p.display().to_string(), format!("regression of fixed finding {}: {}", f.id, fail.msg)));
                }
            }
            _ => {
                if f.status == "known" {
                    println!("note: known finding {} no longer reproduces", f.id);
                }
            }
        }
    }
    // 2. the search
    body(&run);
    // 3. report
    let fails = std::mem::take(&mut *run.failures.lock().unwrap());
    for f in &fails {
        let p = write_replay(id, f);
        violations.push((p.display().to_string(), f.msg.clone()));
    }
    for l in &known_lines {
        println!("{}", l);
    }
    let stats = std::mem::take(&mut *run.stats.lock().unwrap());
    let stages = std::mem::take(&mut *run.stages.lock().unwrap());
    let inconclusive = std::mem::take(&mut *run.inconclusive.lock().unwrap());
    let all_exh = !stages.is_empty() && stages.iter().all(|s| s.exhaustive);
    let mut samples = stats.samples.clone();
    if samples.is_empty() {
        samples.push(json!("no non-trivial sample recorded"));
    }
    let ev = json!({
        "property_id": id,
        "tier": tier.text(),
        "seed": seed,
        "level": "exploration",
        "coverage": {
            "evaluations": stats.evaluations,
            "cases": stats.cases,
            "distinct_nontrivial": stats.nontrivial.len(),
            "rule": spec.rule,
            "samples": samples,
            "exhaustive": all_exh,
            "stages": stages.iter().map(|s| json!({"name": s.name, "kind": s.kind, "cases": s.cases, "completed_exhaustively": s.exhaustive, "wall_s": (s.wall_s*100.0).round()/100.0})).collect::<Vec<_>>(),
            "classes": stats.classes,
            "discards": stats.discards,
            "excluded_known": stats.excluded_known,
            "known_findings_reproduced": known_lines,
            "inconclusive": inconclusive,
            "threads": run.threads,
        },
        "assumptions": spec.assumptions,
        "wall_s": (run.start.elapsed().as_secs_f64()*100.0).round()/100.0,
        "violations": violations.len(),
    });
    let evdir = verif_root().join("evidence");
    let _ = std::fs::create_dir_all(&evdir);
    std::fs::write(evdir.join(format!("{}.json", id)), serde_json::to_string_pretty(&ev).unwrap()).expect("write evidence");
    crate::drive::scratch_cleanup_all();
    println!(
        "{} {} seed={} cases={} evaluations={} distinct_nontrivial={} wall={:.1}s",
        id,
        tier.text(),
        seed,
        stats.cases,
        stats.evaluations,
        stats.nontrivial.len(),
        run.start.elapsed().as_secs_f64()
    );
    for (k, v) in &stats.excluded_known {
        println!("  excluded (known finding {}): {} cases", k, v);
    }
    if !violations.is_empty() {
        for (p, m) in &violations {
            println!("VIOLATION property={} replay={}", id, p);
            println!("  {}", m.lines().next().unwrap_or(""));
        }
        return 1;
    }
    if !inconclusive.is_empty() {
        for w in &inconclusive {
            println!("INCONCLUSIVE: {}", w);
        }
        return 2;
    }
    0
}

pub fn hash_case(parts: &[&str]) -> u64 {
    let mut h = 0u64;
    for p in parts {
        h = h.rotate_left(13) ^ fnv(p.as_bytes());
    }
    h
}

/// `*` matches any run of characters; everything else literally. Signatures of known findings use
/// it only for the part of a signature that names *how* a recorded class of failure shows.
pub fn glob_match(pat: &str, s: &str) -> bool {
    let parts: Vec<&str> = pat.split('*').collect();
    if parts.len() == 1 {
        return pat == s;
    }
    let mut rest = s;
    for (i, p) in parts.iter().enumerate() {
        if i == 0 {
            if !rest.starts_with(p) {
                return false;
            }
            rest = &rest[p.len()..];
        } else if i == parts.len() - 1 {
            return rest.ends_with(p);
        } else {
            match rest.find(p) {
                Some(k) => rest = &rest[k + p.len()..],
                None => return false,
            }
        }
    }
    true
}
