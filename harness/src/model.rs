//! Reference model of the documented core language (DESIGN section 4 / Appendix A).
//! Denotational: query -> member list; clause -> status. Shares no code with the crate.
use crate::ast::*;
use crate::regex_mini::Re;
use crate::val::{Ty, V};
use std::cell::RefCell;
use std::collections::HashMap;
use std::rc::Rc;

#[derive(Clone, Copy, Debug, PartialEq, Eq, Hash, PartialOrd, Ord)]
pub enum St {
    Pass,
    Fail,
    Skip,
}
impl St {
    pub fn text(&self) -> &'static str {
        match self {
            St::Pass => "PASS",
            St::Fail => "FAIL",
            St::Skip => "SKIP",
        }
    }
    pub fn parse(s: &str) -> Option<St> {
        match s {
            "PASS" => Some(St::Pass),
            "FAIL" => Some(St::Fail),
            "SKIP" => Some(St::Skip),
            _ => None,
        }
    }
}

#[derive(Debug, Clone, PartialEq)]
pub enum ModelErr {
    /// the documented semantics is undefined here: the tool must raise an evaluation error
    Eval(String),
    /// the program is outside the modelled fragment: nothing is asserted
    Unsupported(String),
}
type R<T> = Result<T, ModelErr>;

#[derive(Clone, Debug, PartialEq)]
pub enum M {
    R(V),
    /// literal held by a variable (compared without list coercion on the LHS; treated as resolved)
    L(Lit),
    U,
}

// three-valued cell
#[derive(Clone, Copy, PartialEq, Debug)]
pub enum Cell {
    P,
    F,
    N,
}
fn flip(c: Cell) -> Cell {
    match c {
        Cell::P => Cell::F,
        Cell::F => Cell::P,
        Cell::N => Cell::N,
    }
}
fn pf(b: bool) -> Cell {
    if b {
        Cell::P
    } else {
        Cell::F
    }
}

struct NC; // not comparable

/// A right-hand operand after literal evaluation
#[derive(Clone, Debug)]
pub enum RV {
    V(V),
    Regex(String),
    RangeI(i64, i64, bool, bool),
    RangeF(f64, f64, bool, bool),
    List(Vec<RV>),
}

pub fn lit_to_rv(l: &Lit) -> RV {
    match l {
        Lit::V(V::List(xs)) => RV::List(xs.iter().map(|x| lit_to_rv(&Lit::V(x.clone()))).collect()),
        Lit::V(v) => RV::V(v.clone()),
        Lit::Regex(r) => RV::Regex(r.clone()),
        Lit::RangeI(a, b, c, d) => RV::RangeI(*a, *b, *c, *d),
        Lit::RangeF(a, b, c, d) => RV::RangeF(*a, *b, *c, *d),
        Lit::List(xs) => RV::List(xs.iter().map(lit_to_rv).collect()),
    }
}
fn v_to_rv(v: &V) -> RV {
    match v {
        V::List(xs) => RV::List(xs.iter().map(v_to_rv).collect()),
        v => RV::V(v.clone()),
    }
}

pub fn cmp_str(a: &str, b: &str) -> std::cmp::Ordering {
    a.as_bytes().cmp(b.as_bytes())
}

fn order(a: &RV, b: &RV) -> Result<std::cmp::Ordering, NC> {
    use std::cmp::Ordering::*;
    match (a, b) {
        (RV::V(V::Int(x)), RV::V(V::Int(y))) => Ok(x.cmp(y)),
        (RV::V(V::Float(x)), RV::V(V::Float(y))) => x.partial_cmp(y).ok_or(NC),
        (RV::V(V::Str(x)), RV::V(V::Str(y))) => Ok(cmp_str(x, y)),
        (RV::V(V::Null), RV::V(V::Null)) => Ok(Equal),
        _ => Err(NC),
    }
}

fn regex_match(pat: &str, s: &str) -> Result<bool, NC> {
    match Re::new(pat) {
        Some(re) => Ok(re.is_match(s)),
        None => Err(NC), // outside the mini-grammar: generators never produce these
    }
}

fn eq(a: &RV, b: &RV) -> Result<bool, NC> {
    match (a, b) {
        (RV::V(V::Str(s)), RV::Regex(r)) | (RV::Regex(r), RV::V(V::Str(s))) => regex_match(r, s),
        (RV::V(V::Str(x)), RV::V(V::Str(y))) => Ok(x == y),
        (RV::V(V::Map(x)), RV::V(V::Map(y))) => {
            if x.len() != y.len() {
                return Ok(false);
            }
            for (k, v) in x {
                match y.iter().find(|(k2, _)| k2 == k) {
                    None => return Ok(false),
                    Some((_, v2)) => {
                        if !eq(&v_to_rv(v), &v_to_rv(v2))? {
                            return Ok(false);
                        }
                    }
                }
            }
            Ok(true)
        }
        (RV::List(x), RV::List(y)) => {
            if x.len() != y.len() {
                return Ok(false);
            }
            for (p, q) in x.iter().zip(y) {
                if !eq(p, q)? {
                    return Ok(false);
                }
            }
            Ok(true)
        }
        (RV::V(V::Bool(x)), RV::V(V::Bool(y))) => Ok(x == y),
        (RV::Regex(x), RV::Regex(y)) => Ok(x == y),
        // (in either order: the value is compared with the members of a list literal as
        // member == value; the tool had this one-sided until finding F65 was repaired)
        (RV::V(V::Int(a)), RV::RangeI(lo, hi, li, ui)) | (RV::RangeI(lo, hi, li, ui), RV::V(V::Int(a))) => {
            let l = if *li { lo <= a } else { lo < a };
            let h = if *ui { hi >= a } else { hi > a };
            Ok(l && h)
        }
        (RV::V(V::Float(a)), RV::RangeF(lo, hi, li, ui)) | (RV::RangeF(lo, hi, li, ui), RV::V(V::Float(a))) => {
            let l = if *li { lo <= a } else { lo < a };
            let h = if *ui { hi >= a } else { hi > a };
            Ok(l && h)
        }
        _ => Ok(order(a, b)? == std::cmp::Ordering::Equal),
    }
}
fn peq(a: &RV, b: &RV) -> bool {
    eq(a, b).unwrap_or(false)
}
fn mv(r: Result<bool, NC>) -> Cell {
    match r {
        Ok(b) => pf(b),
        Err(NC) => Cell::N,
    }
}
fn is_list(v: &RV) -> bool {
    matches!(v, RV::List(_))
}
fn is_map(v: &RV) -> bool {
    matches!(v, RV::V(V::Map(_)))
}

fn op_eq(l: &RV, r: &RV) -> Vec<Cell> {
    if let RV::List(rs) = r {
        if !is_list(l) && !is_map(l) && rs.len() == 1 {
            return vec![mv(eq(l, &rs[0]))];
        }
        return vec![mv(eq(l, r))];
    }
    if let RV::List(ls) = l {
        return ls.iter().map(|x| mv(eq(x, r))).collect();
    }
    vec![mv(eq(l, r))]
}
fn string_in(l: &RV, r: &str) -> Cell {
    match l {
        RV::V(V::Str(x)) => pf(r.contains(x.as_str())),
        _ => Cell::N,
    }
}
enum InKind {
    LL,
    L(Vec<RV>),
    Val,
}
fn contained_in(l: &RV, r: &RV) -> (InKind, Cell) {
    if let RV::List(ls) = l {
        if let RV::List(rs) = r {
            if !rs.is_empty() && is_list(&rs[0]) {
                return (InKind::LL, pf(rs.iter().any(|x| peq(x, l))));
            }
            let diff: Vec<RV> = ls.iter().filter(|x| !rs.iter().any(|y| peq(y, x))).cloned().collect();
            let c = pf(diff.is_empty());
            return (InKind::L(diff), c);
        }
        return (InKind::Val, Cell::N);
    }
    if let RV::List(rs) = r {
        return (InKind::Val, pf(rs.iter().any(|y| peq(y, l))));
    }
    (InKind::Val, mv(eq(l, r)))
}
fn op_in(l: &RV, r: &RV, neg: bool) -> Vec<Cell> {
    if let RV::V(V::Str(rs)) = r {
        let res: Vec<Cell> = match l {
            RV::List(ls) => ls.iter().map(|x| string_in(x, rs)).collect(),
            _ => vec![string_in(l, rs)],
        };
        return res.into_iter().map(|c| if neg { flip(c) } else { c }).collect();
    }
    let (kind, res) = contained_in(l, r);
    if !neg || res == Cell::N {
        return vec![res];
    }
    match kind {
        InKind::Val => vec![flip(res)],
        // membership of the list as a whole in a list of lists is two-valued (documented
        // reading; the pinned tree could only pass for l = [] — finding F23)
        InKind::LL => vec![flip(res)],
        InKind::L(diff) => {
            if res == Cell::P {
                return vec![Cell::F];
            }
            // `L not in R` passes iff no element of L is in R (calibrated, Appendix A)
            let ls = match l {
                RV::List(ls) => ls,
                _ => unreachable!(),
            };
            let rev: Vec<&RV> = ls.iter().filter(|x| !diff.iter().any(|d| peq(d, x))).collect();
            vec![pf(rev.is_empty())]
        }
    }
}
fn flat(v: &RV) -> Vec<RV> {
    match v {
        RV::List(xs) => xs.clone(),
        x => vec![x.clone()],
    }
}
fn op_ord(l: &RV, r: &RV, op: BinOp) -> Vec<Cell> {
    use std::cmp::Ordering::*;
    let mut out = vec![];
    for a in flat(l) {
        for b in flat(r) {
            out.push(match order(&a, &b) {
                Err(NC) => Cell::N,
                Ok(o) => pf(match op {
                    BinOp::Lt => o == Less,
                    BinOp::Le => o != Greater,
                    BinOp::Gt => o == Greater,
                    BinOp::Ge => o != Less,
                    _ => unreachable!(),
                }),
            });
        }
    }
    out
}

fn agg(cells: &[Cell], some: bool) -> St {
    if some {
        if cells.iter().any(|c| *c == Cell::P) {
            St::Pass
        } else {
            St::Fail
        }
    } else if cells.iter().any(|c| *c != Cell::P) {
        St::Fail
    } else {
        St::Pass
    }
}

/// cells of one resolved member against r
pub fn binary_cells(l: &RV, op: BinOp, neg: bool, r: &RV) -> Vec<Cell> {
    let x = match op {
        BinOp::Eq => {
            let x = op_eq(l, r);
            if neg {
                x.into_iter().map(flip).collect()
            } else {
                x
            }
        }
        BinOp::In => op_in(l, r, neg),
        _ => {
            let x = op_ord(l, r, op);
            if neg {
                x.into_iter().map(flip).collect()
            } else {
                x
            }
        }
    };
    x
}

pub fn binary(members: &[M], op: BinOp, neg: bool, r: &RV, some: bool) -> St {
    if members.is_empty() {
        return St::Skip;
    }
    let mut res = vec![];
    for m in members {
        match m {
            M::U => res.push(Cell::F),
            M::R(v) => res.extend(binary_cells(&v_to_rv(v), op, neg, r)),
            M::L(l) => res.extend(binary_cells(&lit_to_rv(l), op, neg, r)),
        }
    }
    agg(&res, some)
}

pub fn unary(members: &[M], op: UnOp, opneg: bool, prefneg: bool, some: bool, resultset: bool) -> R<St> {
    let fin = |ok: bool| -> bool { (ok != opneg) != prefneg };
    if op == UnOp::Empty && resultset {
        if members.is_empty() {
            return Ok(if fin(true) { St::Pass } else { St::Fail });
        }
        let mut res = vec![];
        for m in members {
            let ok = match m {
                M::U => true,
                M::R(v) => matches!(v, V::Null),
                M::L(l) => matches!(l, Lit::V(V::Null)),
            };
            res.push(pf(fin(ok)));
        }
        return Ok(agg(&res, some));
    }
    if members.is_empty() {
        return Ok(St::Skip);
    }
    let mut res = vec![];
    for m in members {
        let v: Option<V> = match m {
            M::U => None,
            M::R(v) => Some(v.clone()),
            M::L(Lit::V(v)) => Some(v.clone()),
            M::L(Lit::List(_)) => Some(V::List(vec![V::Null])), // only type/emptiness matter
            M::L(_) => return Err(ModelErr::Unsupported("unary on regex/range literal".into())),
        };
        let ok = match op {
            UnOp::Exists => v.is_some(),
            UnOp::Empty => match &v {
                None => true,
                Some(V::List(l)) => l.is_empty(),
                Some(V::Map(m)) => m.is_empty(),
                Some(V::Str(s)) => s.is_empty(),
                Some(V::Bool(_)) => false,
                Some(_) => return Err(ModelErr::Eval("empty on int/float/null".into())),
            },
            _ => {
                let want = match op {
                    UnOp::IsString => Ty::Str,
                    UnOp::IsList => Ty::List,
                    UnOp::IsStruct => Ty::Map,
                    UnOp::IsBool => Ty::Bool,
                    UnOp::IsInt => Ty::Int,
                    UnOp::IsFloat => Ty::Float,
                    UnOp::IsNull => Ty::Null,
                    _ => unreachable!(),
                };
                v.as_ref().map_or(false, |v| v.ty() == want)
            }
        };
        res.push(pf(fin(ok)));
    }
    Ok(agg(&res, some))
}

// ------------------------------------------------------------------------------------------------
// composition

struct Scope {
    defs: Vec<Let>,
    memo: RefCell<HashMap<String, Vec<M>>>,
    value: V,
}
fn mkscope(lets: &[Let], value: &V) -> Rc<Scope> {
    Rc::new(Scope { defs: lets.to_vec(), memo: RefCell::new(HashMap::new()), value: value.clone() })
}

struct Ctx<'a> {
    root: &'a V,
    value: V,
    scopes: Vec<Rc<Scope>>,
    file: &'a File,
    cache: &'a RefCell<HashMap<String, St>>,
    depth: usize,
}

impl<'a> Ctx<'a> {
    fn with(&self, value: V, scopes: Vec<Rc<Scope>>) -> Ctx<'a> {
        Ctx { root: self.root, value, scopes, file: self.file, cache: self.cache, depth: self.depth + 1 }
    }
}

#[derive(Clone, Copy, PartialEq)]
enum Prev {
    None,
    This,
    Key,
    Star,
    AllIdx,
    Idx,
    Filter,
}

fn lookup(c: &Ctx, name: &str) -> R<Vec<M>> {
    for (idx, sc) in c.scopes.iter().enumerate().rev() {
        // the last definition of a name within one scope wins? The parser keeps all; the tool
        // resolves by name in a map => generators never define a name twice in one scope.
        if let Some(d) = sc.defs.iter().find(|d| d.name == name) {
            if let Some(m) = sc.memo.borrow().get(name) {
                return Ok(m.clone());
            }
            let r = match &d.value {
                Expr::Lit(l) => vec![M::L(l.clone())],
                Expr::Query { some, q } => {
                    let cc = c.with(sc.value.clone(), c.scopes[..=idx].to_vec());
                    let mut r = evalq(&cc, q)?;
                    if *some {
                        r.retain(|m| *m != M::U);
                    }
                    r
                }
                Expr::Call(_) => return Err(ModelErr::Unsupported("function call".into())),
            };
            sc.memo.borrow_mut().insert(name.to_string(), r.clone());
            return Ok(r);
        }
    }
    Err(ModelErr::Eval(format!("unknown variable {}", name)))
}

fn evalq(c: &Ctx, q: &Query) -> R<Vec<M>> {
    match &q.head {
        Head::Var(name) => {
            let vals = lookup(c, name)?;
            let mut p: &[Part] = &q.parts;
            if let Some(Part::AllIdx) = p.first() {
                p = &p[1..];
            }
            let mut out = vec![];
            for m in vals {
                match m {
                    M::U => out.push(M::U),
                    _ if p.is_empty() => out.push(m),
                    M::R(v) => out.extend(qparts(c, &v, p, Prev::AllIdx)?),
                    M::L(Lit::V(v)) => out.extend(qparts(c, &v, p, Prev::AllIdx)?),
                    M::L(_) => return Err(ModelErr::Unsupported("query into non-value literal".into())),
                }
            }
            Ok(out)
        }
        Head::This => qparts(c, &c.value, &q.parts, Prev::This),
        Head::Key(k) => {
            let mut parts = vec![Part::Key(k.clone())];
            parts.extend(q.parts.iter().cloned());
            qparts(c, &c.value, &parts, Prev::None)
        }
    }
}

fn qparts(c: &Ctx, v: &V, parts: &[Part], prev: Prev) -> R<Vec<M>> {
    let (p, rest) = match parts.split_first() {
        None => return Ok(vec![M::R(v.clone())]),
        Some(x) => x,
    };
    match p {
        Part::Key(k) => match v.get(k) {
            Some(x) => qparts(c, x, rest, Prev::Key),
            None => Ok(vec![M::U]),
        },
        Part::Idx(i) => match v {
            V::List(l) if (i.unsigned_abs() as usize) < l.len() => {
                qparts(c, &l[i.unsigned_abs() as usize], rest, Prev::Idx)
            }
            _ => Ok(vec![M::U]),
        },
        Part::Star | Part::AllIdx => {
            let star = matches!(p, Part::Star);
            let pv = if star { Prev::Star } else { Prev::AllIdx };
            match v {
                V::List(l) => {
                    if l.is_empty() {
                        return Ok(vec![M::U]);
                    }
                    let mut out = vec![];
                    for x in l {
                        out.extend(qparts(c, x, rest, pv)?);
                    }
                    Ok(out)
                }
                V::Map(m) if star => {
                    if m.is_empty() {
                        return Ok(vec![M::U]);
                    }
                    let mut out = vec![];
                    for (_, x) in m {
                        out.extend(qparts(c, x, rest, pv)?);
                    }
                    Ok(out)
                }
                _ => qparts(c, v, rest, pv),
            }
        }
        Part::CapFilter(..) => Err(ModelErr::Unsupported("key capture".into())),
        Part::Filter(cnf) => {
            let test = |x: &V| -> R<bool> {
                let cc = c.with(x.clone(), c.scopes.clone());
                Ok(evalcnf(&cc, cnf)? == St::Pass)
            };
            match v {
                V::List(l) => {
                    let mut out = vec![];
                    for x in l {
                        if test(x)? {
                            out.extend(qparts(c, x, rest, Prev::Filter)?);
                        }
                    }
                    Ok(out)
                }
                V::Map(m) => match prev {
                    Prev::Star | Prev::AllIdx => {
                        if test(v)? {
                            qparts(c, v, rest, Prev::Filter)
                        } else {
                            Ok(vec![])
                        }
                    }
                    Prev::Key => {
                        let mut out = vec![];
                        for (_, x) in m {
                            if test(x)? {
                                out.extend(qparts(c, x, rest, Prev::Filter)?);
                            }
                        }
                        Ok(out)
                    }
                    _ => Err(ModelErr::Unsupported("filter on a map after this/index/filter".into())),
                },
                _ => {
                    if prev == Prev::AllIdx {
                        if test(v)? {
                            qparts(c, v, rest, Prev::Filter)
                        } else {
                            Ok(vec![])
                        }
                    } else {
                        Ok(vec![M::U])
                    }
                }
            }
        }
        Part::VarKey(_) | Part::KeysFilter { .. } | Part::KeysFilterVar { .. } => Err(ModelErr::Unsupported("interpolation / keys filter".into())),
    }
}

fn is_resultset(q: &Query) -> bool {
    if let Some(Part::Filter(_)) = q.parts.last() {
        return true;
    }
    matches!(q.head, Head::Var(_)) && q.parts.is_empty()
}

fn eval_rhs(c: &Ctx, e: &Expr) -> R<RV> {
    match e {
        Expr::Lit(l) => Ok(lit_to_rv(l)),
        Expr::Query { q, .. } => {
            // only a bare reference to a *literal* variable is inside the modelled fragment
            if let (Head::Var(name), true) = (&q.head, q.parts.is_empty()) {
                let vals = lookup(c, name)?;
                if let [M::L(l)] = vals.as_slice() {
                    return Ok(lit_to_rv(l));
                }
            }
            Err(ModelErr::Unsupported("query on the right-hand side".into()))
        }
        Expr::Call(_) => Err(ModelErr::Unsupported("function call".into())),
    }
}

fn evalitem(c: &Ctx, it: &Item) -> R<St> {
    if c.depth > 200 {
        return Err(ModelErr::Unsupported("recursion".into()));
    }
    match it {
        Item::Clause(cl) => {
            let mem = evalq(c, &cl.q)?;
            match &cl.kind {
                Kind::Unary { op, opneg } => {
                    if mem.iter().any(|m| matches!(m, M::L(_))) {
                        // the pinned tree panics here (F10); documented behaviour for a literal
                        // variable on the LHS of a unary check is not in the core fragment
                        return Err(ModelErr::Unsupported("unary on literal variable".into()));
                    }
                    unary(&mem, *op, *opneg, cl.prefneg, cl.some, is_resultset(&cl.q))
                }
                Kind::Binary { op, opneg, rhs } => {
                    if mem.iter().any(|m| matches!(m, M::L(_))) {
                        return Err(ModelErr::Unsupported("literal variable on the LHS".into()));
                    }
                    let r = eval_rhs(c, rhs)?;
                    Ok(binary(&mem, *op, *opneg != cl.prefneg, &r, cl.some))
                }
            }
        }
        Item::Ref { neg, name, .. } => {
            let st = rule_status(c, name)?;
            let r = (st == St::Pass) != *neg;
            Ok(if r { St::Pass } else { St::Fail })
        }
        Item::Block { some, q, notempty, lets, body } => {
            let mem = evalq(c, q)?;
            if mem.is_empty() {
                return Ok(if *notempty { St::Fail } else { St::Skip });
            }
            let (mut p, mut f) = (0, 0);
            for m in &mem {
                let v = match m {
                    M::U => {
                        f += 1;
                        continue;
                    }
                    M::R(v) => v.clone(),
                    M::L(Lit::V(v)) => v.clone(),
                    M::L(_) => return Err(ModelErr::Unsupported("block over non-value literal".into())),
                };
                let mut scopes = c.scopes.clone();
                scopes.push(mkscope(lets, &v));
                let cc = c.with(v, scopes);
                match evalcnf(&cc, body)? {
                    St::Pass => p += 1,
                    St::Fail => f += 1,
                    St::Skip => {}
                }
            }
            Ok(if *some {
                if p > 0 {
                    St::Pass
                } else if f > 0 {
                    St::Fail
                } else {
                    St::Skip
                }
            } else if f > 0 {
                St::Fail
            } else if p > 0 {
                St::Pass
            } else {
                St::Skip
            })
        }
        Item::When { cond, lets, body } => {
            if evalcnf(c, cond)? != St::Pass {
                return Ok(St::Skip);
            }
            let mut scopes = c.scopes.clone();
            scopes.push(mkscope(lets, &c.value));
            let cc = c.with(c.value.clone(), scopes);
            evalcnf(&cc, body)
        }
        Item::TypeBlock { .. } => Err(ModelErr::Unsupported("type block".into())),
        Item::PCall { .. } => Err(ModelErr::Unsupported("parameterised call".into())),
    }
}

fn evalcnf(c: &Ctx, cnf: &Cnf) -> R<St> {
    let (mut p, mut f) = (0, 0);
    for line in cnf {
        let mut lf = 0;
        let mut passed = false;
        for it in line {
            match evalitem(c, it)? {
                St::Pass => {
                    passed = true;
                    break;
                }
                St::Fail => lf += 1,
                St::Skip => {}
            }
        }
        if passed {
            p += 1;
        } else if lf > 0 {
            f += 1;
        }
    }
    Ok(if f > 0 {
        St::Fail
    } else if p > 0 {
        St::Pass
    } else {
        St::Skip
    })
}

fn eval_rule(c: &Ctx, r: &Rule) -> R<St> {
    let file_scope = vec![c.scopes[0].clone()];
    let root = c.with(c.root.clone(), file_scope.clone());
    if let Some(w) = &r.when {
        if evalcnf(&root, w)? != St::Pass {
            return Ok(St::Skip);
        }
    }
    let mut scopes = file_scope;
    scopes.push(mkscope(&r.lets, c.root));
    let cc = c.with(c.root.clone(), scopes);
    evalcnf(&cc, &r.body)
}

fn rule_status(c: &Ctx, name: &str) -> R<St> {
    if let Some(s) = c.cache.borrow().get(name) {
        return Ok(*s);
    }
    if c.depth > 150 {
        return Err(ModelErr::Unsupported("recursive rule reference".into()));
    }
    let mut st = St::Skip;
    let mut found = false;
    for r in &c.file.rules {
        if r.name == name {
            found = true;
            let s = eval_rule(c, r)?;
            if s != St::Skip {
                st = s;
                break;
            }
        }
    }
    if !found {
        return Err(ModelErr::Eval(format!("unknown rule {}", name)));
    }
    c.cache.borrow_mut().insert(name.to_string(), st);
    Ok(st)
}

pub fn file_status(rules: &[(String, St)]) -> St {
    if rules.iter().any(|(_, s)| *s == St::Fail) {
        St::Fail
    } else if rules.iter().any(|(_, s)| *s == St::Pass) {
        St::Pass
    } else {
        St::Skip
    }
}

/// Evaluate a rules file on a document: per-rule statuses in file order.
pub fn eval_file(doc: &V, file: &File) -> R<Vec<(String, St)>> {
    if !file.prules.is_empty() {
        return Err(ModelErr::Unsupported("parameterised rules".into()));
    }
    let cache = RefCell::new(HashMap::new());
    let c = Ctx { root: doc, value: doc.clone(), scopes: vec![mkscope(&file.lets, doc)], file, cache: &cache, depth: 0 };
    let mut out = vec![];
    // clauses outside any rule are the body of one implicit rule `default`, reported first
    if !file.default.is_empty() {
        let d = Rule { name: "default".into(), when: None, lets: vec![], body: file.default.clone() };
        out.push(("default".to_string(), eval_rule(&c, &d)?));
    }
    for r in &file.rules {
        out.push((r.name.clone(), eval_rule(&c, r)?));
    }
    Ok(out)
}

/// Query evaluation exposed for other properties (C10 path checks, C15 site selection).
pub fn eval_query_root(doc: &V, q: &Query) -> R<Vec<M>> {
    let file = File::default();
    let cache = RefCell::new(HashMap::new());
    let c = Ctx { root: doc, value: doc.clone(), scopes: vec![mkscope(&[], doc)], file: &file, cache: &cache, depth: 0 };
    evalq(&c, q)
}
