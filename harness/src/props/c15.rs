//! C15 — variables and parameterised rules are transparent abstractions (metamorphic: P vs P'
//! where one occurrence is abstracted into a `let` / a parameterised rule).
use crate::ast::*;
use crate::choices::Choices;
use crate::drive::{verdict, Verdict};
use crate::engine::*;
use crate::gen::*;
use crate::model::St;
use crate::val::V;
use serde_json::{json, Value as J};
use std::collections::BTreeMap;

#[derive(Clone, Debug)]
struct Site {
    rule: usize,
    line: usize,
    alt: usize,
    /// clause nested directly in the body of the Block / When at (line, alt)
    inner: Option<(usize, usize)>,
    in_block: bool,
}

fn sites(f: &File) -> Vec<Site> {
    let mut out = vec![];
    for (ri, r) in f.rules.iter().enumerate() {
        for (li, line) in r.body.iter().enumerate() {
            for (ai, it) in line.iter().enumerate() {
                match it {
                    Item::Clause(_) => out.push(Site { rule: ri, line: li, alt: ai, inner: None, in_block: false }),
                    Item::Block { body, .. } | Item::When { body, .. } => {
                        let in_block = matches!(it, Item::Block { .. });
                        for (bl, bline) in body.iter().enumerate() {
                            for (ba, bit) in bline.iter().enumerate() {
                                if let Item::Clause(_) = bit {
                                    out.push(Site { rule: ri, line: li, alt: ai, inner: Some((bl, ba)), in_block });
                                }
                            }
                        }
                    }
                    _ => {}
                }
            }
        }
    }
    out
}

fn clause_at<'a>(f: &'a mut File, s: &Site) -> &'a mut Clause {
    let it = &mut f.rules[s.rule].body[s.line][s.alt];
    let it = match s.inner {
        None => it,
        Some((bl, ba)) => match it {
            Item::Block { body, .. } | Item::When { body, .. } => &mut body[bl][ba],
            _ => unreachable!(),
        },
    };
    match it {
        Item::Clause(c) => c,
        _ => unreachable!(),
    }
}

fn inner_lets<'a>(f: &'a mut File, s: &Site) -> &'a mut Vec<Let> {
    match &mut f.rules[s.rule].body[s.line][s.alt] {
        Item::Block { lets, .. } | Item::When { lets, .. } => lets,
        _ => unreachable!(),
    }
}

#[derive(Clone, Copy, Debug, PartialEq)]
enum Level {
    File,
    Rule,
    Inner,
}

fn add_let(f: &mut File, s: &Site, lvl: Level, l: Let) {
    match lvl {
        Level::File => f.lets.push(l),
        Level::Rule => f.rules[s.rule].lets.push(l),
        Level::Inner => inner_lets(f, s).push(l),
    }
}

fn var_q(name: &str, parts: Vec<Part>) -> Query {
    Query { head: Head::Var(name.to_string()), parts }
}

struct Xform {
    kind: &'static str,
    file: File,
    note: String,
    /// the abstracted expression resolves to at least one value (best effort)
    resolves: bool,
    /// the program to compare with, when it is not the generated one itself
    inline: Option<File>,
}

fn levels_for(u: &mut Choices, s: &Site, literal: bool) -> Level {
    // where may the `let` go so that the expression means the same?
    match (s.inner, s.in_block, literal) {
        (None, _, _) => *u.pick(&[Level::Rule, Level::File]),
        // inside a `when` body the context is still the rule's context
        (Some(_), false, _) => *u.pick(&[Level::Inner, Level::Rule, Level::File]),
        // inside a query block: a query is relative to the block's value
        (Some(_), true, false) => Level::Inner,
        (Some(_), true, true) => *u.pick(&[Level::Inner, Level::Rule, Level::File]),
    }
}

fn transform(u: &mut Choices, f: &File, doc: &V) -> Option<Xform> {
    let ss = sites(f);
    if ss.is_empty() {
        return None;
    }
    let s = ss[u.below(ss.len())].clone();
    let mut g = f.clone();
    let c0 = clause_at(&mut g, &s).clone();
    let fresh = "zv".to_string();
    let kind = u.below(15);
    match kind {
        13 | 14 => {
            // a variable in the *condition* of a `when` block inside a rule: the condition is written
            // outside the block, so it sees the definition at rule / file level; a `let` of the same
            // name inside the guarded block (kind 14; never referred to there) must not reach it
            let mut whens = vec![];
            for (ri, r) in g.rules.iter().enumerate() {
                for (li, line) in r.body.iter().enumerate() {
                    for (ai, it) in line.iter().enumerate() {
                        if let Item::When { cond, .. } = it {
                            for (cl, cline) in cond.iter().enumerate() {
                                for (ca, cit) in cline.iter().enumerate() {
                                    if let Item::Clause(Clause { kind: Kind::Binary { rhs: Expr::Lit(_), .. }, .. }) = cit {
                                        whens.push((ri, li, ai, cl, ca));
                                    }
                                }
                            }
                        }
                    }
                }
            }
            if whens.is_empty() {
                return None;
            }
            let (ri, li, ai, cl, ca) = whens[u.below(whens.len())];
            let at_file = u.chance(1, 2);
            let mut lit = None;
            if let Item::When { cond, lets, .. } = &mut g.rules[ri].body[li][ai] {
                if let Item::Clause(c) = &mut cond[cl][ca] {
                    if let Kind::Binary { rhs, .. } = &mut c.kind {
                        if let Expr::Lit(l) = rhs.clone() {
                            lit = Some(l);
                        }
                        *rhs = Expr::Query { some: false, q: var_q(&fresh, vec![]) };
                    }
                }
                if kind == 14 {
                    lets.push(Let { name: fresh.clone(), value: Expr::Lit(Lit::V(V::s("inner-shadowing"))) });
                }
            }
            let l = lit?;
            let lt = Let { name: fresh, value: Expr::Lit(l.clone()) };
            if at_file {
                g.lets.push(lt);
            } else {
                g.rules[ri].lets.push(lt);
            }
            return Some(Xform {
                kind: if kind == 14 { "when-condition-shadowed-inside" } else { "when-condition" },
                file: g,
                note: format!("literal {} in the condition of a when block -> let at {} level{}", lit_text(&l), if at_file { "file" } else { "rule" }, if kind == 14 { " + a let of the same name inside the block" } else { "" }),
                resolves: true,
                inline: None,
            });
        }
        0 | 1 => {
            // literal on the right-hand side -> variable
            if let Kind::Binary { rhs: Expr::Lit(l), .. } = &c0.kind {
                let lvl = levels_for(u, &s, true);
                let l = l.clone();
                if let Kind::Binary { rhs, .. } = &mut clause_at(&mut g, &s).kind {
                    *rhs = Expr::Query { some: false, q: var_q(&fresh, vec![]) };
                }
                // the inner definition may also be a function call that yields the literal
                // (a function-valued `let` shadows like any other)
                // (not under a negated operator: against a *resolved* value `!=` between different
                // types PASSes - recorded finding F24 - while against a literal it FAILs)
                let negated = c0.prefneg || matches!(c0.kind, Kind::Binary { opneg: true, .. });
                let as_call = match &l {
                    _ if negated => None,
                    Lit::V(V::Int(n)) if kind == 1 && u.chance(1, 2) => Some(Expr::Call(Call { name: "parse_int".into(), args: vec![Expr::Lit(Lit::V(V::s(&n.to_string())))] })),
                    Lit::V(V::Str(t)) if kind == 1 && !t.is_empty() && t.chars().all(|c| c.is_ascii_lowercase() || c.is_ascii_digit()) && u.chance(1, 2) => {
                        Some(Expr::Call(Call { name: "to_lower".into(), args: vec![Expr::Lit(Lit::V(V::s(&t.to_uppercase())))] }))
                    }
                    _ => None,
                };
                let via_call = as_call.is_some();
                // a function result is a computed value, not a literal (it compares like a query
                // result: no list / single-value coercion, F24): the program to compare with is
                // therefore not the one with the literal in place but the same program with the
                // definition under a name that nothing else uses - what is judged is the shadowing
                let mut unshadowed: Option<File> = None;
                if let Some(call) = &as_call {
                    let mut h = g.clone();
                    if let Kind::Binary { rhs, .. } = &mut clause_at(&mut h, &s).kind {
                        *rhs = Expr::Query { some: false, q: var_q("zw", vec![]) };
                    }
                    add_let(&mut h, &s, lvl, Let { name: "zw".into(), value: call.clone() });
                    unshadowed = Some(h);
                }
                add_let(&mut g, &s, lvl, Let { name: fresh, value: as_call.unwrap_or(Expr::Lit(l.clone())) });
                let mut note = format!("rhs literal {} -> let{} at {:?}", lit_text(&l), if via_call { " (through a function call)" } else { "" }, lvl);
                if kind == 1 && lvl != Level::File {
                    // shadowing: an outer definition of the same name with another value
                    g.lets.push(Let { name: "zv".into(), value: Expr::Lit(Lit::V(V::s("outer-shadowed"))) });
                    note.push_str(" + shadowed outer definition");
                }
                // (without an outer definition there is nothing to shadow: compare with the literal form
                // only for literal definitions)
                let inline = if via_call && kind == 1 && lvl != Level::File { unshadowed } else { None };
                if via_call && inline.is_none() {
                    return None;
                }
                return Some(Xform { kind: if via_call { "shadow-function" } else if kind == 1 { "shadow" } else { "rhs-literal" }, file: g, note, resolves: true, inline });
            }
            None
        }
        2 | 3 | 4 => {
            // prefix of the left-hand query -> variable
            if let Head::Key(k) = &c0.q.head {
                let n = c0.q.parts.len();
                let cut = u.range(0, n); // prefix = head + parts[..cut]
                if cut < n && matches!(c0.q.parts[cut], Part::Filter(_) | Part::AllIdx) {
                    // a filter directly after a variable dispatches differently, and `%v[*]` is
                    // documented to be the same as `%v` (the [*] ranges over the variable's
                    // results, it does not descend into a list value): not a textual substitution
                    return None;
                }
                if cut == n {
                    if let Kind::Unary { op: UnOp::Empty, .. } = c0.kind {
                        return None; // documented exception: emptiness of a bare variable
                    }
                }
                let prefix = Query { head: Head::Key(k.clone()), parts: c0.q.parts[..cut].to_vec() };
                let rest = c0.q.parts[cut..].to_vec();
                let lvl = levels_for(u, &s, false);
                let resolves = crate::model::eval_query_root(doc, &prefix).map(|m| m.iter().any(|x| matches!(x, crate::model::M::R(_)))).unwrap_or(false);
                clause_at(&mut g, &s).q = var_q(&fresh, rest);
                // half of the longer prefixes are bound in two steps at the same level:
                // `let zva = head.first`, `let zv = %zva.second` (a variable defined from a variable)
                let cuts: Vec<usize> = (0..cut).filter(|c| !matches!(prefix.parts[*c], Part::Filter(_) | Part::AllIdx)).collect();
                if !cuts.is_empty() && u.chance(1, 2) {
                    let c1 = cuts[u.below(cuts.len())];
                    let first = Query { head: prefix.head.clone(), parts: prefix.parts[..c1].to_vec() };
                    let second = var_q("zva", prefix.parts[c1..].to_vec());
                    add_let(&mut g, &s, lvl, Let { name: "zva".into(), value: Expr::Query { some: false, q: first } });
                    add_let(&mut g, &s, lvl, Let { name: fresh, value: Expr::Query { some: false, q: second } });
                    return Some(Xform { kind: "lhs-prefix-chained", file: g, note: format!("query prefix {} -> two chained lets at {:?}", query_text(&prefix), lvl), resolves: resolves || s.in_block, inline: None });
                }
                add_let(&mut g, &s, lvl, Let { name: fresh, value: Expr::Query { some: false, q: prefix.clone() } });
                return Some(Xform { kind: "lhs-prefix", file: g, note: format!("query prefix {} -> let at {:?}", query_text(&prefix), lvl), resolves: resolves || s.in_block, inline: None });
            }
            None
        }
        5 => {
            // block query -> variable
            let cands: Vec<(usize, usize, usize)> = f
                .rules
                .iter()
                .enumerate()
                .flat_map(|(ri, r)| r.body.iter().enumerate().flat_map(move |(li, l)| l.iter().enumerate().map(move |(ai, it)| (ri, li, ai, it))))
                .filter(|(_, _, _, it)| matches!(it, Item::Block { q: Query { head: Head::Key(_), .. }, .. }))
                .map(|(a, b, c, _)| (a, b, c))
                .collect();
            if cands.is_empty() {
                return None;
            }
            let (ri, li, ai) = cands[u.below(cands.len())];
            let lvl = *u.pick(&[Level::Rule, Level::File]);
            let mut prefix = None;
            if let Item::Block { q, .. } = &mut g.rules[ri].body[li][ai] {
                let cut = u.range(0, q.parts.len());
                if cut < q.parts.len() && matches!(q.parts[cut], Part::Filter(_) | Part::AllIdx) {
                    return None;
                }
                let p = Query { head: q.head.clone(), parts: q.parts[..cut].to_vec() };
                *q = var_q(&fresh, q.parts[cut..].to_vec());
                prefix = Some(p);
            }
            let p = prefix?;
            let l = Let { name: fresh, value: Expr::Query { some: false, q: p.clone() } };
            match lvl {
                Level::File => g.lets.push(l),
                _ => g.rules[ri].lets.push(l),
            }
            Some(Xform { kind: "block-query", file: g, note: format!("block query prefix {} -> let at {:?}", query_text(&p), lvl), resolves: true, inline: None })
        }
        9 | 10 => {
            // a key inside the left-hand query -> string variable, interpolated (`a.%k.rest`)
            // documented shape only: the interpolated key is last or followed by a key / `[*]`
            // (an index after it selects among the variable's values, `.*` and filters are
            // rejected as unsupported)
            let idxs: Vec<usize> = c0
                .q
                .parts
                .iter()
                .enumerate()
                .filter(|(i, p)| matches!(p, Part::Key(_)) && matches!(c0.q.parts.get(i + 1), None | Some(Part::Key(_)) | Some(Part::AllIdx)))
                .map(|(i, _)| i)
                .collect();
            if idxs.is_empty() {
                return None;
            }
            let i = idxs[u.below(idxs.len())];
            let key = match &c0.q.parts[i] {
                Part::Key(k) => k.clone(),
                _ => unreachable!(),
            };
            let lvl = levels_for(u, &s, true);
            // half of the time (where the clause stands alone on its line, is not `some` / `not` /
            // an emptiness test): a *list* of two key names - the clause over `%zv` then ranges over
            // both entries, i.e. it is the conjunction of the clause written once per key; the second
            // key may be missing from the document
            let alone = match s.inner {
                None => g.rules[s.rule].body[s.line].len() == 1,
                Some((bl, _)) => match &g.rules[s.rule].body[s.line][s.alt] {
                    Item::Block { body, .. } | Item::When { body, .. } => body[bl].len() == 1,
                    _ => false,
                },
            };
            let plain = !c0.some && !c0.prefneg && !matches!(c0.kind, Kind::Unary { op: UnOp::Empty, .. });
            if alone && plain && u.chance(1, 2) {
                let key2 = *u.pick(&["a", "b", "k", "items", "nosuchkey", "zz"]);
                if key2 != key {
                    let mut second = c0.clone();
                    second.q.parts[i] = Part::Key(key2.to_string());
                    let mut inline = g.clone();
                    match s.inner {
                        None => inline.rules[s.rule].body.insert(s.line + 1, vec![Item::Clause(second)]),
                        Some((bl, _)) => {
                            if let Item::Block { body, .. } | Item::When { body, .. } = &mut inline.rules[s.rule].body[s.line][s.alt] {
                                body.insert(bl + 1, vec![Item::Clause(second)]);
                            }
                        }
                    }
                    clause_at(&mut g, &s).q.parts[i] = Part::VarKey(fresh.clone());
                    add_let(&mut g, &s, lvl, Let { name: fresh, value: Expr::Lit(Lit::V(V::List(vec![V::s(&key), V::s(key2)]))) });
                    return Some(Xform { kind: "key-list-interpolation", file: g, note: format!("keys .{} and .{} -> let [..] at {:?}, interpolated", key, key2, lvl), resolves: true, inline: Some(inline) });
                }
            }
            clause_at(&mut g, &s).q.parts[i] = Part::VarKey(fresh.clone());
            add_let(&mut g, &s, lvl, Let { name: fresh, value: Expr::Lit(Lit::V(V::Str(key.clone()))) });
            Some(Xform { kind: "key-interpolation", file: g, note: format!("key .{} -> let at {:?}, interpolated", key, lvl), resolves: true, inline: None })
        }
        6 => {
            // an unused variable (query, literal, or a function call that would raise an error)
            let lvl = levels_for(u, &s, true);
            let value = match u.below(3) {
                0 => Expr::Lit(Lit::V(V::Int(42))),
                1 => Expr::Query { some: false, q: q_key(&["no", "such", "path"]) },
                _ => Expr::Call(Call { name: "parse_int".into(), args: vec![Expr::Lit(Lit::V(V::s("not-a-number")))] }),
            };
            let mut t = String::new();
            print_expr(&value, "", &mut t);
            add_let(&mut g, &s, lvl, Let { name: "unusedv".into(), value });
            Some(Xform { kind: "unused-let", file: g, note: format!("unused let {} at {:?}", t, lvl), resolves: true, inline: None })
        }
        _ => {
            // parameterise a clause of a rule body
            if s.inner.is_some() {
                return None;
            }
            if let (Head::Key(_), Kind::Binary { op, opneg, rhs: Expr::Lit(l) }) = (&c0.q.head, &c0.kind) {
                if c0.q.parts.iter().any(|p| matches!(p, Part::Filter(_))) && kind == 7 {
                    // keep filters out of arguments (their context is the caller's anyway)
                }
                if kind >= 11 {
                    // two parameters whose names are also the names of the caller's variables,
                    // crossed over: zg(zpa, zpb) { %zpa op %zpb } called as zg(%zpb, %zpa) with
                    // `let zpa = <literal>` and `let zpb = <query>` in the calling rule
                    if let Kind::Unary { .. } = c0.kind {
                        return None;
                    }
                    let lvl = *u.pick(&[Level::Rule, Level::File]);
                    add_let(&mut g, &s, lvl, Let { name: "zpa".into(), value: Expr::Lit(l.clone()) });
                    add_let(&mut g, &s, lvl, Let { name: "zpb".into(), value: Expr::Query { some: false, q: c0.q.clone() } });
                    let mut bc = c0.clone();
                    bc.q = var_q("zpa", vec![]);
                    bc.kind = Kind::Binary { op: *op, opneg: *opneg, rhs: Expr::Query { some: false, q: var_q("zpb", vec![]) } };
                    g.prules.push(PRule { name: "zg".into(), params: vec!["zpa".into(), "zpb".into()], lets: vec![], body: vec![vec![Item::Clause(bc)]] });
                    let args = vec![Expr::Query { some: false, q: var_q("zpb", vec![]) }, Expr::Query { some: false, q: var_q("zpa", vec![]) }];
                    g.rules[s.rule].body[s.line][s.alt] = Item::PCall { neg: false, name: "zg".into(), args, msg: None };
                    return Some(Xform { kind: "param-crossed-names", file: g, note: format!("clause -> zg(%zpb, %zpa) with zpa = {} and zpb = {} at {:?}", lit_text(l), query_text(&c0.q), lvl), resolves: true, inline: None });
                }
                let pname = "zp".to_string();
                let (body_clause, arg, note) = if kind == 7 {
                    // query becomes the argument
                    let mut bc = c0.clone();
                    bc.q = var_q(&pname, vec![]);
                    if let Kind::Unary { op: UnOp::Empty, .. } = bc.kind {
                        return None;
                    }
                    (bc, Expr::Query { some: false, q: c0.q.clone() }, format!("clause -> zf({})", query_text(&c0.q)))
                } else {
                    // literal becomes the argument
                    let mut bc = c0.clone();
                    bc.kind = Kind::Binary { op: *op, opneg: *opneg, rhs: Expr::Query { some: false, q: var_q(&pname, vec![]) } };
                    (bc, Expr::Lit(l.clone()), format!("clause -> zf({})", lit_text(l)))
                };
                let _ = (op, opneg);
                g.prules.push(PRule { name: "zf".into(), params: vec![pname], lets: vec![], body: vec![vec![Item::Clause(body_clause)]] });
                g.rules[s.rule].body[s.line][s.alt] = Item::PCall { neg: false, name: "zf".into(), args: vec![arg], msg: None };
                return Some(Xform { kind: if kind == 7 { "param-query" } else { "param-literal" }, file: g, note, resolves: true, inline: None });
            }
            None
        }
    }
}

fn status_map(v: &Verdict) -> Option<BTreeMap<String, St>> {
    match v {
        Verdict::Ok { rules, .. } => Some(rules.iter().cloned().collect()),
        _ => None,
    }
}

/// the predicate on texts
fn compare(doc: &str, p: &str, p2: &str) -> Result<Option<BTreeMap<String, St>>, (String, String)> {
    let (va, _) = verdict(doc, p);
    let (vb, _) = verdict(doc, p2);
    for v in [&va, &vb] {
        match v {
            Verdict::Panic(x) => return Err((format!("panic {}", x), format!("panic:{}", x.split(' ').next().unwrap_or("")))),
            Verdict::ParseErr(e) => return Err((format!("generated program rejected by the parser: {}", e), "c15:generator-invalid".into())),
            _ => {}
        }
    }
    match (status_map(&va), status_map(&vb)) {
        (Some(a), Some(b)) => {
            for (n, s) in &a {
                if b.get(n) != Some(s) {
                    return Err((format!("rule {}: {} inline, {:?} abstracted ({} vs {})", n, s.text(), b.get(n).map(|s| s.text()), va.short(), vb.short()), "c15:status-changed".into()));
                }
            }
            Ok(Some(a))
        }
        (None, None) => Ok(None),
        _ => Err((format!("inline: {} ; abstracted: {}", va.short(), vb.short()), "c15:error-vs-verdict".into())),
    }
}

pub fn replay(case: &J) -> CaseResult {
    match compare(case["doc"].as_str().unwrap_or(""), case["inline"].as_str().unwrap_or(""), case["abstracted"].as_str().unwrap_or("")) {
        Ok(_) => CaseResult::Pass(Info::default()),
        Err((msg, sig)) => CaseResult::Fail(Failure { msg, sig: case["sig"].as_str().map(|s| s.to_string()).unwrap_or(sig), case: case.clone() }),
    }
}

fn refine_sig(sig: String, kind: &str, note: &str) -> String {
    if sig == "c15:status-changed" || sig == "c15:error-vs-verdict" {
        format!("{}:{}{}", sig, kind, if note.contains("zf([") || note.contains("zf({") { ":list-or-map-literal" } else { "" })
    } else {
        sig
    }
}

fn random_case(u: &mut Choices, sz: Size) -> CaseResult {
    let doc = gen_doc(u, &sz);
    let file = gen_core_file(u, &doc, sz, true, false);
    let x = match transform(u, &file, &doc) {
        Some(x) => x,
        None => return CaseResult::Discard("no-applicable-site"),
    };
    let mut f2 = x.file.clone();
    // history: vary which reference forces the lazy evaluation first by reordering the rules
    if f2.rules.len() >= 2 && u.chance(1, 2) {
        let n = f2.rules.len();
        for i in (1..n).rev() {
            let j = u.below(i + 1);
            f2.rules.swap(i, j);
        }
    }
    let doc_text = doc.to_json();
    let p = print_file(x.inline.as_ref().unwrap_or(&file));
    let p2 = print_file(&f2);
    match compare(&doc_text, &p, &p2) {
        Ok(m) => {
            let affected_not_skip = m.as_ref().map_or(false, |m| m.values().any(|s| *s != St::Skip));
            CaseResult::Pass(Info {
                nontrivial: x.resolves && affected_not_skip,
                key: hash_case(&[&doc_text, &p, &p2]),
                classes: vec![format!("xform:{}", x.kind), format!("outcome:{}", if m.is_some() { "verdicts" } else { "both-error" })],
                evals: 2,
                sample: Some(json!({"doc": doc_text, "inline": p, "abstracted": p2, "what": x.note})),
            })
        }
        Err((msg, sig)) => {
            let sig = refine_sig(sig, x.kind, &x.note);
            CaseResult::Fail(Failure { msg: format!("{}: {}", x.note, msg), sig: sig.clone(), case: json!({"doc": doc_text, "inline": p, "abstracted": p2, "what": x.note, "sig": sig}) })
        }
    }
}

// ------------------------------------------------------------------------------------------------
// projections through a variable whose result set is mixed (some entries resolve, others do not)

fn mixed_case(u: &mut Choices) -> CaseResult {
    // items: a list of maps, res: a map of maps; each entry may lack `k`, and `k` may lack `a`
    let mut entry = |u: &mut Choices| -> V {
        let mut m = vec![("j".to_string(), V::Int(u.below(3) as i64))];
        if u.chance(2, 3) {
            let mut k = vec![];
            if u.chance(3, 4) {
                k.push(("a".to_string(), [V::Int(1), V::Int(2), V::s("x"), V::Bool(true), V::List(vec![V::Int(1)])][u.below(5)].clone()));
            }
            if u.chance(1, 2) {
                k.push(("b".to_string(), V::Int(1)));
            }
            m.push(("k".to_string(), V::Map(k)));
        }
        V::Map(m)
    };
    let n = u.range(1, 4);
    let items: Vec<V> = (0..n).map(|_| entry(u)).collect();
    let res: Vec<(String, V)> = (0..u.range(1, 3)).map(|i| (format!("r{}", i), entry(u))).collect();
    let doc = V::Map(vec![("items".into(), V::List(items)), ("res".into(), V::Map(res))]).to_json();
    let (prefix, rest) = *u.pick(&[("items[*].k", "a"), ("items[*]", "k.a"), ("res.*.k", "a"), ("res.*", "k.a"), ("items[*].k", "b"), ("res.*", "k")]);
    let tail = *u.pick(&["== 1", "!= 1", "exists", "!exists", "in [1, 2]", "> 1", "is_int", "!empty", "== 'x'", "not in [1, 'x']"]);
    let some = if u.chance(1, 3) { "some " } else { "" };
    let not = if u.chance(1, 5) { "not " } else { "" };
    let inline = format!("rule r {{\n  {}{}{}.{} {}\n}}\n", not, some, prefix, rest, tail);
    let form = u.below(5);
    let abstracted = match form {
        0 => format!("let v = {}\nrule r {{\n  {}{}%v.{} {}\n}}\n", prefix, not, some, rest, tail),
        1 => format!("rule r {{\n  let v = {}\n  {}{}%v.{} {}\n}}\n", prefix, not, some, rest, tail),
        2 => format!("rule f(p) {{\n  {}{}%p.{} {}\n}}\nrule r {{\n  f({})\n}}\n", not, some, rest, tail, prefix),
        3 => format!("let v = {}\nrule other {{\n  %v exists\n}}\nrule r {{\n  {}{}%v.{} {}\n}}\n", prefix, not, some, rest, tail),
        _ => format!("rule r {{\n  when items exists {{\n    let v = {}\n    {}{}%v.{} {}\n  }}\n}}\n", prefix, not, some, rest, tail),
    };
    let case = json!({"doc": doc, "inline": inline, "abstracted": abstracted, "sig": "c15:status-changed:mixed-projection"});
    match compare(&doc, &inline, &abstracted) {
        Ok(m) => {
            let st = m.as_ref().and_then(|m| m.get("r").copied());
            CaseResult::Pass(Info {
                nontrivial: st.map_or(false, |s| s != St::Skip),
                key: hash_case(&[&doc, &inline, &abstracted]),
                classes: vec![format!("mixed:form:{}", form), format!("mixed:r:{}", st.map_or("ERROR", |s| s.text()))],
                evals: 2,
                sample: Some(case),
            })
        }
        Err((msg, sig)) => CaseResult::Fail(Failure { msg: format!("projection through a variable with mixed entries: {}", msg), sig: if sig.starts_with("panic") || sig.contains("generator") { sig } else { "c15:status-changed:mixed-projection".into() }, case }),
    }
}

// ------------------------------------------------------------------------------------------------
// block-level variables in a block that runs on several values: each value sees its own bindings,
// also through variables defined from other variables of the block

fn block_chain_case(u: &mut Choices) -> CaseResult {
    let n = u.range(2, 4);
    let entry = |u: &mut Choices, i: usize| -> V {
        let port = (i as i64 + 1) * 10;
        let mut p = vec![("port".to_string(), V::Int(port))];
        match u.below(4) {
            0 => {}
            1 => p.push(("allowed".to_string(), V::Int(port + 1))),
            _ => p.push(("allowed".to_string(), V::Int(port))),
        }
        V::Map(vec![("p".to_string(), V::Map(p)), ("tag".to_string(), V::s(&format!("t{}", i)))])
    };
    let items: Vec<V> = (0..n).map(|i| entry(u, i)).collect();
    let res: Vec<(String, V)> = (0..n).map(|i| (format!("r{}", i), entry(u, i))).collect();
    let doc = V::Map(vec![("items".into(), V::List(items)), ("res".into(), V::Map(res))]).to_json();
    let sel = *u.pick(&["items[*]", "res.*", "some items[*]", "some res.*"]);
    let op = *u.pick(&["==", "<=", "!=", ">"]);
    let inline = format!("rule r {{\n  {} {{\n    p.port {} p.allowed\n  }}\n}}\n", sel, op);
    let form = u.below(6);
    let body = match form {
        // right-hand side through one / two / three block-level variables
        0 => format!("    let q0 = p.allowed\n    p.port {} %q0\n", op),
        1 => format!("    let q0 = p\n    let q1 = %q0.allowed\n    p.port {} %q1\n", op),
        2 => format!("    let q0 = p\n    let q1 = %q0\n    let q2 = %q1.allowed\n    p.port {} %q2\n", op),
        // left-hand side through a chain
        3 => format!("    let l0 = p\n    let l1 = %l0.port\n    %l1 {} p.allowed\n", op),
        // both sides, defined in the other order (definitions are not ordered)
        4 => format!("    let r1 = %r0.allowed\n    let l1 = %r0.port\n    let r0 = p\n    %l1 {} %r1\n", op),
        // a chain that starts from `this`
        _ => format!("    let t0 = this\n    let t1 = %t0.p\n    let t2 = %t1.allowed\n    p.port {} %t2\n", op),
    };
    let abstracted = format!("rule r {{\n  {} {{\n{}  }}\n}}\n", sel, body);
    let case = json!({"doc": doc, "inline": inline, "abstracted": abstracted, "sig": "c15:status-changed:block-chain"});
    match compare(&doc, &inline, &abstracted) {
        Ok(m) => {
            let st = m.as_ref().and_then(|m| m.get("r").copied());
            CaseResult::Pass(Info {
                nontrivial: st.is_some(),
                key: hash_case(&[&doc, &inline, &abstracted]),
                classes: vec![format!("block-chain:form:{}", form), format!("block-chain:r:{}", st.map_or("ERROR", |s| s.text()))],
                evals: 2,
                sample: Some(case),
            })
        }
        Err((msg, sig)) => CaseResult::Fail(Failure { msg: format!("block-level variables defined from one another, block over {} values: {}", n, msg), sig: if sig.starts_with("panic") || sig.contains("generator") { sig } else { "c15:status-changed:block-chain".into() }, case }),
    }
}

pub fn run(tier: Tier, seed: u64) -> i32 {
    let spec = EvidenceSpec {
        rule: "Random core programs x documents; one abstraction per case: a right-hand literal -> `let` (file, rule, block or when scope; optionally shadowing an outer definition of the same name), a prefix of a left-hand query -> `let` + `%v.rest` (at the scope whose context is the clause's context), a block query -> `let`, an unused `let` (literal, unresolved query, or a function call that would raise an error), a rule-body clause -> parameterised rule called with the query or with the literal as argument, or a two-parameter rule whose parameter names are also the caller's variable names, passed crossed over (`zg(%zpb, %zpa)`); the rules of the abstracted program are additionally shuffled in half of the cases (which reference forces the lazy evaluation first). Both programs are evaluated by the tool: every rule of the original must keep its status (or both raise an evaluation error). Stage 'mixed-projections': documents in which a projection (`items[*].k`, `res.*.k`) resolves for some entries and not for others; the clause `prefix.rest <test>` (10 tests, optional `some` / `not`) is compared with `%v.rest <test>` for v bound at file, rule or when-block level, used by another rule first, or passed to a parameterised rule. Exempt: emptiness tests on a bare variable, filters directly after a variable. Non-trivial: the abstracted expression resolves to a value and some rule is not SKIP; distinct by hash of the three texts.".into(),
        assumptions: vec!["`%v.rest` continues from every value of v (the implicit [*] is a no-op on the result set), as documented in QUERY_PROJECTION_AND_INTERPOLATION.md".into()],
    };
    execute("C15", tier, seed, spec, &replay, &|run: &Session| {
        let sz = tier.pick(Size::quick(), Size::thorough());
        run.run_random("block-chains", tier.pick(6_000, 100_000), 60, block_chain_case);
        run.run_random("mixed-projections", tier.pick(20_000, 400_000), 200, mixed_case);
        run.run_random("abstractions", tier.pick(60_000, 1_200_000), tier.pick(1200, 2400), |u| random_case(u, sz));
    })
}
