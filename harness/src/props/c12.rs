//! C12 — evaluations are isolated: each (rules file, data file) pair stands alone.
use crate::ast::*;
use crate::choices::Choices;
use crate::drive::*;
use crate::engine::*;
use crate::gen::*;
use crate::props::c07::strip_ansi;
use crate::val::V;
use serde_json::{json, Value as J};
use std::collections::BTreeMap;

/// report normalised for comparison: (sorted compliant, sorted not_applicable, sorted not_compliant
/// entries, status)
fn norm_report(r: &J) -> (Vec<String>, Vec<String>, Vec<String>, String) {
    let set = |k: &str| -> Vec<String> {
        let mut v: Vec<String> = r[k].as_array().cloned().unwrap_or_default().iter().map(|x| x.as_str().unwrap_or("").to_string()).collect();
        v.sort();
        v.dedup();
        v
    };
    let mut nc: Vec<String> = r["not_compliant"].as_array().cloned().unwrap_or_default().iter().map(|e| e.to_string()).collect();
    nc.sort();
    (set("compliant"), set("not_applicable"), nc, r["status"].as_str().unwrap_or("").to_string())
}

fn union(singles: &[&J]) -> (Vec<String>, Vec<String>, Vec<String>, String) {
    let (mut c, mut a, mut n) = (vec![], vec![], vec![]);
    for s in singles {
        let (sc, sa, sn, _) = norm_report(s);
        c.extend(sc);
        a.extend(sa);
        n.extend(sn);
    }
    c.sort();
    c.dedup();
    a.sort();
    a.dedup();
    n.sort();
    let st = if !n.is_empty() {
        "FAIL"
    } else if !c.is_empty() {
        "PASS"
    } else {
        "SKIP"
    };
    (c, a, n, st.to_string())
}

fn lines_multiset(s: &str) -> BTreeMap<String, usize> {
    let mut m = BTreeMap::new();
    for l in strip_ansi(s).lines() {
        *m.entry(l.to_string()).or_default() += 1;
    }
    m
}

struct Batch {
    rules: Vec<String>,
    docs: Vec<String>,
    rule_order: Vec<usize>,
    doc_order: Vec<usize>,
    /// every rules file is <dir-i>/policy.guard and every data file <dir-j>/template.json
    same_names: bool,
}

fn check(b: &Batch, evals: &mut u64) -> Result<Option<usize>, (String, String)> {
    let dir = fresh_dir("c12");
    let mut rpaths = vec![];
    for (i, r) in b.rules.iter().enumerate() {
        let p = if b.same_names { dir.join(format!("rules/t{}/policy.guard", i)) } else { dir.join(format!("rules/r{}.guard", i)) };
        write_file(&p, r);
        rpaths.push(p.to_string_lossy().to_string());
    }
    let mut dpaths = vec![];
    for (i, d) in b.docs.iter().enumerate() {
        let p = if b.same_names { dir.join(format!("data/e{}/template.json", i)) } else { dir.join(format!("data/d{}.json", i)) };
        write_file(&p, d);
        dpaths.push(p.to_string_lossy().to_string());
        // distinct, increasing modification times for -m
        let t = std::time::SystemTime::UNIX_EPOCH + std::time::Duration::from_secs(1_600_000_000 + (i as u64) * 100);
        let _ = std::fs::File::options().write(true).open(&p).and_then(|f| f.set_modified(t));
    }
    for (i, p) in rpaths.iter().enumerate() {
        let t = std::time::SystemTime::UNIX_EPOCH + std::time::Duration::from_secs(1_600_000_000 + ((b.rules.len() - i) as u64) * 100);
        let _ = std::fs::File::options().write(true).open(p).and_then(|f| f.set_modified(t));
    }
    let st = VOpts::structured(Fmt::Json);
    let pl = VOpts::plain(Fmt::Single, vec![Show::All]);
    // singletons
    let mut single: BTreeMap<(usize, usize), J> = BTreeMap::new();
    let mut single_console: BTreeMap<(usize, usize), String> = BTreeMap::new();
    let mut any_fail = false;
    for (i, r) in rpaths.iter().enumerate() {
        for (j, d) in dpaths.iter().enumerate() {
            *evals += 2;
            let x = validate_files(&[r.clone()], &[d.clone()], &[], &st, "");
            if let Some(p) = &x.panic {
                return Err((format!("singleton: panic {}", p), format!("panic:{}", p.split(' ').next().unwrap_or(""))));
            }
            match x.code {
                Ok(0) => {}
                Ok(19) => any_fail = true,
                Ok(5) => return Err((format!("generated rules rejected: {}", x.err), "c12:generator-invalid".into())),
                _ => return Ok(None),
            }
            let j_: J = serde_json::from_str(&x.out).map_err(|e| (format!("singleton report is not JSON: {}", e), "c12:json".to_string()))?;
            single.insert((i, j), j_[0].clone());
            let y = validate_files(&[r.clone()], &[d.clone()], &[], &pl, "");
            single_console.insert((i, j), y.out);
        }
    }
    let want_code = if any_fail { 19 } else { 0 };
    let compare = |what: &str, out: &str, code: &Result<i32, String>, name_of: &dyn Fn(usize) -> String| -> Result<(), (String, String)> {
        if *code != Ok(want_code) {
            return Err((format!("{}: exit {:?}, the singletons give {}", what, code, want_code), "c12:exit-code".into()));
        }
        let j: J = serde_json::from_str(out).map_err(|e| (format!("{}: report is not JSON: {}", what, e), "c12:json".to_string()))?;
        let arr = j.as_array().cloned().unwrap_or_default();
        if arr.len() != b.docs.len() {
            return Err((format!("{}: {} reports for {} data files", what, arr.len(), b.docs.len()), "c12:report-count".into()));
        }
        for (dj, _) in b.docs.iter().enumerate() {
            let name = name_of(dj);
            let rep = arr.iter().find(|r| r["name"].as_str() == Some(name.as_str())).ok_or((format!("{}: no report named {}", what, name), "c12:report-missing".to_string()))?;
            let singles: Vec<&J> = (0..b.rules.len()).map(|i| &single[&(i, dj)]).collect();
            let want = union(&singles);
            let got = norm_report(rep);
            if got != want {
                return Err((
                    format!("{}: the report for data file #{} is not the union of the reports of validating each rules file alone against it: batch {:?} vs singletons {:?}", what, dj, (&got.0, &got.1, got.2.len(), &got.3), (&want.0, &want.1, want.2.len(), &want.3)),
                    "c12:batch-differs".into(),
                ));
            }
        }
        Ok(())
    };
    let ordered_r: Vec<String> = b.rule_order.iter().map(|i| rpaths[*i].clone()).collect();
    let ordered_d: Vec<String> = b.doc_order.iter().map(|i| dpaths[*i].clone()).collect();
    let by_path = |j: usize| dpaths[j].clone();
    let mut runs = 0;
    // explicit lists, in file order and in the permuted order
    for (what, rs, ds) in [("files", &rpaths, &dpaths), ("files (permuted)", &ordered_r, &ordered_d)] {
        *evals += 1;
        let x = validate_files(rs, ds, &[], &st, "");
        if let Some(p) = &x.panic {
            return Err((format!("{}: panic {}", what, p), format!("panic:{}", p.split(' ').next().unwrap_or(""))));
        }
        compare(what, &x.out, &x.code, &by_path)?;
        runs += 1;
        // console: the batch output is the multiset union of the singleton outputs
        *evals += 1;
        let y = validate_files(rs, ds, &[], &pl, "");
        let mut want: BTreeMap<String, usize> = BTreeMap::new();
        for v in single_console.values() {
            for (l, n) in lines_multiset(v) {
                *want.entry(l).or_default() += n;
            }
        }
        if lines_multiset(&y.out) != want {
            return Err((format!("{} (console -S all): the batch output is not the union of the singleton outputs (as line multisets)", what), "c12:console-differs".into()));
        }
        if y.code != Ok(want_code) {
            return Err((format!("{} (console): exit {:?}, the singletons give {}", what, y.code, want_code), "c12:exit-code".into()));
        }
        runs += 1;
    }
    // directories, walked alphabetically and by modification time
    let rdir = dir.join("rules").to_string_lossy().to_string();
    let ddir = dir.join("data").to_string_lossy().to_string();
    for (what, a, m) in [("directories -a", true, false), ("directories -m", false, true), ("directories", false, false)] {
        let mut o = VOpts::structured(Fmt::Json);
        o.alphabetical = a;
        o.last_modified = m;
        *evals += 1;
        let x = validate_files(&[rdir.clone()], &[ddir.clone()], &[], &o, "");
        if let Some(p) = &x.panic {
            return Err((format!("{}: panic {}", what, p), format!("panic:{}", p.split(' ').next().unwrap_or(""))));
        }
        compare(what, &x.out, &x.code, &by_path)?;
        runs += 1;
    }
    // payload lists
    *evals += 1;
    let rs: Vec<String> = b.rule_order.iter().map(|i| b.rules[*i].clone()).collect();
    let x = validate_payload(&rs, &b.docs, &[], &st);
    if let Some(p) = &x.panic {
        return Err((format!("payload: panic {}", p), format!("panic:{}", p.split(' ').next().unwrap_or(""))));
    }
    // names differ (DATA_STDIN[j]); rewrite them to the paths so that reports compare
    let mut out = x.out.clone();
    for j in 0..b.docs.len() {
        out = out.replace(&format!("\"name\": \"DATA_STDIN[{}]\"", j + 1), &format!("\"name\": {}", serde_json::to_string(&dpaths[j]).unwrap()));
    }
    // ... and the rules file names in clause contexts
    for (k, ri) in b.rule_order.iter().enumerate() {
        out = out.replace(&format!("RULES_STDIN[{}]", k + 1), &if b.same_names { "policy.guard".to_string() } else { format!("r{}.guard", ri) });
    }
    compare("payload", &out, &x.code, &by_path)?;
    runs += 1;
    // JUnit: the <testsuite> of a data file in a batch is the one that validating this file alone gives
    // (elapsed times masked), and the totals of <testsuites> are the sums over the suites
    let ju = VOpts::structured(Fmt::Junit);
    *evals += 1;
    let x = validate_files(&ordered_r, &ordered_d, &[], &ju, "");
    if let Some(p) = &x.panic {
        return Err((format!("junit: panic {}", p), format!("panic:{}", p.split(' ').next().unwrap_or(""))));
    }
    if x.code != Ok(want_code) {
        return Err((format!("junit: exit {:?}, the singletons give {}", x.code, want_code), "c12:exit-code".into()));
    }
    let batch = junit_suites(&x.out);
    if batch.len() != ordered_d.len() {
        return Err((format!("junit: {} <testsuite> elements for {} data files", batch.len(), ordered_d.len()), "c12:report-count".into()));
    }
    let (mut fsum, mut esum) = (0usize, 0usize);
    for d in &ordered_d {
        *evals += 1;
        let y = validate_files(&ordered_r, &[d.clone()], &[], &ju, "");
        let alone = junit_suites(&y.out);
        let name = format!("<testsuite name=\"{}\"", xml_attr(d));
        let got = batch.iter().find(|s| s.starts_with(&name));
        let want = alone.iter().find(|s| s.starts_with(&name));
        match (got, want) {
            (Some(g), Some(w)) if g == w => {
                fsum += attr_num(g, "failures").unwrap_or(0);
                esum += attr_num(g, "errors").unwrap_or(0);
            }
            (Some(g), Some(w)) => {
                return Err((
                    format!("junit: the <testsuite> of {} in the batch differs from the one of validating it alone: batch {:?} vs alone {:?}", d, g.chars().take(400).collect::<String>(), w.chars().take(400).collect::<String>()),
                    "c12:junit-suite-differs".into(),
                ))
            }
            _ => return Err((format!("junit: no <testsuite> named {}", d), "c12:report-missing".into())),
        }
    }
    let head = x.out.find("<testsuites").map(|i| &x.out[i..]).and_then(|t| t.find('>').map(|e| &t[..e])).unwrap_or("");
    if attr_num(head, "failures") != Some(fsum) || attr_num(head, "errors") != Some(esum) {
        return Err((format!("junit: totals {:?} are not the sums over the suites (failures {}, errors {})", head, fsum, esum), "c12:junit-totals".into()));
    }
    runs += 1;
    Ok(Some(runs))
}

fn xml_attr(s: &str) -> String {
    s.replace('&', "&amp;").replace('<', "&lt;").replace('>', "&gt;").replace('"', "&quot;")
}

fn attr_num(el: &str, name: &str) -> Option<usize> {
    let head = &el[..el.find('>').unwrap_or(el.len())];
    let k = format!(" {}=\"", name);
    let i = head.find(&k)? + k.len();
    head[i..].split('"').next()?.parse().ok()
}

/// the `<testsuite ..>..</testsuite>` elements of a JUnit report as text, `time` attributes masked
fn junit_suites(xml: &str) -> Vec<String> {
    let mut out = vec![];
    let mut rest = xml;
    while let Some(i) = rest.find("<testsuite ") {
        let t = &rest[i..];
        let end = match (t.find("</testsuite>"), t.find("/>")) {
            (Some(e), _) => e + "</testsuite>".len(),
            (None, Some(e)) => e + 2,
            _ => t.len(),
        };
        let mut el = String::new();
        let mut r = &t[..end];
        while let Some(k) = r.find(" time=\"") {
            el.push_str(&r[..k]);
            let after = &r[k + 7..];
            r = &after[after.find('"').map(|q| q + 1).unwrap_or(after.len())..];
        }
        el.push_str(r);
        out.push(el);
        rest = &t[end..];
    }
    out
}

fn batch_json(b: &Batch) -> J {
    json!({"rules": b.rules, "docs": b.docs, "rule_order": b.rule_order, "doc_order": b.doc_order, "same_names": b.same_names})
}

pub fn replay(case: &J) -> CaseResult {
    if case["kind"] == "test" {
        return replay_test(case);
    }
    let strs = |k: &str| -> Vec<String> { case[k].as_array().map(|a| a.iter().map(|x| x.as_str().unwrap_or("").to_string()).collect()).unwrap_or_default() };
    let idx = |k: &str| -> Vec<usize> { case[k].as_array().map(|a| a.iter().map(|x| x.as_u64().unwrap_or(0) as usize).collect()).unwrap_or_default() };
    let b = Batch { rules: strs("rules"), docs: strs("docs"), rule_order: idx("rule_order"), doc_order: idx("doc_order"), same_names: case["same_names"].as_bool().unwrap_or(false) };
    let mut ev = 0;
    match check(&b, &mut ev) {
        Ok(_) => CaseResult::Pass(Info::default()),
        Err((msg, sig)) => CaseResult::Fail(Failure { msg, sig, case: case.clone() }),
    }
}

fn shuffle(u: &mut Choices, n: usize) -> Vec<usize> {
    let mut v: Vec<usize> = (0..n).collect();
    for i in (1..n).rev() {
        let j = u.below(i + 1);
        v.swap(i, j);
    }
    v
}

fn random_case(u: &mut Choices, sz: Size) -> CaseResult {
    let nd = u.range(1, 4);
    let nr = u.range(1, 3);
    let mut sz = sz;
    sz.alt_case = u.chance(1, 2);
    let docs: Vec<V> = (0..nd)
        .map(|_| {
            let mut d = gen_cfn_doc(u, &sz);
            if sz.alt_case {
                add_case_families(u, &mut d);
            }
            d
        })
        .collect();
    // every rules file is generated with the same naming scheme: file-level variables fv1.., rules
    // r0.., parameterised rules pr0.. are shared names with different definitions
    let mut rules = vec![];
    for i in 0..nr {
        let mut f = gen_wide_file(u, &docs[i % nd], sz, false);
        if u.chance(1, 4) {
            add_capture_idiom(u, &mut f, &docs[i % nd]);
        }
        rules.push(print_file(&f));
    }
    let b = Batch { rules, docs: docs.iter().map(|d| d.to_json()).collect(), rule_order: shuffle(u, nr), doc_order: shuffle(u, nd), same_names: u.chance(1, 3) };
    let mut evals = 0;
    match check(&b, &mut evals) {
        Ok(None) => CaseResult::Discard("evaluation-error"),
        Ok(Some(runs)) => CaseResult::Pass(Info {
            nontrivial: nr >= 2 && nd >= 2,
            key: hash_case(&[&b.rules.join("\u{1}"), &b.docs.join("\u{1}")]),
            classes: vec![format!("rules-files:{}", nr), format!("data-files:{}", nd), format!("batch-runs:{}", runs), format!("same-base-names:{}", b.same_names)],
            evals,
            sample: Some(batch_json(&b)),
        }),
        Err((msg, sig)) => CaseResult::Fail(Failure { msg, sig, case: batch_json(&b) }),
    }
}

// ------------------------------------------------------------------------------------------------
// test cases inside one `cfn-guard test` file

/// the order of rules inside a test case's lists is not part of this property (C05 judges it)
fn sort_case(tc: &J) -> J {
    let mut t = tc.clone();
    for k in ["passed_rules", "failed_rules", "skipped_rules"] {
        if let Some(a) = t[k].as_array_mut() {
            a.sort_by_key(|e| e["name"].as_str().unwrap_or("").to_string());
        }
    }
    t
}

fn check_test(rules: &str, specs: &[String], evals: &mut u64) -> Result<Option<usize>, (String, String)> {
    let dir = fresh_dir("c12t");
    let rp = dir.join("x.guard");
    write_file(&rp, rules);
    let o = TOpts { fmt: Fmt::Json, verbose: false, alphabetical: false, last_modified: false };
    let mut alone = vec![];
    let mut any_unmet = false;
    for (i, s) in specs.iter().enumerate() {
        let tp = dir.join(format!("one/x_{}.json", i));
        write_file(&tp, &format!("[{}]", s));
        *evals += 1;
        let r = test_files(&rp.to_string_lossy(), &tp.to_string_lossy(), &o);
        if let Some(p) = &r.panic {
            return Err((format!("test: panic {}", p), format!("panic:{}", p.split(' ').next().unwrap_or(""))));
        }
        if !matches!(r.code, Ok(0) | Ok(7)) {
            return Ok(None);
        }
        let j: J = serde_json::from_str(&r.out).map_err(|e| (format!("test -o json: not JSON: {}", e), "c12:test-json".to_string()))?;
        alone.push(sort_case(&j["test_cases"][0]));
        any_unmet |= r.code == Ok(7);
        // modification times run against the file names
        let t = std::time::SystemTime::UNIX_EPOCH + std::time::Duration::from_secs(1_600_000_000 + ((specs.len() - i) as u64) * 100);
        let _ = std::fs::File::options().write(true).open(&tp).and_then(|f| f.set_modified(t));
    }
    // the one-case files as a directory of test files, walked by name and by time, in every format:
    // the run fails iff some file does alone
    let one = dir.join("one").to_string_lossy().to_string();
    for fmt in [Fmt::Single, Fmt::Json, Fmt::Yaml, Fmt::Junit] {
        for (a, m) in [(true, false), (false, true), (false, false)] {
            *evals += 1;
            let r = test_files(&rp.to_string_lossy(), &one, &TOpts { fmt, verbose: false, alphabetical: a, last_modified: m });
            if let Some(p) = &r.panic {
                return Err((format!("test -t <dir>: panic {}", p), format!("panic:{}", p.split(' ').next().unwrap_or(""))));
            }
            let want = if any_unmet { 7 } else { 0 };
            if r.code != Ok(want) {
                return Err((
                    format!("test -t <directory of {} one-case files> ({:?}{}{}) exits {:?}, but run alone the files exit 7: {}", specs.len(), fmt, if a { " -a" } else { "" }, if m { " -m" } else { "" }, r.code, any_unmet),
                    "c12:test-files-exit-code".into(),
                ));
            }
        }
    }
    let tp = dir.join("all/x_all.json");
    write_file(&tp, &format!("[{}]", specs.join(",")));
    *evals += 1;
    let r = test_files(&rp.to_string_lossy(), &tp.to_string_lossy(), &o);
    let j: J = serde_json::from_str(&r.out).map_err(|e| (format!("test -o json: not JSON: {}", e), "c12:test-json".to_string()))?;
    let together: Vec<J> = j["test_cases"].as_array().cloned().unwrap_or_default().iter().map(sort_case).collect();
    if together != alone {
        let i = together.iter().zip(&alone).position(|(a, b)| a != b).unwrap_or(0);
        return Err((format!("test case #{} gives {} inside the common spec file but {} when run alone", i, together.get(i).cloned().unwrap_or(J::Null), alone.get(i).cloned().unwrap_or(J::Null)), "c12:test-case-differs".into()));
    }
    Ok(Some(specs.len()))
}

fn replay_test(case: &J) -> CaseResult {
    let specs: Vec<String> = case["specs"].as_array().map(|a| a.iter().map(|x| x.as_str().unwrap_or("").to_string()).collect()).unwrap_or_default();
    let mut ev = 0;
    match check_test(case["rules"].as_str().unwrap_or(""), &specs, &mut ev) {
        Ok(_) => CaseResult::Pass(Info::default()),
        Err((msg, sig)) => CaseResult::Fail(Failure { msg, sig, case: case.clone() }),
    }
}

fn random_test(u: &mut Choices, sz: Size) -> CaseResult {
    let doc = gen_cfn_doc(u, &sz);
    let f = gen_wide_file(u, &doc, sz, false);
    let rules = print_file(&f);
    let n = u.range(2, 4);
    let mut specs = vec![];
    for i in 0..n {
        let d = if i == 0 { doc.clone() } else { gen_cfn_doc(u, &sz) };
        // half of the cases state what the rules really evaluate to (a file whose expectations are
        // all met), the others state a random status per rule
        let truth = if u.chance(1, 2) {
            match verdict(&d.to_json(), &rules).0 {
                Verdict::Ok { rules, .. } => Some(rules),
                _ => None,
            }
        } else {
            None
        };
        let exps: Vec<String> = f
            .rules
            .iter()
            .map(|r| {
                let random = ["PASS", "FAIL", "SKIP"][u.below(3)];
                let st = truth.as_ref().and_then(|t| t.iter().find(|(n, _)| n.rsplit('/').next() == Some(r.name.as_str())).map(|(_, s)| s.text())).unwrap_or(random);
                format!("\"{}\": \"{}\"", r.name, st)
            })
            .collect();
        specs.push(format!("{{\"name\": \"c{}\", \"input\": {}, \"expectations\": {{\"rules\": {{{}}}}}}}", i, d.to_json(), exps.join(", ")));
    }
    let mut evals = 0;
    match check_test(&rules, &specs, &mut evals) {
        Ok(None) => CaseResult::Discard("evaluation-error"),
        Ok(Some(n)) => CaseResult::Pass(Info { nontrivial: n >= 2, key: hash_case(&[&rules, &specs.join("\u{1}")]), classes: vec![format!("test-cases:{}", n)], evals, sample: Some(json!({"kind": "test", "rules": rules, "specs": specs})) }),
        Err((msg, sig)) => CaseResult::Fail(Failure { msg, sig, case: json!({"kind": "test", "rules": rules, "specs": specs}) }),
    }
}

pub fn run(tier: Tier, seed: u64) -> i32 {
    let spec = EvidenceSpec {
        rule: "Stage 'batches': 1-3 wide rules files that share file-level variable names, rule names and parameterised-rule names with different definitions x 1-4 CloudFormation-shaped documents. Every (rules file, data file) pair is validated alone (structured JSON and console). The batch is then run as explicit file lists (file order and a generated permutation), with distinct base names in one directory or the same base name in a directory each, as directories (-a, -m with distinct modification times set by the harness, and default order) and as --payload lists: for every data file the batch report must equal the union of the singleton reports (compliant / not_applicable as sets, not_compliant entries as a multiset, status by the partition), the console output must be the multiset union of the singleton outputs, and the exit code is 19 iff some singleton is FAIL. Stage 'test-cases': 2-4 test cases in one spec file vs one spec file per case (`test -o json`). Non-trivial: >=2 rules files and >=2 documents (test: >=2 cases); distinct by hash of all texts.".into(),
        assumptions: vec!["batches containing a pair that raises an evaluation error are discarded".into()],
    };
    execute("C12", tier, seed, spec, &replay, &|run: &Session| {
        let sz = tier.pick(Size::quick(), Size::thorough());
        run.shrink_iters.store(150, std::sync::atomic::Ordering::Relaxed);
        run.run_random("batches", tier.pick(3_000, 60_000), 4000, |u| random_case(u, sz));
        run.run_random("test-cases", tier.pick(3_000, 60_000), 2500, |u| random_test(u, sz));
    })
}
