//! C14 — alternative spellings, layout and comments do not change a rule file's meaning.
use crate::ast::*;
use crate::choices::{splitmix, Choices};
use crate::drive::*;
use crate::engine::*;
use crate::gen::*;
use crate::val::V;
use crate::vprint::*;
use serde_json::{json, Value as J};

/// parse tree with `location` objects removed and a leading `This` query part dropped
pub fn normalise(j: &J) -> J {
    match j {
        J::Object(o) => {
            let mut out = serde_json::Map::new();
            for (k, v) in o {
                if k == "location" {
                    continue;
                }
                if k == "query" {
                    if let J::Array(a) = v {
                        let mut parts: Vec<J> = a.iter().map(normalise).collect();
                        if parts.len() > 1 && parts[0] == J::String("This".into()) {
                            parts.remove(0);
                        }
                        out.insert(k.clone(), J::Array(parts));
                        continue;
                    }
                }
                out.insert(k.clone(), normalise(v));
            }
            J::Object(out)
        }
        J::Array(a) => J::Array(a.iter().map(normalise).collect()),
        x => x.clone(),
    }
}

fn tree(text: &str) -> Result<J, String> {
    let r = parse_tree(text, true);
    if let Some(p) = &r.panic {
        return Err(format!("panic {}", p));
    }
    match &r.code {
        Ok(0) => serde_json::from_str::<J>(&r.out).map(|j| normalise(&j)).map_err(|e| format!("parse-tree output is not JSON: {}", e)),
        other => Err(format!("rejected: {:?}", other)),
    }
}

fn first_diff(a: &J, b: &J, path: String) -> Option<String> {
    match (a, b) {
        (J::Object(x), J::Object(y)) => {
            for (k, v) in x {
                match y.get(k) {
                    None => return Some(format!("{}/{} missing", path, k)),
                    Some(w) => {
                        if let Some(d) = first_diff(v, w, format!("{}/{}", path, k)) {
                            return Some(d);
                        }
                    }
                }
            }
            if x.len() != y.len() {
                return Some(format!("{}: key sets differ", path));
            }
            None
        }
        (J::Array(x), J::Array(y)) => {
            if x.len() != y.len() {
                return Some(format!("{}: {} vs {} elements", path, x.len(), y.len()));
            }
            for (i, (v, w)) in x.iter().zip(y).enumerate() {
                if let Some(d) = first_diff(v, w, format!("{}/{}", path, i)) {
                    return Some(d);
                }
            }
            None
        }
        _ => {
            if a == b {
                None
            } else {
                Some(format!("{}: {} vs {}", path, a, b))
            }
        }
    }
}

/// the predicate on texts: same program (parse trees) and same verdicts on the documents
fn same_meaning(canon: &str, variant: &str, docs: &[String], tree_too: bool, evals: &mut u64) -> Result<(), (String, String)> {
    if tree_too {
        *evals += 2;
        let a = tree(canon).map_err(|e| (format!("canonical text {}", e), if e.starts_with("panic") { "panic:parse-tree".to_string() } else { "c14:generator-invalid".to_string() }))?;
        let b = tree(variant).map_err(|e| (format!("the variant spelling is {}", e), if e.starts_with("panic") { "panic:parse-tree".to_string() } else { "c14:variant-rejected".to_string() }))?;
        if a != b {
            return Err((format!("parse trees differ at {}", first_diff(&a, &b, String::new()).unwrap_or_default()), "c14:tree-differs".into()));
        }
    }
    for d in docs {
        *evals += 2;
        let (va, _) = verdict(d, canon);
        let (vb, _) = verdict(d, variant);
        let same = match (&va, &vb) {
            (Verdict::Ok { rules: ra, file: fa }, Verdict::Ok { rules: rb, file: fb }) => {
                let strip = |n: &String| n.rsplit('/').next().unwrap_or(n).to_string();
                fa == fb && ra.iter().map(|(n, s)| (strip(n), *s)).collect::<Vec<_>>() == rb.iter().map(|(n, s)| (strip(n), *s)).collect::<Vec<_>>()
            }
            (Verdict::EvalErr(_), Verdict::EvalErr(_)) => true,
            _ => false,
        };
        if !same {
            let sig = match (&va, &vb) {
                (Verdict::Panic(p), _) | (_, Verdict::Panic(p)) => format!("panic:{}", p.split(' ').next().unwrap_or("")),
                (_, Verdict::ParseErr(_)) => "c14:variant-rejected".to_string(),
                (Verdict::ParseErr(_), _) => "c14:generator-invalid".to_string(),
                _ => "c14:verdict-differs".to_string(),
            };
            return Err((format!("verdicts differ: canonical {} ; variant {}", va.short(), vb.short()), sig));
        }
    }
    Ok(())
}

pub fn replay(case: &J) -> CaseResult {
    let docs: Vec<String> = case["docs"].as_array().map(|a| a.iter().map(|d| d.as_str().unwrap_or("").to_string()).collect()).unwrap_or_default();
    let mut ev = 0;
    match same_meaning(case["canonical"].as_str().unwrap_or(""), case["variant"].as_str().unwrap_or(""), &docs, case["tree"].as_bool().unwrap_or(true), &mut ev) {
        Ok(()) => CaseResult::Pass(Info::default()),
        Err((msg, sig)) => CaseResult::Fail(Failure { msg, sig, case: case.clone() }),
    }
}

fn gen_program(u: &mut Choices, sz: Size) -> (V, V, File) {
    let doc = gen_cfn_doc(u, &sz);
    let doc2 = gen_cfn_doc(u, &sz);
    let msgs = u.chance(1, 2);
    let mut file = gen_wide_file(u, &doc, sz, msgs);
    // a third of the programs capture map keys (`[ name | filter ]`): layout around the capture bar
    if u.chance(1, 3) {
        add_capture_idiom(u, &mut file, &doc);
    }
    // literals with maps / bools / nulls make the value spellings matter
    if u.chance(1, 2) {
        file.lets.push(Let { name: "litv".into(), value: Expr::Lit(Lit::V(V::Map(vec![("k-1".into(), V::Bool(true)), ("j".into(), V::List(vec![V::Null, V::Bool(false), V::s("it's")]))]))) });
    }
    (doc, doc2, file)
}

fn random_case(u: &mut Choices, sz: Size) -> CaseResult {
    let (doc, doc2, file) = gen_program(u, sz);
    let canon = print_file(&file);
    let var = print_variant(&file, u);
    let docs = vec![doc.to_json(), doc2.to_json()];
    let mut evals = 0;
    match same_meaning(&canon, &var.text, &docs, true, &mut evals) {
        Ok(()) => {
            let nclasses = var.classes.iter().filter(|(k, _)| !matches!(**k, "trailing-blank" | "blank-line" | "break-in-list" | "break-in-filter")).count();
            let mut classes: Vec<String> = var.classes.keys().map(|k| format!("class:{}", k)).collect();
            classes.push(format!("comments:{}", var.comments.min(3)));
            CaseResult::Pass(Info {
                nontrivial: nclasses >= 3 && var.comments >= 1,
                key: hash_case(&[&canon, &var.text]),
                classes,
                evals,
                sample: Some(json!({"canonical": canon, "variant": var.text})),
            })
        }
        Err((msg, sig)) => CaseResult::Fail(Failure { msg, sig, case: json!({"canonical": canon, "variant": var.text, "docs": docs, "tree": true}) }),
    }
}

/// one token class forced to one alternative everywhere in a generated program
fn forced_case(i: usize, sz: Size, seed: u64) -> CaseResult {
    let (class, alt) = SYNONYM_TABLE[i % SYNONYM_TABLE.len()];
    let k = i / SYNONYM_TABLE.len();
    // a fixed pseudo-random choice stream per program index (enumeration, not search)
    let mut s = splitmix(seed ^ (k as u64 + 1).wrapping_mul(0x9E37));
    let stream: Vec<u32> = (0..1500)
        .map(|_| {
            s = splitmix(s);
            (s >> 32) as u32
        })
        .collect();
    let mut u = Choices::new(&stream);
    let (doc, doc2, file) = gen_program(&mut u, sz);
    let canon = print_file(&file);
    let var = print_forced(&file, class, alt);
    let docs = vec![doc.to_json(), doc2.to_json()];
    let mut evals = 0;
    let occurrences: u32 = var.classes.values().sum();
    match same_meaning(&canon, &var.text, &docs, true, &mut evals) {
        Ok(()) => CaseResult::Pass(Info {
            nontrivial: occurrences > 0 || class == "canonical",
            key: hash_case(&[&canon, &var.text, class]),
            classes: vec![format!("forced:{}#{}:{}", class, alt, if occurrences > 0 { "occurs" } else { "absent" })],
            evals,
            sample: if occurrences > 2 { Some(json!({"forced": format!("{}#{}", class, alt), "variant": var.text})) } else { None },
        }),
        Err((msg, sig)) => CaseResult::Fail(Failure { msg: format!("forced {}#{}: {}", class, alt, msg), sig, case: json!({"canonical": canon, "variant": var.text, "docs": docs, "tree": true}) }),
    }
}

/// type block == Resources.*[ Type == 'T' ] { .. } ; bare clauses == rule default { .. }
/// every scalar below `v` replaced, with probability 1/2, by another scalar
fn vary_scalars(u: &mut Choices, v: &V) -> V {
    match v {
        V::Map(m) => V::Map(m.iter().map(|(k, x)| (k.clone(), vary_scalars(u, x))).collect()),
        V::List(l) => V::List(l.iter().map(|x| vary_scalars(u, x)).collect()),
        s => {
            if u.chance(1, 2) {
                gen_scalar(u)
            } else {
                s.clone()
            }
        }
    }
}

fn rewrite_case(u: &mut Choices, sz: Size) -> CaseResult {
    let mut doc = gen_cfn_doc(u, &sz);
    // two thirds of the documents: one more resource of an existing type, same shape, other values
    // (so that a block evaluated per resource sees different values from resource to resource)
    if u.chance(2, 3) {
        if let V::Map(m) = &mut doc {
            if let Some((_, V::Map(res))) = m.iter_mut().find(|(k, _)| k == "Resources") {
                if !res.is_empty() {
                    let i = u.below(res.len());
                    let mut twin = res[i].1.clone();
                    if let V::Map(tm) = &mut twin {
                        for (k, x) in tm.iter_mut() {
                            if k == "Properties" {
                                *x = vary_scalars(u, x);
                            }
                        }
                    }
                    let at = u.below(res.len() + 1);
                    res.insert(at, ("twin".to_string(), twin));
                }
            }
        }
    }
    let which = u.below(2);
    // one type-block case in ten: a document without resources (`Resources` empty or absent); the
    // two spellings must still agree
    let mut types = doc_types(&doc);
    if which == 0 && u.chance(1, 10) {
        if let V::Map(m) = &mut doc {
            if u.chance(1, 2) {
                m.retain(|(k, _)| k != "Resources");
            } else {
                for (k, x) in m.iter_mut() {
                    if k == "Resources" {
                        *x = V::Map(vec![]);
                    }
                }
            }
        }
    }
    let doc_text = doc.to_json();
    let mut g = PGen::new(&doc, scaled(u, sz));
    g.wide = false;
    if types.is_empty() {
        types = doc_types(&doc);
    }
    let (a, b, what) = if which == 0 {
        let ty = if !types.is_empty() && u.chance(4, 5) { types[u.below(types.len())].clone() } else { "AWS::No::Such".to_string() };
        let res_ctx: Option<V> = doc.get("Resources").and_then(|r| match r {
            V::Map(m) => m.iter().map(|(_, v)| v).find(|v| v.get("Type") == Some(&V::Str(ty.clone()))).cloned(),
            _ => None,
        });
        // block-level variables (resource-relative queries, function calls, literals): resolved
        // per resource in both spellings
        g.wide = u.chance(1, 2);
        let (lets, lv) = if u.chance(3, 5) {
            let mut l = g.gen_lets(u, res_ctx.as_ref(), 1, "tv");
            if l.0.is_empty() {
                l = g.gen_lets(u, res_ctx.as_ref(), 1, "tw");
            }
            l
        } else {
            (vec![], Vars::default())
        };
        g.wide = false;
        let mut body = g.gen_cnf(u, res_ctx.as_ref(), 1, &lv, RefCtx::Inner);
        // every query variable is used: compared with the value it selects in the first resource of
        // the type (so the clause holds there and, often, not in the next resource)
        // half of these blocks consist of the variable clauses only (a random body mostly FAILs on
        // its own, which would hide what the variables do)
        let random_body = body.clone();
        if !lets.is_empty() && u.chance(1, 2) {
            body.clear();
        }
        for l in &lets {
            if let Expr::Query { q: Query { head: Head::Key(k), parts }, .. } = &l.value {
                let mut ps = vec![Part::Key(k.clone())];
                ps.extend(parts.iter().filter(|p| !matches!(p, Part::Filter(_))).cloned());
                let sel = res_ctx.as_ref().and_then(|c| sample_ctx(c, &ps));
                let cl = match sel {
                    Some(v) if v.is_scalar() && v_expressible(&v) && !matches!(v, V::Float(_)) => cl_bin(Query { head: Head::Var(l.name.clone()), parts: vec![] }, BinOp::Eq, false, Lit::V(v)),
                    _ => cl_un(Query { head: Head::Var(l.name.clone()), parts: vec![] }, UnOp::Exists, false),
                };
                body.push(vec![Item::Clause(cl)]);
            }
        }
        if body.is_empty() {
            body = random_body;
        }
        let when = if u.chance(1, 3) { Some(g.gen_cond(u, Some(&doc), 0, &Vars::default())) } else { None };
        let tb = Item::TypeBlock { ty: ty.clone(), when: when.clone(), lets: lets.clone(), body: body.clone() };
        let q = Query {
            head: Head::Key("Resources".into()),
            parts: vec![Part::Star, Part::Filter(vec![vec![Item::Clause(cl_bin(q_key(&["Type"]), BinOp::Eq, false, Lit::V(V::Str(ty.clone()))))]])],
        };
        let blk = Item::Block { some: false, q, notempty: false, lets, body };
        let explicit = match when {
            Some(w) => Item::When { cond: w, lets: vec![], body: vec![vec![blk]] },
            None => blk,
        };
        (print_file(&file_of(vec![rule1("r0", tb)])), print_file(&file_of(vec![rule1("r0", explicit)])), "type block vs explicit filter block")
    } else {
        let body = g.gen_cnf(u, Some(&doc), 0, &Vars::default(), RefCtx::Inner);
        // grammar: at file level a `when` block is an expression of its own and cannot start an
        // `or` line (inside a rule body it can)
        if body.iter().any(|l| l.len() > 1 && matches!(l[0], Item::When { .. })) {
            return CaseResult::Discard("file-level-when-in-or-line");
        }
        let bare = File { default: body.clone(), ..File::default() };
        let named = file_of(vec![Rule { name: "default".into(), when: None, lets: vec![], body }]);
        (print_file(&bare), print_file(&named), "bare clauses vs rule default")
    };
    let mut evals = 0;
    match same_meaning(&a, &b, &[doc_text.clone()], false, &mut evals) {
        Ok(()) => CaseResult::Pass(Info {
            nontrivial: true,
            key: hash_case(&[&a, &b, &doc_text]),
            classes: vec![format!("rewrite:{}", what)],
            evals,
            sample: Some(json!({"a": a, "b": b, "doc": doc_text})),
        }),
        Err((msg, sig)) => CaseResult::Fail(Failure { msg: format!("{}: {}", what, msg), sig: format!("{}:{}{}", sig, if which == 0 { "type-block" } else { "default-rule" }, if which == 0 && !matches!(doc.get("Resources"), Some(V::Map(m)) if !m.is_empty()) { ":document-without-resources" } else { "" }), case: json!({"canonical": a, "variant": b, "docs": [doc_text], "tree": false}) }),
    }
}

pub fn run(tier: Tier, seed: u64) -> i32 {
    let spec = EvidenceSpec {
        rule: "Stage 'variants': a generated wide AST is printed canonically and under a choice stream that picks, per token occurrence, a documented synonym (keyword case of when/some/this/keys/in/exists/empty/is_*, not/NOT/!, or/OR/|OR|, =/:=, quote kind, .n vs [n], leading this., true/True, null/NULL, bare map keys) and a layout (indent unit, blank lines, trailing blanks, line breaks inside lists and filters, # comments after clauses, between clauses, after `{`, before `}`, at file start, missing final newline); parse-tree JSON (locations removed, leading This dropped) must be equal and verdicts on two documents equal. Stage 'forced' enumerates (program index x token class x alternative) with that alternative forced at every occurrence. Stage 'rewrites': type block vs Resources.*[ Type == 'T' ] { .. } (with block-level `let`s over resource-relative queries, function calls and literals), bare clauses vs rule default { .. } (verdicts only). Non-trivial: >=3 synonym classes and >=1 comment differ (forced: the class occurs); distinct by hash of both texts.".into(),
        assumptions: vec!["only spellings the grammar comment / docs list are treated as synonyms (`! in` with a blank, `<<` glued to `<` are not)".into()],
    };
    execute("C14", tier, seed, spec, &replay, &|run: &Session| {
        let sz = tier.pick(Size::quick(), Size::thorough());
        let programs = tier.pick(60, 1500);
        run.run_enum("forced", programs * SYNONYM_TABLE.len(), |i| forced_case(i, sz, seed));
        run.run_random("variants", tier.pick(15_000, 500_000), tier.pick(2500, 4000), |u| random_case(u, sz));
        run.run_random("rewrites", tier.pick(8_000, 200_000), 600, |u| rewrite_case(u, sz));
    })
}

/// entry for the structured libFuzzer target: canonical and variant text of one AST must parse to
/// the same program
pub fn fuzz_same_program(canon: &str, variant: &str) -> Result<(), String> {
    let mut ev = 0;
    same_meaning(canon, variant, &[], true, &mut ev).map_err(|(m, s)| format!("{} [{}]", m, s))
}
