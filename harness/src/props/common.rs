//! Helpers shared by the metamorphic properties: run two programs, relate their verdicts.
use crate::drive::{verdict, Verdict};
use crate::engine::*;
use crate::model::St;
use serde_json::{json, Value as J};

#[derive(Clone, Copy, PartialEq, Debug)]
pub enum Rel {
    /// same status per rule (by position), same file status, or both evaluation errors
    Equal,
    /// PASS <-> FAIL per rule, SKIP stays SKIP
    Flip,
    /// PASS <-> SKIP per rule (a clause observed through a `when` condition)
    FlipWhen,
}
impl Rel {
    pub fn text(&self) -> &'static str {
        match self {
            Rel::Equal => "equal",
            Rel::Flip => "flip",
            Rel::FlipWhen => "flip-when",
        }
    }
    pub fn parse(s: &str) -> Rel {
        match s {
            "flip" => Rel::Flip,
            "flip-when" => Rel::FlipWhen,
            _ => Rel::Equal,
        }
    }
    pub fn expect(&self, a: St) -> St {
        match (self, a) {
            (Rel::Equal, x) => x,
            (Rel::Flip, St::Pass) => St::Fail,
            (Rel::Flip, St::Fail) => St::Pass,
            (Rel::Flip, St::Skip) => St::Skip,
            (Rel::FlipWhen, St::Pass) => St::Skip,
            (Rel::FlipWhen, St::Skip) => St::Pass,
            (Rel::FlipWhen, St::Fail) => St::Fail,
        }
    }
}

pub struct PairOutcome {
    pub a: Verdict,
    pub b: Verdict,
    /// index of the first rule that violates the relation (None: whole-file disagreement)
    pub bad_rule: Option<usize>,
}

/// Ok(statuses of A) when the relation holds.
pub fn relate(doc: &str, a: &str, b: &str, rel: Rel) -> Result<Vec<(String, St)>, (String, PairOutcome)> {
    let (va, _) = verdict(doc, a);
    let (vb, _) = verdict(doc, b);
    match (&va, &vb) {
        (Verdict::Ok { rules: ra, file: fa }, Verdict::Ok { rules: rb, file: fb }) => {
            if ra.len() != rb.len() {
                return Err((format!("different number of rules: A {} ; B {}", va.short(), vb.short()), PairOutcome { a: va, b: vb, bad_rule: None }));
            }
            for (i, ((_, sa), (_, sb))) in ra.iter().zip(rb).enumerate() {
                if rel.expect(*sa) != *sb {
                    let msg = format!("relation '{}' broken at rule #{}: A {} ; B {}", rel.text(), i, va.short(), vb.short());
                    return Err((msg, PairOutcome { a: va.clone(), b: vb.clone(), bad_rule: Some(i) }));
                }
            }
            if rel == Rel::Equal && fa != fb {
                return Err((format!("file status differs: A {} ; B {}", va.short(), vb.short()), PairOutcome { a: va, b: vb, bad_rule: None }));
            }
            Ok(ra.clone())
        }
        (Verdict::EvalErr(_), Verdict::EvalErr(_)) => Ok(vec![]),
        _ => Err((format!("A {} ; B {}", va.short(), vb.short()), PairOutcome { a: va, b: vb, bad_rule: None })),
    }
}

pub fn pair_sig(prefix: &str, o: &PairOutcome) -> String {
    for v in [&o.a, &o.b] {
        match v {
            Verdict::Panic(p) => return format!("panic:{}", p.split(' ').next().unwrap_or("")),
            Verdict::ParseErr(_) => return format!("{}:generator-invalid", prefix),
            _ => {}
        }
    }
    format!("{}:relation-broken", prefix)
}

pub fn pair_case(doc: &str, a: &str, b: &str, rel: Rel, law: &str) -> J {
    json!({"doc": doc, "a": a, "b": b, "relation": rel.text(), "law": law})
}

pub fn replay_pair(prefix: &str, case: &J) -> CaseResult {
    let doc = case["doc"].as_str().unwrap_or("");
    let a = case["a"].as_str().unwrap_or("");
    let b = case["b"].as_str().unwrap_or("");
    let rel = Rel::parse(case["relation"].as_str().unwrap_or("equal"));
    match relate(doc, a, b, rel) {
        Ok(_) => CaseResult::Pass(Info::default()),
        Err((msg, o)) => CaseResult::Fail(Failure { msg, sig: pair_sig(prefix, &o), case: case.clone() }),
    }
}

// ------------------------------------------------------------------------------------------------
// batches of single-clause rules with an expected status each

use crate::ast::{file_of, print_file, Let, Rule};

pub struct Expect {
    pub rule: Rule,
    pub want: St,
    pub why: String,
}

/// Evaluate all rules in one file; on a mismatch re-run the offending rule alone to obtain a
/// minimal reproduction. `prefix` names the property in signatures; `sigf` refines the signature
/// from the failing expectation.
pub fn check_expected(
    prefix: &str,
    doc: &str,
    lets: &[Let],
    exps: &[Expect],
    evals: &mut u64,
    sigf: &dyn Fn(&Expect) -> Option<String>,
) -> Result<(), Vec<Failure>> {
    if exps.is_empty() {
        return Ok(());
    }
    let mk = |rules: Vec<Rule>| {
        let mut f = file_of(rules);
        f.lets = lets.to_vec();
        for (i, r) in f.rules.iter_mut().enumerate() {
            r.name = format!("c{}", i);
        }
        print_file(&f)
    };
    let text = mk(exps.iter().map(|e| e.rule.clone()).collect());
    *evals += 1;
    let (v, _) = verdict(doc, &text);
    let single = |e: &Expect| -> Option<Failure> {
        let t1 = mk(vec![e.rule.clone()]);
        let (v1, _) = verdict(doc, &t1);
        let ok = matches!(&v1, Verdict::Ok { rules, .. } if rules.len() == 1 && rules[0].1 == e.want);
        if ok {
            return None;
        }
        let sig = match &v1 {
            Verdict::Panic(p) => format!("panic:{}", p.split(' ').next().unwrap_or("")),
            Verdict::ParseErr(_) => format!("{}:generator-invalid", prefix),
            _ => sigf(e).unwrap_or_else(|| format!("{}:unexpected-status", prefix)),
        };
        Some(Failure {
            msg: format!("{}: expected {} ; tool reports {}", e.why, e.want.text(), v1.short()),
            case: json!({"kind": "expected-status", "doc": doc, "rules": t1, "want": e.want.text(), "why": e.why, "sig": sig}),
            sig,
        })
    };
    match &v {
        Verdict::Ok { rules, .. } if rules.len() == exps.len() => {
            let mut fails = vec![];
            for (e, (_, got)) in exps.iter().zip(rules) {
                if *got != e.want {
                    if let Some(f) = single(e) {
                        if !fails.iter().any(|x: &Failure| x.sig == f.sig) {
                            fails.push(f);
                        }
                    } else {
                        fails.push(Failure {
                            msg: format!("batch-only disagreement on {}", e.why),
                            sig: format!("{}:batch-only", prefix),
                            case: json!({"kind": "expected-status-batch", "doc": doc, "rules": text}),
                        });
                    }
                }
            }
            if fails.is_empty() {
                Ok(())
            } else {
                Err(fails)
            }
        }
        _ => {
            // the whole file failed (error / panic): find the culprit(s)
            let mut fails = vec![];
            for e in exps {
                *evals += 1;
                if let Some(f) = single(e) {
                    if !fails.iter().any(|x: &Failure| x.sig == f.sig) {
                        fails.push(f);
                    }
                }
            }
            if fails.is_empty() {
                fails.push(Failure {
                    msg: format!("file evaluates rule by rule but not as a whole: {}", v.short()),
                    sig: format!("{}:batch-only", prefix),
                    case: json!({"kind": "expected-status-batch", "doc": doc, "rules": text}),
                });
            }
            Err(fails)
        }
    }
}

pub fn replay_expected(prefix: &str, case: &J, sig: &str) -> CaseResult {
    let doc = case["doc"].as_str().unwrap_or("");
    let rules = case["rules"].as_str().unwrap_or("");
    let (v, _) = verdict(doc, rules);
    if case["kind"] == "expected-status-batch" {
        return match v {
            Verdict::Ok { .. } => CaseResult::Pass(Info::default()),
            _ => CaseResult::Fail(Failure { msg: format!("file does not evaluate: {}", v.short()), sig: format!("{}:batch-only", prefix), case: case.clone() }),
        };
    }
    let want = St::parse(case["want"].as_str().unwrap_or("")).unwrap_or(St::Pass);
    let ok = matches!(&v, Verdict::Ok { rules, .. } if rules.len() == 1 && rules[0].1 == want);
    if ok {
        CaseResult::Pass(Info::default())
    } else {
        CaseResult::Fail(Failure {
            msg: format!("{}: expected {} ; tool reports {}", case["why"].as_str().unwrap_or(""), want.text(), v.short()),
            sig: case["sig"].as_str().unwrap_or(sig).to_string(),
            case: case.clone(),
        })
    }
}
