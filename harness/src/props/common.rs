//! Helpers shared by the metamorphic properties: run two programs, relate their verdicts.
use crate::drive::{verdict, Verdict};
use crate::engine::*;
use crate::model::St;
use serde_json::{json, Value as J};

#[derive(Clone, Copy, PartialEq, Debug)]
pub enum Rel {
    /// same status per rule (by position), same file status, or both evaluation errors
    Equal,
    /// PASS <-> FAIL per rule, SKIP stays SKIP
    Flip,
    /// PASS <-> SKIP per rule (a clause observed through a `when` condition)
    FlipWhen,
}
impl Rel {
    pub fn text(&self) -> &'static str {
        match self {
            Rel::Equal => "equal",
            Rel::Flip => "flip",
            Rel::FlipWhen => "flip-when",
        }
    }
    pub fn parse(s: &str) -> Rel {
        match s {
            "flip" => Rel::Flip,
            "flip-when" => Rel::FlipWhen,
            _ => Rel::Equal,
        }
    }
    pub fn expect(&self, a: St) -> St {
        match (self, a) {
            (Rel::Equal, x) => x,
            (Rel::Flip, St::Pass) => St::Fail,
            (Rel::Flip, St::Fail) => St::Pass,
            (Rel::Flip, St::Skip) => St::Skip,
            (Rel::FlipWhen, St::Pass) => St::Skip,
            (Rel::FlipWhen, St::Skip) => St::Pass,
            (Rel::FlipWhen, St::Fail) => St::Fail,
        }
    }
}

pub struct PairOutcome {
    pub a: Verdict,
    pub b: Verdict,
    /// index of the first rule that violates the relation (None: whole-file disagreement)
    pub bad_rule: Option<usize>,
}

/// Ok(statuses of A) when the relation holds.
pub fn relate(doc: &str, a: &str, b: &str, rel: Rel) -> Result<Vec<(String, St)>, (String, PairOutcome)> {
    let (va, _) = verdict(doc, a);
    let (vb, _) = verdict(doc, b);
    match (&va, &vb) {
        (Verdict::Ok { rules: ra, file: fa }, Verdict::Ok { rules: rb, file: fb }) => {
            if ra.len() != rb.len() {
                return Err((format!("different number of rules: A {} ; B {}", va.short(), vb.short()), PairOutcome { a: va, b: vb, bad_rule: None }));
            }
            for (i, ((_, sa), (_, sb))) in ra.iter().zip(rb).enumerate() {
                if rel.expect(*sa) != *sb {
                    let msg = format!("relation '{}' broken at rule #{}: A {} ; B {}", rel.text(), i, va.short(), vb.short());
                    return Err((msg, PairOutcome { a: va.clone(), b: vb.clone(), bad_rule: Some(i) }));
                }
            }
            if rel == Rel::Equal && fa != fb {
                return Err((format!("file status differs: A {} ; B {}", va.short(), vb.short()), PairOutcome { a: va, b: vb, bad_rule: None }));
            }
            Ok(ra.clone())
        }
        (Verdict::EvalErr(_), Verdict::EvalErr(_)) => Ok(vec![]),
        _ => Err((format!("A {} ; B {}", va.short(), vb.short()), PairOutcome { a: va, b: vb, bad_rule: None })),
    }
}

pub fn pair_sig(prefix: &str, o: &PairOutcome) -> String {
    for v in [&o.a, &o.b] {
        match v {
            Verdict::Panic(p) => return format!("panic:{}", p.split(' ').next().unwrap_or("")),
            Verdict::ParseErr(_) => return format!("{}:generator-invalid", prefix),
            _ => {}
        }
    }
    format!("{}:relation-broken", prefix)
}

pub fn pair_case(doc: &str, a: &str, b: &str, rel: Rel, law: &str) -> J {
    json!({"doc": doc, "a": a, "b": b, "relation": rel.text(), "law": law})
}

pub fn replay_pair(prefix: &str, case: &J) -> CaseResult {
    let doc = case["doc"].as_str().unwrap_or("");
    let a = case["a"].as_str().unwrap_or("");
    let b = case["b"].as_str().unwrap_or("");
    let rel = Rel::parse(case["relation"].as_str().unwrap_or("equal"));
    match relate(doc, a, b, rel) {
        Ok(_) => CaseResult::Pass(Info::default()),
        Err((msg, o)) => CaseResult::Fail(Failure { msg, sig: pair_sig(prefix, &o), case: case.clone() }),
    }
}
