//! C03 — negation is honoured (metamorphic: prefix `not` ≡ operator-level negation, double
//! negation, flip law on single comparable values, `not R`).
use super::common::*;
use crate::ast::*;
use crate::choices::Choices;
use crate::drive::{verdict, Verdict};
use crate::engine::*;
use crate::gen::*;
use crate::model::{self, St, M};
use crate::val::{Ty, V};
use serde_json::{json, Value as J};

pub fn replay(case: &J) -> CaseResult {
    if case.get("kind").and_then(|k| k.as_str()) == Some("rule-reference") {
        return replay_ref(case);
    }
    replay_pair("c03", case)
}

/// Is a single resolved value `v` comparable with `rhs` under `op` (so that the flip law applies)?
pub fn comparable(v: &V, op: BinOp, rhs: &Lit) -> bool {
    let scalar_same = |a: &V, b: &V| a.is_scalar() && b.is_scalar() && a.ty() == b.ty();
    match op {
        BinOp::Eq => match rhs {
            Lit::V(r) => scalar_same(v, r),
            Lit::Regex(_) => v.ty() == Ty::Str,
            Lit::RangeI(..) => v.ty() == Ty::Int,
            Lit::RangeF(..) => v.ty() == Ty::Float,
            Lit::List(_) => false,
        },
        BinOp::In => match rhs {
            // membership of a list as a whole in a list of lists is two-valued as well
            Lit::V(V::List(items)) if matches!(v, V::List(_)) => {
                let lists = !items.is_empty() && items.iter().all(|i| matches!(i, V::List(_)));
                // a list of scalars against a list of scalars of the same type is the subset
                // test: two-valued when the list lies entirely inside (the empty list included)
                // or entirely outside; a partial overlap is FAIL for `in` and for `not in` alike
                // (the tool reads `not in` as "no element in") and is not asserted
                let subset = match v {
                    V::List(xs) => {
                        !items.is_empty()
                            && items.iter().all(|i| i.is_scalar() && i.ty() == items[0].ty())
                            && xs.iter().all(|x| x.is_scalar() && x.ty() == items[0].ty())
                            && (xs.iter().all(|x| items.contains(x)) || !xs.iter().any(|x| items.contains(x)))
                    }
                    _ => false,
                };
                lists || subset
            }
            Lit::V(V::List(items)) => v.is_scalar() && !items.is_empty() && items.iter().all(|i| i.is_scalar()),
            Lit::V(V::Str(_)) => v.ty() == Ty::Str,
            Lit::V(r) => scalar_same(v, r),
            Lit::Regex(_) => v.ty() == Ty::Str,
            Lit::RangeI(..) => v.ty() == Ty::Int,
            Lit::RangeF(..) => v.ty() == Ty::Float,
            Lit::List(_) => false,
        },
        _ => match rhs {
            Lit::V(r) => scalar_same(v, r) && matches!(v.ty(), Ty::Int | Ty::Float | Ty::Str),
            _ => false,
        },
    }
}

const CTX: [&str; 5] = ["rule-body", "query-block", "when-condition", "filter", "type-block"];

fn wrap(ctx: usize, name: &str, c: Clause) -> Rule {
    match ctx {
        0 => rule1(name, Item::Clause(c)),
        1 => rule1(
            name,
            Item::Block { some: false, q: Query { head: Head::Key("w".into()), parts: vec![Part::AllIdx] }, notempty: false, lets: vec![], body: vec![vec![Item::Clause(c)]] },
        ),
        2 => Rule { name: name.into(), when: Some(vec![vec![Item::Clause(c)]]), lets: vec![], body: vec![vec![Item::Clause(cl_un(q_key(&["w"]), UnOp::Exists, false))]] },
        3 => rule1(
            name,
            Item::Clause(Clause {
                prefneg: false,
                some: false,
                q: Query { head: Head::Key("w".into()), parts: vec![Part::Filter(vec![vec![Item::Clause(c)]])] },
                kind: Kind::Unary { op: UnOp::Empty, opneg: true },
                msg: None,
            }),
        ),
        _ => rule1(name, Item::TypeBlock { ty: "AWS::X::Y".into(), when: None, lets: vec![], body: vec![vec![Item::Clause(c)]] }),
    }
}

fn make_doc(x: &Option<V>, y: &Option<V>) -> V {
    let mut inner: Vec<(String, V)> = vec![];
    if let Some(v) = x {
        inner.push(("x".into(), v.clone()));
    }
    if let Some(v) = y {
        inner.push(("y".into(), v.clone()));
    }
    let mut res = vec![("Type".to_string(), V::s("AWS::X::Y"))];
    res.extend(inner.clone());
    let mut top = inner.clone();
    top.push(("w".into(), V::List(vec![V::Map(inner)])));
    top.push(("Resources".into(), V::Map(vec![("r1".into(), V::Map(res))])));
    V::Map(top)
}

fn lhs_values(tier: Tier) -> Vec<(&'static str, Option<V>)> {
    let m = |kv: Vec<(&str, V)>| V::Map(kv.into_iter().map(|(k, v)| (k.to_string(), v)).collect());
    let mut u = vec![
        ("missing", None),
        ("null", Some(V::Null)),
        ("bool", Some(V::Bool(true))),
        ("int", Some(V::Int(1))),
        ("float", Some(V::Float(1.5))),
        ("str", Some(V::s("a"))),
        ("str-empty", Some(V::s(""))),
        ("list-empty", Some(V::List(vec![]))),
        ("list-scalars", Some(V::List(vec![V::Int(1), V::Int(2)]))),
        ("list-mixed-unresolved", Some(V::List(vec![m(vec![("k", V::Int(1))]), m(vec![("j", V::Int(2))])]))),
        ("list-nested", Some(V::List(vec![V::List(vec![V::Int(1)]), V::List(vec![V::Int(2)])]))),
        ("map", Some(m(vec![("k", V::Int(1))]))),
    ];
    if tier == Tier::Thorough {
        u.extend(vec![
            ("int2", Some(V::Int(2))),
            ("str-ab", Some(V::s("ab"))),
            ("list-1", Some(V::List(vec![V::Int(1)]))),
            ("list-str", Some(V::List(vec![V::s("a"), V::s("b")]))),
            ("map-empty", Some(m(vec![]))),
            ("float2", Some(V::Float(2.0))),
        ]);
    }
    u
}

#[derive(Clone)]
enum RhsForm {
    Lit(Lit),
    /// `x op y` with y in the document
    QueryY(V),
    /// `let v = <lit>` at file level, `x op %v`
    VarLit(Lit),
}

fn rhs_forms(tier: Tier) -> Vec<RhsForm> {
    let v = |x: V| Lit::V(x);
    let mut r = vec![
        RhsForm::Lit(v(V::Int(1))),
        RhsForm::Lit(v(V::Int(2))),
        RhsForm::Lit(v(V::s("a"))),
        RhsForm::Lit(v(V::Float(1.5))),
        RhsForm::Lit(v(V::Bool(true))),
        RhsForm::Lit(v(V::Null)),
        RhsForm::Lit(v(V::List(vec![V::Int(1), V::Int(2)]))),
        RhsForm::Lit(v(V::List(vec![V::s("a"), V::Int(1)]))),
        RhsForm::Lit(v(V::List(vec![V::List(vec![V::Int(1)]), V::List(vec![V::Int(3)])]))),
        RhsForm::Lit(Lit::Regex("^a".into())),
        RhsForm::Lit(Lit::RangeI(1, 5, true, false)),
        RhsForm::Lit(v(V::s("xay"))),
        RhsForm::QueryY(V::Int(1)),
        RhsForm::QueryY(V::s("a")),
        RhsForm::QueryY(V::List(vec![V::Int(1), V::Int(2)])),
        RhsForm::VarLit(v(V::Int(1))),
        RhsForm::VarLit(v(V::List(vec![V::s("a"), V::s("b")]))),
    ];
    if tier == Tier::Thorough {
        r.extend(vec![
            RhsForm::Lit(v(V::Map(vec![("k".into(), V::Int(1))]))),
            RhsForm::Lit(v(V::List(vec![]))),
            RhsForm::Lit(Lit::RangeF(0.5, 2.0, true, true)),
            RhsForm::Lit(v(V::Float(2.0))),
            RhsForm::QueryY(V::Float(1.5)),
            RhsForm::QueryY(V::Null),
            RhsForm::QueryY(V::Map(vec![("k".into(), V::Int(1))])),
            RhsForm::VarLit(Lit::Regex("a".into())),
            RhsForm::VarLit(v(V::s("a"))),
        ]);
    }
    r
}

fn query_shapes() -> Vec<Vec<Part>> {
    vec![vec![], vec![Part::AllIdx], vec![Part::Star], vec![Part::Idx(0)], vec![Part::Key("k".into())]]
}

struct Laws {
    doc: String,
    lets: Vec<Let>,
    equal: Vec<(Rule, Rule, String)>,
    flip: Vec<(Rule, Rule, String)>,
}

fn ord_complement(op: BinOp) -> BinOp {
    match op {
        BinOp::Lt => BinOp::Ge,
        BinOp::Le => BinOp::Gt,
        BinOp::Gt => BinOp::Le,
        BinOp::Ge => BinOp::Lt,
        x => x,
    }
}

/// Push the law pairs of one base clause. `single` = the value the query selects when it selects
/// exactly one resolved value.
fn push_laws(l: &mut Laws, ctx: usize, base: &Clause, single: Option<&V>, rhs_lit: Option<&Lit>) {
    let n = l.equal.len() + l.flip.len();
    let name = format!("c{}", n);
    let mk = |prefneg: bool, opneg: bool| -> Clause {
        let mut c = base.clone();
        c.prefneg = prefneg;
        match &mut c.kind {
            Kind::Unary { opneg: o, .. } => *o = opneg,
            Kind::Binary { opneg: o, .. } => *o = opneg,
        }
        c
    };
    let (has_opneg, binop) = match &base.kind {
        Kind::Unary { .. } => (true, None),
        Kind::Binary { op, .. } => (matches!(op, BinOp::Eq | BinOp::In), Some(*op)),
    };
    let t = |c: &Clause| clause_text(c);
    if has_opneg {
        // (1) not X op v == X !op v
        let (a, b) = (mk(true, false), mk(false, true));
        l.equal.push((wrap(ctx, &name, a.clone()), wrap(ctx, &name, b.clone()), format!("`{}` == `{}`", t(&a), t(&b))));
        // (2) not X !op v == X op v
        let (a, b) = (mk(true, true), mk(false, false));
        l.equal.push((wrap(ctx, &name, a.clone()), wrap(ctx, &name, b.clone()), format!("`{}` == `{}`", t(&a), t(&b))));
    }
    // (3) flip law
    let applies = match (single, &base.kind) {
        (Some(_), Kind::Unary { .. }) => true,
        (Some(v), Kind::Binary { op, .. }) => rhs_lit.map_or(false, |r| comparable(v, *op, r)),
        _ => false,
    };
    if applies && !base.some {
        let (a, b) = (mk(false, false), mk(true, false));
        l.flip.push((wrap(ctx, &name, a.clone()), wrap(ctx, &name, b.clone()), format!("`{}` flips `{}`", t(&a), t(&b))));
        if has_opneg {
            let (a, b) = (mk(false, false), mk(false, true));
            l.flip.push((wrap(ctx, &name, a.clone()), wrap(ctx, &name, b.clone()), format!("`{}` flips `{}`", t(&a), t(&b))));
        } else if let Some(op) = binop {
            // not X > v == X <= v
            let a = mk(true, false);
            let mut b = mk(false, false);
            if let Kind::Binary { op: o, .. } = &mut b.kind {
                *o = ord_complement(op);
            }
            l.equal.push((wrap(ctx, &name, a.clone()), wrap(ctx, &name, b.clone()), format!("`{}` == `{}`", t(&a), t(&b))));
        }
    }
}

fn check_group(doc: &str, lets: &[Let], group: &[(Rule, Rule, String)], rel: Rel, evals: &mut u64, nontrivial: &mut u64) -> Result<(), Failure> {
    if group.is_empty() {
        return Ok(());
    }
    let mk = |rules: Vec<Rule>| {
        let mut f = file_of(rules);
        f.lets = lets.to_vec();
        // distinct rule names per position
        for (i, r) in f.rules.iter_mut().enumerate() {
            r.name = format!("c{}", i);
        }
        print_file(&f)
    };
    let a = mk(group.iter().map(|g| g.0.clone()).collect());
    let b = mk(group.iter().map(|g| g.1.clone()).collect());
    *evals += 2;
    match relate(doc, &a, &b, rel) {
        Ok(sts) => {
            *nontrivial += sts.iter().filter(|(_, s)| *s != St::Skip).count() as u64;
            Ok(())
        }
        Err((msg, o)) => {
            // isolate
            let idxs: Vec<usize> = match o.bad_rule {
                Some(i) => vec![i],
                None => (0..group.len()).collect(),
            };
            for i in idxs {
                let a1 = mk(vec![group[i].0.clone()]);
                let b1 = mk(vec![group[i].1.clone()]);
                if let Err((m1, o1)) = relate(doc, &a1, &b1, rel) {
                    return Err(Failure { msg: format!("{}: {}", group[i].2, m1), sig: pair_sig("c03", &o1), case: pair_case(doc, &a1, &b1, rel, &group[i].2) });
                }
            }
            Err(Failure { msg: format!("batch-only: {}", msg), sig: pair_sig("c03", &o), case: pair_case(doc, &a, &b, rel, "batch") })
        }
    }
}

fn enum_case(tier: Tier, i: usize) -> CaseResult {
    let vals = lhs_values(tier);
    let qs = query_shapes();
    let rhss = rhs_forms(tier);
    let ctx = i % CTX.len();
    let qi = (i / CTX.len()) % qs.len();
    let vi = i / (CTX.len() * qs.len());
    let (vname, x) = &vals[vi];
    let mut evals = 0u64;
    let mut nontrivial = 0u64;
    let mut classes = vec![format!("ctx:{}", CTX[ctx]), format!("lhs:{}", vname)];
    // the query is rooted at x; in the type-block context at Resources.r1 (x is a direct key there)
    let q = Query { head: Head::Key("x".into()), parts: qs[qi].clone() };
    let mut keys = vec![];
    // group by y value (each distinct document is its own batch)
    let mut ys: Vec<Option<V>> = vec![None];
    for r in &rhss {
        if let RhsForm::QueryY(v) = r {
            if !ys.contains(&Some(v.clone())) {
                ys.push(Some(v.clone()));
            }
        }
    }
    for y in ys {
        let docv = make_doc(x, &y);
        let doc = docv.to_json();
        let inner = V::Map(x.iter().map(|v| ("x".to_string(), v.clone())).collect());
        let members = model::eval_query_root(&inner, &q).unwrap_or_default();
        let single: Option<V> = match members.as_slice() {
            [M::R(v)] => Some(v.clone()),
            _ => None,
        };
        let mut laws = Laws { doc: doc.clone(), lets: vec![], equal: vec![], flip: vec![] };
        let mut lets = vec![];
        for (ri, r) in rhss.iter().enumerate() {
            let (rhs_expr, rhs_lit): (Expr, Option<Lit>) = match (r, &y) {
                (RhsForm::Lit(l), None) => (Expr::Lit(l.clone()), Some(l.clone())),
                (RhsForm::VarLit(l), None) => {
                    let n = format!("v{}", ri);
                    lets.push(Let { name: n.clone(), value: Expr::Lit(l.clone()) });
                    (Expr::Query { some: false, q: Query { head: Head::Var(n), parts: vec![] } }, Some(l.clone()))
                }
                (RhsForm::QueryY(v), Some(yv)) if v == yv => {
                    (Expr::Query { some: false, q: Query { head: Head::Key("y".into()), parts: vec![] } }, if v_expressible(v) { Some(Lit::V(v.clone())) } else { None })
                }
                _ => continue,
            };
            // variables defined at file level are not visible by name inside a type block's
            // query context? They are (scopes nest); keep all contexts.
            for some in [false, true] {
                for op in BINOPS {
                    let c = Clause { prefneg: false, some, q: q.clone(), kind: Kind::Binary { op, opneg: false, rhs: rhs_expr.clone() }, msg: None };
                    push_laws(&mut laws, ctx, &c, single.as_ref(), rhs_lit.as_ref());
                }
            }
        }
        if y.is_none() {
            for some in [false, true] {
                for op in UNOPS {
                    if op == UnOp::Empty {
                        continue;
                    }
                    let mut c = cl_un(q.clone(), op, false);
                    c.some = some;
                    push_laws(&mut laws, ctx, &c, single.as_ref(), None);
                }
            }
        }
        laws.lets = lets;
        let flip_rel = if ctx == 2 { Rel::FlipWhen } else { Rel::Flip };
        classes.push(format!("laws-equal:{}", laws.equal.len()));
        if let Err(f) = check_group(&laws.doc, &laws.lets, &laws.equal, Rel::Equal, &mut evals, &mut nontrivial) {
            return CaseResult::Fail(f);
        }
        if let Err(f) = check_group(&laws.doc, &laws.lets, &laws.flip, flip_rel, &mut evals, &mut nontrivial) {
            return CaseResult::Fail(f);
        }
        keys.push(doc.clone());
        // `empty` may raise an evaluation error: one clause per file
        if y.is_none() {
            for some in [false, true] {
                let mut c = cl_un(q.clone(), UnOp::Empty, false);
                c.some = some;
                let mut l1 = Laws { doc: doc.clone(), lets: vec![], equal: vec![], flip: vec![] };
                push_laws(&mut l1, ctx, &c, single.as_ref(), None);
                for g in l1.equal.chunks(1) {
                    if let Err(f) = check_group(&doc, &[], g, Rel::Equal, &mut evals, &mut nontrivial) {
                        return CaseResult::Fail(f);
                    }
                }
                for g in l1.flip.chunks(1) {
                    if let Err(f) = check_group(&doc, &[], g, flip_rel, &mut evals, &mut nontrivial) {
                        return CaseResult::Fail(f);
                    }
                }
            }
        }
    }
    classes.push(format!("nontrivial-pairs:{}", if nontrivial > 0 { ">0" } else { "0" }));
    let sample = json!({"ctx": CTX[ctx], "lhs": vname, "query": query_text(&q), "pairs_not_skip": nontrivial});
    CaseResult::Pass(Info { nontrivial: nontrivial > 0, key: hash_case(&[&format!("{}|{}|{}", ctx, qi, vi)]), classes, evals, sample: Some(sample) })
}

// ------------------------------------------------------------------------------------------------
// rule references: `not R` is PASS exactly when R is not PASS; `not f(args)` likewise

fn ref_file(status: usize, users_first: bool) -> (String, Vec<(&'static str, fn(St) -> St)>) {
    // document: {"k": 1}
    let r_body = ["k == 1", "k == 2", "when k == 2 { k == 1 }"][status];
    let f_body = ["%p == 1", "%p == 2", "when %p == 2 { %p == 1 }"][status];
    let defs = format!("rule R {{\n  {}\n}}\nrule f(p) {{\n  {}\n}}\n", r_body, f_body);
    let users = "rule u1 {\n  R\n}\nrule u2 {\n  not R\n}\nrule u3 when R {\n  k exists\n}\nrule u4 when not R {\n  k exists\n}\nrule u5 {\n  f(k)\n}\nrule u6 {\n  not f(k)\n}\nrule u7 {\n  when k exists {\n    not R\n  }\n}\nrule u8 when not f(k) {\n  k exists\n}\n";
    let text = if users_first { format!("{}{}", users, defs) } else { format!("{}{}", defs, users) };
    let pass_iff = |b: bool| if b { St::Pass } else { St::Fail };
    let exp: Vec<(&'static str, fn(St) -> St)> = vec![
        ("u1", |r| if r == St::Pass { St::Pass } else { St::Fail }),
        ("u2", |r| if r != St::Pass { St::Pass } else { St::Fail }),
        ("u3", |r| if r == St::Pass { St::Pass } else { St::Skip }),
        ("u4", |r| if r != St::Pass { St::Pass } else { St::Skip }),
        ("u5", |r| r),
        ("u6", |r| if r != St::Pass { St::Pass } else { St::Fail }),
        ("u7", |r| if r != St::Pass { St::Pass } else { St::Fail }),
        ("u8", |r| if r != St::Pass { St::Pass } else { St::Skip }),
    ];
    let _ = pass_iff;
    (text, exp)
}

fn check_ref(text: &str, status: usize, users_first: bool) -> Result<(), Failure> {
    let doc = "{\"k\":1}";
    let (_, exp) = ref_file(status, users_first);
    let (v, _) = verdict(doc, text);
    let case = json!({"kind": "rule-reference", "doc": doc, "rules": text, "status": status, "users_first": users_first});
    match &v {
        Verdict::Ok { rules, .. } => {
            let get = |n: &str| rules.iter().find(|(k, _)| k == n).map(|(_, s)| *s);
            let r = get("R");
            let want_r = [St::Pass, St::Fail, St::Skip][status];
            if r != Some(want_r) {
                return Err(Failure { msg: format!("rule R forced to {} reports {:?}", want_r.text(), r), sig: "c03:forced-status".into(), case });
            }
            for (n, f) in exp {
                let want = f(want_r);
                if get(n) != Some(want) {
                    return Err(Failure {
                        msg: format!("with R={}: rule {} should be {} but is {:?} ({})", want_r.text(), n, want.text(), get(n).map(|s| s.text()), v.short()),
                        sig: format!("c03:rule-reference:{}", n),
                        case,
                    });
                }
            }
            Ok(())
        }
        _ => Err(Failure { msg: format!("rule-reference file did not evaluate: {}", v.short()), sig: "c03:rule-reference".into(), case }),
    }
}

fn replay_ref(case: &J) -> CaseResult {
    let status = case["status"].as_u64().unwrap_or(0) as usize;
    let uf = case["users_first"].as_bool().unwrap_or(false);
    match check_ref(case["rules"].as_str().unwrap_or(""), status, uf) {
        Ok(()) => CaseResult::Pass(Info::default()),
        Err(f) => CaseResult::Fail(f),
    }
}

fn ref_case(i: usize) -> CaseResult {
    let status = i % 3;
    let users_first = i / 3 == 1;
    let (text, _) = ref_file(status, users_first);
    match check_ref(&text, status, users_first) {
        Ok(()) => CaseResult::Pass(Info {
            nontrivial: true,
            key: hash_case(&[&text]),
            classes: vec![format!("ref-status:{}", ["PASS", "FAIL", "SKIP"][status])],
            evals: 1,
            sample: Some(json!({"rules": text, "doc": "{\"k\":1}"})),
        }),
        Err(f) => CaseResult::Fail(f),
    }
}

// ------------------------------------------------------------------------------------------------
// random clauses from the shared generator

fn random_case(u: &mut Choices, sz: Size) -> CaseResult {
    let doc = gen_doc(u, &sz);
    let doc_text = doc.to_json();
    let mut g = PGen::new(&doc, sz);
    g.prefneg_binary = false;
    let n = u.range(1, 6);
    let mut laws = Laws { doc: doc_text.clone(), lets: vec![], equal: vec![], flip: vec![] };
    let mut singles = 0;
    for _ in 0..n {
        let mut c = g.gen_clause(u, Some(&doc), 0, &Vars::default(), false);
        c.prefneg = false;
        match &mut c.kind {
            Kind::Unary { opneg, .. } => *opneg = false,
            Kind::Binary { opneg, .. } => *opneg = false,
        }
        let has_filter = c.q.parts.iter().any(|p| matches!(p, Part::Filter(_)));
        let members = if has_filter { vec![] } else { model::eval_query_root(&doc, &c.q).unwrap_or_default() };
        let single: Option<V> = match members.as_slice() {
            [M::R(v)] => Some(v.clone()),
            _ => None,
        };
        if single.is_some() {
            singles += 1;
        }
        let rhs_lit = match &c.kind {
            Kind::Binary { rhs: Expr::Lit(l), .. } => Some(l.clone()),
            _ => None,
        };
        if let Kind::Unary { op: UnOp::Empty, .. } = c.kind {
            // may raise an error, which would mask the other clauses of the batch
            if members.iter().any(|m| matches!(m, M::R(V::Int(_)) | M::R(V::Float(_)) | M::R(V::Null))) {
                continue;
            }
        }
        push_laws(&mut laws, 0, &c, single.as_ref(), rhs_lit.as_ref());
    }
    let mut evals = 0;
    let mut nontrivial = 0;
    if let Err(f) = check_group(&doc_text, &[], &laws.equal, Rel::Equal, &mut evals, &mut nontrivial) {
        return CaseResult::Fail(f);
    }
    if let Err(f) = check_group(&doc_text, &[], &laws.flip, Rel::Flip, &mut evals, &mut nontrivial) {
        return CaseResult::Fail(f);
    }
    let a_text = laws.equal.first().map(|g| g.2.clone()).unwrap_or_default();
    CaseResult::Pass(Info {
        nontrivial: nontrivial > 0,
        key: hash_case(&[&doc_text, &a_text, &format!("{}", laws.equal.len() + laws.flip.len())]),
        classes: vec![format!("random:single-value-clauses:{}", singles.min(3)), format!("random:flip-pairs:{}", laws.flip.len().min(4))],
        evals,
        sample: Some(json!({"doc": doc_text, "laws": laws.equal.iter().chain(laws.flip.iter()).take(4).map(|g| g.2.clone()).collect::<Vec<_>>()})),
    })
}

pub fn run(tier: Tier, seed: u64) -> i32 {
    let spec = EvidenceSpec {
        rule: "Stage 'laws' enumerates (LHS value shape x query shape x syntactic context); each case evaluates, for every (operator x all/some x right-hand form [literal, query, literal variable]), the pairs `not X op v` vs `X !op v`, `not X !op v` vs `X op v`, and - only where the query selects exactly one resolved value comparable with the right-hand side - clause vs negated clause (statuses must flip; PASS<->SKIP when observed through a when condition) and `not X > v` vs `X <= v`. Stage 'rule-references' forces a rule R / parameterised rule f to PASS, FAIL and SKIP and checks R, not R, f(k), not f(k) in rule bodies and when conditions, definitions before and after their users. Stage 'random' applies the same laws to clauses drawn from the shared document-directed generator. A case is non-trivial when at least one compared clause is not SKIP; distinct by (context, query, value) or by hash of the texts.".into(),
        assumptions: vec![
            "both programs of a pair are evaluated by the tool; no reference model is involved except to decide which value a query selects (flip-law precondition)".into(),
            "comparability for the flip law is decided by type: same scalar type, string~regex, number~range of its type, scalar `in` list of scalars".into(),
        ],
    };
    execute("C03", tier, seed, spec, &replay, &|run: &Session| {
        let total = lhs_values(tier).len() * query_shapes().len() * CTX.len();
        run.run_enum("laws", total, |i| enum_case(tier, i));
        run.run_enum("rule-references", 6, ref_case);
        let sz = tier.pick(Size::quick(), Size::thorough());
        run.run_random("random", tier.pick(20_000, 400_000), 400, |u| random_case(u, sz));
    })
}
