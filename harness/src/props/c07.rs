//! C07 — the verdict is independent of output format, verbosity and entry point.
use crate::ast::*;
use crate::choices::Choices;
use crate::drive::*;
use crate::engine::*;
use crate::gen::*;
use crate::model::St;
use crate::val::V;
use serde_json::{json, Value as J};
use std::collections::BTreeSet;

pub fn strip_ansi(s: &str) -> String {
    let mut out = String::with_capacity(s.len());
    let mut it = s.chars().peekable();
    while let Some(c) = it.next() {
        if c == '\u{1b}' {
            if it.peek() == Some(&'[') {
                it.next();
                for d in it.by_ref() {
                    if d.is_ascii_alphabetic() {
                        break;
                    }
                }
            }
        } else {
            out.push(c);
        }
    }
    out
}

#[derive(Debug, Clone, Default, PartialEq)]
pub struct Obs {
    pub pass: Option<BTreeSet<String>>,
    pub fail: Option<BTreeSet<String>>,
    pub skip: Option<BTreeSet<String>>,
    pub file: Option<St>,
}

fn last_seg(n: &str) -> String {
    n.rsplit('/').next().unwrap_or(n).to_string()
}

/// parse the console summary table
pub fn parse_table(out: &str, shown: &[Show]) -> Result<Obs, String> {
    let txt = strip_ansi(out);
    let mut o = Obs::default();
    let all = shown.contains(&Show::All);
    let has = |s: Show| all || shown.contains(&s);
    if has(Show::Pass) {
        o.pass = Some(BTreeSet::new());
    }
    if has(Show::Fail) {
        o.fail = Some(BTreeSet::new());
    }
    if has(Show::Skip) {
        o.skip = Some(BTreeSet::new());
    }
    for line in txt.lines() {
        if line == "---" {
            break; // the summary table ends here; detail lines follow
        }
        if let Some(p) = line.find(" Status = ") {
            o.file = St::parse(line[p + 10..].trim());
            continue;
        }
        let toks: Vec<&str> = line.split_whitespace().collect();
        if toks.len() == 2 {
            if let Some(st) = St::parse(toks[1]) {
                let name = last_seg(toks[0]);
                let slot = match st {
                    St::Pass => &mut o.pass,
                    St::Fail => &mut o.fail,
                    St::Skip => &mut o.skip,
                };
                match slot {
                    Some(s) => {
                        s.insert(name);
                    }
                    None => return Err(format!("summary table lists a {} rule although that class was not selected: {}", st.text(), line)),
                }
            }
        }
    }
    Ok(o)
}

pub fn obs_from_report(r: &J) -> Result<Obs, String> {
    let names = |k: &str| -> Result<BTreeSet<String>, String> {
        r[k].as_array().ok_or_else(|| format!("report without '{}'", k)).map(|a| a.iter().filter_map(|x| x.as_str()).map(last_seg).collect())
    };
    let mut fail = BTreeSet::new();
    for e in r["not_compliant"].as_array().ok_or("report without not_compliant")? {
        fail.insert(last_seg(e["Rule"]["name"].as_str().ok_or("not_compliant entry without name")?));
    }
    Ok(Obs { pass: Some(names("compliant")?), fail: Some(fail), skip: Some(names("not_applicable")?), file: r["status"].as_str().and_then(St::parse) })
}

pub fn count_leaf_checks(checks: &J) -> usize {
    let mut n = 0;
    if let Some(a) = checks.as_array() {
        for c in a {
            if let Some(r) = c.get("Rule") {
                n += count_leaf_checks(&r["checks"]);
            } else if let Some(d) = c.get("Disjunctions") {
                n += count_leaf_checks(&d["checks"]);
            } else if c.get("Block").is_some() || c.get("Clause").is_some() {
                n += 1;
            }
        }
    }
    n
}

pub struct Junit {
    pub cases: Vec<(String, &'static str)>, // (name, mark: pass|fail|skip|error)
    pub tests_attr: Option<usize>,
    pub failures_attr: Option<usize>,
    pub errors_attr: Option<usize>,
}

pub fn parse_junit(xml: &str) -> Result<Junit, String> {
    use quick_xml::events::Event;
    use quick_xml::Reader;
    // XML 1.0 `Char`: #x9 | #xA | #xD | [#x20-#xD7FF] | [#xE000-#xFFFD] | [#x10000-#x10FFFF]
    // (quick-xml does not check it)
    if let Some(c) = xml.chars().find(|c| !matches!(*c as u32, 0x9 | 0xA | 0xD | 0x20..=0xD7FF | 0xE000..=0xFFFD | 0x10000..=0x10FFFF)) {
        return Err(format!("XML not well-formed: the character U+{:04X} is not allowed in an XML 1.0 document", c as u32));
    }
    let mut rd = Reader::from_str(xml);
    rd.check_end_names(true);
    let mut j = Junit { cases: vec![], tests_attr: None, failures_attr: None, errors_attr: None };
    let mut depth = 0i32;
    let mut cur: Option<(String, &'static str)> = None;
    let attr = |e: &quick_xml::events::BytesStart, k: &str| -> Option<String> {
        e.attributes().flatten().find(|a| a.key.as_ref() == k.as_bytes()).and_then(|a| a.unescape_value().ok().map(|v| v.to_string()))
    };
    loop {
        match rd.read_event() {
            Err(e) => return Err(format!("XML not well-formed: {}", e)),
            Ok(Event::Eof) => break,
            Ok(Event::Start(e)) | Ok(Event::Empty(e)) if false => {
                let _ = e;
            }
            Ok(ev) => {
                let (is_start, is_empty, e) = match &ev {
                    Event::Start(e) => (true, false, Some(e.clone())),
                    Event::Empty(e) => (true, true, Some(e.clone())),
                    _ => (false, false, None),
                };
                if let Event::Text(t) = &ev {
                    // character data: `<` and a `&` that does not begin a reference are not allowed
                    if let Err(err) = t.unescape() {
                        return Err(format!("XML not well-formed: character data {:?}: {}", String::from_utf8_lossy(t.as_ref()).chars().take(80).collect::<String>(), err));
                    }
                }
                if is_start {
                    let e = e.unwrap();
                    for a in e.attributes() {
                        match a {
                            Err(err) => return Err(format!("XML not well-formed: attribute: {}", err)),
                            Ok(a) => {
                                if let Err(err) = a.unescape_value() {
                                    return Err(format!("XML not well-formed: attribute value {:?}: {}", String::from_utf8_lossy(&a.value).chars().take(80).collect::<String>(), err));
                                }
                                if a.value.contains(&b'<') {
                                    return Err("XML not well-formed: `<` in an attribute value".into());
                                }
                            }
                        }
                    }
                    let name = String::from_utf8_lossy(e.name().as_ref()).to_string();
                    match name.as_str() {
                        "testsuites" => {
                            j.tests_attr = attr(&e, "tests").and_then(|s| s.parse().ok());
                            j.failures_attr = attr(&e, "failures").and_then(|s| s.parse().ok());
                            j.errors_attr = attr(&e, "errors").and_then(|s| s.parse().ok());
                        }
                        "testcase" => {
                            let mark = match attr(&e, "status").as_deref() {
                                Some("skip") | Some("skipped") => "skip",
                                _ => "pass",
                            };
                            let c = (attr(&e, "name").unwrap_or_default(), mark);
                            if is_empty {
                                j.cases.push(c);
                            } else {
                                cur = Some(c);
                            }
                        }
                        "failure" => {
                            if let Some(c) = &mut cur {
                                c.1 = "fail";
                            }
                        }
                        "error" => {
                            if let Some(c) = &mut cur {
                                c.1 = "error";
                            }
                        }
                        "skipped" => {
                            if let Some(c) = &mut cur {
                                c.1 = "skip";
                            }
                        }
                        _ => {}
                    }
                    if !is_empty {
                        depth += 1;
                    }
                } else if let Event::End(e) = &ev {
                    depth -= 1;
                    if e.name().as_ref() == b"testcase" {
                        if let Some(c) = cur.take() {
                            j.cases.push(c);
                        }
                    }
                }
            }
        }
    }
    if depth != 0 {
        return Err("XML not well-formed: unbalanced elements".into());
    }
    Ok(j)
}

fn json_docs(txt: &str) -> Result<Vec<J>, String> {
    // plain `-o json` prints one pretty JSON document per (rules, data) pair
    let mut out = vec![];
    let de = serde_json::Deserializer::from_str(txt).into_iter::<J>();
    for v in de {
        out.push(v.map_err(|e| format!("output is not JSON: {}", e))?);
    }
    Ok(out)
}

fn record_from_mixed(out: &str) -> Result<J, String> {
    // `-p` prints the console report first, then the record; the record starts at the first
    // line that is exactly "{"
    let txt = strip_ansi(out);
    let mut pos = None;
    let mut off = 0;
    for line in txt.split_inclusive('\n') {
        if line.trim_end() == "{" {
            pos = Some(off);
            break;
        }
        off += line.len();
    }
    let p = pos.ok_or("no JSON record in the -p output")?;
    let mut de = serde_json::Deserializer::from_str(&txt[p..]).into_iter::<J>();
    de.next().ok_or("empty record")?.map_err(|e| format!("-p record is not JSON: {}", e))
}

fn agree(reference: &Obs, o: &Obs, what: &str) -> Result<(), String> {
    let cmp = |a: &Option<BTreeSet<String>>, b: &Option<BTreeSet<String>>, k: &str| -> Result<(), String> {
        if let (Some(a), Some(b)) = (a, b) {
            if a != b {
                return Err(format!("{}: {} rules are {:?} but the evaluation record says {:?}", what, k, b, a));
            }
        }
        Ok(())
    };
    cmp(&reference.pass, &o.pass, "PASS")?;
    cmp(&reference.fail, &o.fail, "FAIL")?;
    cmp(&reference.skip, &o.skip, "SKIP")?;
    if let (Some(a), Some(b)) = (reference.file, o.file) {
        if a != b {
            return Err(format!("{}: file status {} but the evaluation record says {}", what, b.text(), a.text()));
        }
    }
    Ok(())
}

thread_local! {
    static TOLERATE_F42: std::cell::Cell<bool> = std::cell::Cell::new(false);
    static SAW_F42: std::cell::Cell<bool> = std::cell::Cell::new(false);
}

/// The predicate: every configuration reports the verdict of the evaluation record.
pub fn check_all(doc: &str, rules: &str, evals: &mut u64) -> Result<Option<(Obs, usize)>, (String, String)> {
    let e = |m: String, s: &str| (m, s.to_string());
    // reference: library verbose record
    *evals += 1;
    let (v, _rec) = verdict(doc, rules);
    let reference = match &v {
        Verdict::Ok { rules: rs, file } => {
            let mut o = Obs { pass: Some(BTreeSet::new()), fail: Some(BTreeSet::new()), skip: Some(BTreeSet::new()), file: Some(*file) };
            for (n, s) in rs {
                match s {
                    St::Pass => o.pass.as_mut().unwrap().insert(last_seg(n)),
                    St::Fail => o.fail.as_mut().unwrap().insert(last_seg(n)),
                    St::Skip => o.skip.as_mut().unwrap().insert(last_seg(n)),
                };
            }
            o
        }
        Verdict::EvalErr(_) => return Ok(None),
        Verdict::ParseErr(x) => return Err(e(format!("generator-invalid: {}", x), "c07:generator-invalid")),
        Verdict::Panic(p) => return Err(e(format!("panic {}", p), &format!("panic:{}", p.split(' ').next().unwrap_or("")))),
    };
    let want_code = if reference.file == Some(St::Fail) { 19 } else { 0 };
    let dir = fresh_dir("c07");
    let rp = dir.join("r.guard");
    let dp = dir.join("d.json");
    write_file(&rp, rules);
    write_file(&dp, doc);
    let rps = vec![rp.to_string_lossy().to_string()];
    let dps = vec![dp.to_string_lossy().to_string()];
    let mut configs = 0usize;
    let mut run = |what: &str, r: Run, evals: &mut u64| -> Result<Run, (String, String)> {
        *evals += 1;
        if let Some(p) = &r.panic {
            return Err((format!("{}: panic {}", what, p), format!("panic:{}", p.split(' ').next().unwrap_or(""))));
        }
        if r.code != Ok(want_code) {
            return Err((format!("{}: exit code {:?}, expected {} (file status {:?})", what, r.code, want_code, reference.file.map(|s| s.text())), "c07:exit-code".into()));
        }
        Ok(r)
    };
    let m = |x: Result<(), String>, sig: &str| x.map_err(|m| (m, sig.to_string()));
    // ---- console summary table, all -S selections, with and without -v
    for (shown, verbose) in [
        (vec![Show::All], false),
        (vec![Show::All], true),
        (vec![Show::Pass], false),
        (vec![Show::Fail], false),
        (vec![Show::Skip], false),
        (vec![Show::Pass, Show::Fail], false),
        (vec![Show::None], false),
    ] {
        let mut o = VOpts::plain(Fmt::Single, shown.clone());
        o.verbose = verbose;
        let what = format!("console {}", o.argv().join(" "));
        let r = run(&what, validate_files(&rps, &dps, &[], &o, ""), evals)?;
        configs += 1;
        if shown != vec![Show::None] {
            let obs = parse_table(&r.out, &shown).map_err(|x| (format!("{}: {}", what, x), "c07:table".to_string()))?;
            // recorded finding F42 (duplicated rule names only): the table drops a name from SKIP
            // when another definition of it is PASS or FAIL. Where the caller asks for it, exactly
            // that pattern is noted and the remaining comparisons go on.
            let mut table_ref = reference.clone();
            if TOLERATE_F42.with(|t| t.get()) {
                if let (Some(rs), Some(os)) = (&reference.skip, &obs.skip) {
                    let other: BTreeSet<String> = reference.pass.clone().unwrap_or_default().union(&reference.fail.clone().unwrap_or_default()).cloned().collect();
                    let f42: BTreeSet<String> = rs.difference(&other).cloned().collect();
                    if *os != *rs && *os == f42 {
                        SAW_F42.with(|t| t.set(true));
                        table_ref.skip = Some(f42);
                    }
                }
            }
            m(agree(&table_ref, &obs, &what), "c07:table")?;
        }
    }
    // ---- plain -o json / -o yaml (one document per pair), and equality of the two as data
    let rj = run("plain -o json", validate_files(&rps, &dps, &[], &VOpts::plain(Fmt::Json, vec![Show::None]), ""), evals)?;
    let docs = json_docs(&rj.out).map_err(|x| (format!("plain -o json: {}", x), "c07:json".to_string()))?;
    if docs.len() != 1 {
        return Err(e(format!("plain -o json printed {} documents for one pair", docs.len()), "c07:json"));
    }
    m(agree(&reference, &obs_from_report(&docs[0]).map_err(|x| (x, "c07:json".to_string()))?, "plain -o json"), "c07:json")?;
    let ry = run("plain -o yaml", validate_files(&rps, &dps, &[], &VOpts::plain(Fmt::Yaml, vec![Show::None]), ""), evals)?;
    let yv: J = serde_yaml::from_str(&ry.out).map_err(|x| (format!("plain -o yaml is not YAML: {}", x), "c07:yaml".to_string()))?;
    if yv != docs[0] {
        return Err(e("plain -o yaml and -o json denote different data".into(), "c07:yaml-vs-json"));
    }
    configs += 2;
    // ---- -p record
    let mut op = VOpts::plain(Fmt::Single, vec![Show::None]);
    op.print_json = true;
    let rp_ = run("console -p", validate_files(&rps, &dps, &[], &op, ""), evals)?;
    let rec = record_from_mixed(&rp_.out).map_err(|x| (x, "c07:print-json".to_string()))?;
    let (rs, fs) = record_verdict(&rec).ok_or(e("-p record has no FileCheck".into(), "c07:print-json"))?;
    let mut o = Obs { pass: Some(BTreeSet::new()), fail: Some(BTreeSet::new()), skip: Some(BTreeSet::new()), file: Some(fs) };
    for (n, s) in rs {
        match s {
            St::Pass => o.pass.as_mut().unwrap().insert(last_seg(&n)),
            St::Fail => o.fail.as_mut().unwrap().insert(last_seg(&n)),
            St::Skip => o.skip.as_mut().unwrap().insert(last_seg(&n)),
        };
    }
    m(agree(&reference, &o, "console -p record"), "c07:print-json")?;
    configs += 1;
    // ---- structured json / yaml over three entry points
    let mut leaf_checks = 0usize;
    for entry in ["files", "stdin", "payload"] {
        let runit = |o: &VOpts| -> Run {
            match entry {
                "files" => validate_files(&rps, &dps, &[], o, ""),
                "stdin" => validate_files(&rps, &[], &[], o, doc),
                _ => validate_payload(&[rules.to_string()], &[doc.to_string()], &[], o),
            }
        };
        let what = format!("--structured -o json ({})", entry);
        let r = run(&what, runit(&VOpts::structured(Fmt::Json)), evals)?;
        let j: J = serde_json::from_str(&r.out).map_err(|x| (format!("{}: not JSON: {}", what, x), "c07:json".to_string()))?;
        let arr = j.as_array().ok_or(e(format!("{}: not an array", what), "c07:json"))?;
        if arr.len() != 1 {
            return Err(e(format!("{}: {} reports", what, arr.len()), "c07:json"));
        }
        m(agree(&reference, &obs_from_report(&arr[0]).map_err(|x| (x, "c07:json".to_string()))?, &what), "c07:json")?;
        if entry == "files" {
            leaf_checks = arr[0]["not_compliant"].as_array().map(|a| a.iter().map(|e| count_leaf_checks(&e["Rule"]["checks"])).sum()).unwrap_or(0);
        }
        let whaty = format!("--structured -o yaml ({})", entry);
        let ry = run(&whaty, runit(&VOpts::structured(Fmt::Yaml)), evals)?;
        let yv: J = serde_yaml::from_str(&ry.out).map_err(|x| (format!("{}: not YAML: {}", whaty, x), "c07:yaml".to_string()))?;
        if yv != j {
            return Err(e(format!("{} and the JSON of the same run denote different data", whaty), "c07:yaml-vs-json"));
        }
        configs += 2;
        // plain-mode summary through the same entry
        if entry != "files" {
            let o = VOpts::plain(Fmt::Single, vec![Show::All]);
            let what = format!("console -S all ({})", entry);
            let r = run(&what, runit(&o), evals)?;
            let obs = parse_table(&r.out, &[Show::All]).map_err(|x| (format!("{}: {}", what, x), "c07:table".to_string()))?;
            m(agree(&reference, &obs, &what), "c07:table")?;
            configs += 1;
        }
    }
    // ---- junit
    let rj = run("--structured -o junit", validate_files(&rps, &dps, &[], &VOpts::structured(Fmt::Junit), ""), evals)?;
    let ju = parse_junit(&rj.out).map_err(|x| (format!("junit: {}", x), "c07:junit".to_string()))?;
    if ju.cases.len() != 1 {
        return Err(e(format!("junit: {} testcases for one (rules, data) pair", ju.cases.len()), "c07:junit"));
    }
    let want_mark = match reference.file {
        Some(St::Fail) => "fail",
        Some(St::Skip) => "skip",
        _ => "pass",
    };
    if ju.cases[0].1 != want_mark {
        return Err(e(format!("junit: testcase marked {} but the file status is {:?}", ju.cases[0].1, reference.file.map(|s| s.text())), "c07:junit"));
    }
    let nf = ju.cases.iter().filter(|c| c.1 == "fail").count();
    let ne = ju.cases.iter().filter(|c| c.1 == "error").count();
    if ju.tests_attr != Some(ju.cases.len()) || ju.failures_attr != Some(nf) || ju.errors_attr != Some(ne) {
        return Err(e(format!("junit counters tests={:?} failures={:?} errors={:?} but the marks give {}/{}/{}", ju.tests_attr, ju.failures_attr, ju.errors_attr, ju.cases.len(), nf, ne), "c07:junit"));
    }
    // ---- sarif
    let rs_ = run("--structured -o sarif", validate_files(&rps, &dps, &[], &VOpts::structured(Fmt::Sarif), ""), evals)?;
    let sj: J = serde_json::from_str(&rs_.out).map_err(|x| (format!("sarif: not JSON: {}", x), "c07:sarif".to_string()))?;
    if !sj["$schema"].is_string() || !sj["version"].is_string() || !sj["runs"][0]["tool"]["driver"].is_object() {
        return Err(e("sarif: missing $schema / version / runs[0].tool.driver".into(), "c07:sarif"));
    }
    let nres = sj["runs"][0]["results"].as_array().map(|a| a.len()).ok_or(e("sarif: no results array".into(), "c07:sarif"))?;
    if nres != leaf_checks {
        return Err(e(format!("sarif: {} results but the JSON report lists {} failing checks", nres, leaf_checks), "c07:sarif-count"));
    }
    configs += 2;
    // ---- library, non-verbose
    *evals += 1;
    match run_checks(doc, rules, false) {
        Lib::Ok(s) => {
            let j: J = serde_json::from_str(&s).map_err(|x| (format!("run_checks(verbose=false): not JSON ({} bytes): {}", s.len(), x), "c07:lib-json".to_string()))?;
            m(agree(&reference, &obs_from_report(&j).map_err(|x| (x, "c07:lib-json".to_string()))?, "run_checks(verbose=false)"), "c07:lib-json")?;
        }
        other => return Err(e(format!("run_checks(verbose=false) failed: {:?}", other), "c07:lib-json")),
    }
    configs += 1;
    Ok(Some((reference, configs)))
}

// ------------------------------------------------------------------------------------------------
// stage: the ways a document can arrive (file, stdin, --payload) on texts whose reading is not
// obvious - whatever the reading is, it is the same for all of them

const ENTRY_TEXTS: [&str; 10] = [
    "{\"x\": -0, \"y\": 1}",
    "{\"x\": 1, \"x\": 2, \"y\": 1}",
    "{\"x\": 18446744073709551615, \"y\": 1}",
    "{\"x\": 1e400, \"y\": 1}",
    "{\"x\": 1.0, \"y\": 1}",
    "{\"x\": 0.18731771569502986, \"y\": 1}",
    "{\"x\": \"\\ud83d\\ude00\", \"y\": 1}",
    "{\"x\": 9223372036854775808, \"y\": 1}",
    "x: -0\ny: 1\n",
    "x: 0x1F\ny: 1\n",
];
const ENTRY_RULES: &str = "rule xint {\n  x is_int\n}\nrule xfloat {\n  x is_float\n}\nrule xstr {\n  x is_string\n}\nrule xnonneg {\n  x >= 0\n}\nrule xfrac {\n  x == 0.18731771569502986\n}\nrule yone {\n  y == 1\n}\n";

fn entry_case(i: usize) -> CaseResult {
    let text = ENTRY_TEXTS[i % ENTRY_TEXTS.len()];
    let case = json!({"kind": "entry", "index": i});
    let dir = fresh_dir("c07e");
    let rp = dir.join("r.guard");
    let dp = dir.join("d.json");
    write_file(&rp, ENTRY_RULES);
    write_file(&dp, text);
    let (rps, dps) = (vec![rp.to_string_lossy().to_string()], vec![dp.to_string_lossy().to_string()]);
    let mut evals = 0;
    let mut seen: Vec<(String, String)> = vec![];
    for structured in [false, true] {
        let o = if structured { VOpts::structured(Fmt::Json) } else { VOpts::plain(Fmt::Single, vec![Show::All]) };
        for via in ["file", "stdin", "payload"] {
            evals += 1;
            let r = match via {
                "file" => validate_files(&rps, &dps, &[], &o, ""),
                "stdin" => validate_files(&rps, &[], &[], &o, text),
                _ => validate_payload(&[ENTRY_RULES.to_string()], &[text.to_string()], &[], &o),
            };
            if let Some(p) = &r.panic {
                return CaseResult::Fail(Failure { msg: format!("{}: panic {}", via, p), sig: format!("panic:{}", p.split(' ').next().unwrap_or("")), case });
            }
            // what was decided: error or the verdict sets
            let outcome = match &r.code {
                Ok(c @ (0 | 19)) => {
                    let obs = if structured { serde_json::from_str::<J>(&r.out).map_err(|e| e.to_string()).and_then(|j| obs_from_report(&j[0])) } else { parse_table(&r.out, &[Show::All]) };
                    match obs {
                        Ok(o) => format!("exit {} PASS {:?} FAIL {:?} SKIP {:?}", c, o.pass, o.fail, o.skip),
                        Err(e) => return CaseResult::Fail(Failure { msg: format!("{} ({}): {}", via, if structured { "structured" } else { "console" }, e), sig: "c07:entry:parse".into(), case }),
                    }
                }
                Ok(c) => format!("exit {}", c),
                Err(_) => "error".to_string(),
            };
            seen.push((format!("{}{}", via, if structured { " --structured" } else { "" }), outcome));
        }
    }
    if let Some((w, o)) = seen.iter().find(|(_, o)| *o != seen[0].1) {
        return CaseResult::Fail(Failure {
            msg: format!("the document {:?} is decided differently depending on how it arrives: {} gives {} but {} gives {}", text, seen[0].0, seen[0].1, w, o),
            sig: "c07:entry-point-differs".into(),
            case,
        });
    }
    CaseResult::Pass(Info { nontrivial: true, key: hash_case(&[text]), classes: vec![format!("entry:{}", seen[0].1.split(' ').take(2).collect::<Vec<_>>().join(" "))], evals, sample: Some(json!({"text": text, "outcome": seen[0].1})) })
}

pub fn replay(case: &J) -> CaseResult {
    let mut ev = 0;
    if case["kind"] == "entry" {
        return entry_case(case["index"].as_u64().unwrap_or(0) as usize);
    }
    if case["kind"] == "duplicate-names" {
        TOLERATE_F42.with(|t| t.set(true));
        SAW_F42.with(|t| t.set(false));
        let r = check_all(case["doc"].as_str().unwrap_or(""), case["rules"].as_str().unwrap_or(""), &mut ev);
        TOLERATE_F42.with(|t| t.set(false));
        return match r {
            Err((msg, sig)) => CaseResult::Fail(Failure { msg, sig: format!("c07:duplicate-names:{}", sig.trim_start_matches("c07:")), case: case.clone() }),
            Ok(_) if SAW_F42.with(|t| t.get()) => CaseResult::Fail(Failure { msg: "the console summary table drops a doubly defined name from the SKIP list".into(), sig: "c07:duplicate-names:table".into(), case: case.clone() }),
            Ok(_) => CaseResult::Pass(Info::default()),
        };
    }
    if case["kind"] == "multi-data" {
        let docs: Vec<String> = case["docs"].as_array().map(|a| a.iter().map(|x| x.as_str().unwrap_or("").to_string()).collect()).unwrap_or_default();
        return match check_multi_data(case["rules"].as_str().unwrap_or(""), &docs, &mut ev) {
            Ok(_) => CaseResult::Pass(Info::default()),
            Err((msg, sig)) => CaseResult::Fail(Failure { msg, sig, case: case.clone() }),
        };
    }
    if case["kind"] == "multi" {
        let files: Vec<String> = case["rules_files"].as_array().map(|a| a.iter().map(|x| x.as_str().unwrap_or("").to_string()).collect()).unwrap_or_default();
        return match check_multi(case["doc"].as_str().unwrap_or(""), &files, &mut ev) {
            Ok(_) => CaseResult::Pass(Info::default()),
            Err((msg, sig)) => CaseResult::Fail(Failure { msg, sig, case: case.clone() }),
        };
    }
    match check_all(case["doc"].as_str().unwrap_or(""), case["rules"].as_str().unwrap_or(""), &mut ev) {
        Ok(_) => CaseResult::Pass(Info::default()),
        Err((msg, sig)) => CaseResult::Fail(Failure { msg, sig, case: case.clone() }),
    }
}

fn finish(doc_text: String, text: String, r: Result<Option<(Obs, usize)>, (String, String)>, evals: u64, extra: Vec<String>) -> CaseResult {
    match r {
        Ok(None) => CaseResult::Discard("evaluation-error"),
        Ok(Some((o, configs))) => {
            let nf = o.fail.as_ref().map_or(0, |s| s.len());
            let nother = o.pass.as_ref().map_or(0, |s| s.len()) + o.skip.as_ref().map_or(0, |s| s.len());
            let mut classes = vec![format!("file:{}", o.file.map_or("?", |s| s.text())), format!("configs:{}", configs)];
            classes.extend(extra);
            CaseResult::Pass(Info {
                nontrivial: nf >= 1 && nother >= 1,
                key: hash_case(&[&doc_text, &text]),
                classes,
                evals,
                sample: Some(json!({"doc": doc_text.chars().take(400).collect::<String>(), "rules": text, "configurations": configs})),
            })
        }
        Err((msg, sig)) => CaseResult::Fail(Failure { msg, sig, case: json!({"doc": doc_text, "rules": text}) }),
    }
}

fn random_case(u: &mut Choices, sz: Size) -> CaseResult {
    let mut doc = gen_cfn_doc(u, &sz);
    let msgs = u.chance(1, 2);
    let file = gen_wide_file(u, &doc, sz, msgs);
    let mut text = print_file(&file);
    // one case in six: a failing value that holds markup and control characters (it is quoted in
    // every report: the structured renderings must stay well formed)
    if u.chance(1, 6) {
        let nasty = *u.pick(&["a\u{1}<b ]]> & \u{b}", "<![CDATA[ x ]]> \u{1b}[31m", "\"quoted\" 'single' \u{8}", "tab\there\nnewline \u{1f}", "Research & Development", "a &amp b &#x; &lt;tag attr=\"v\"&gt; &", "x < y && y > z"]);
        if let V::Map(m) = &mut doc {
            m.push(("ctl".into(), V::s(nasty)));
        }
        text.push_str(if u.chance(1, 2) { "rule zctl {\n  ctl == 2 <<zctl message>>\n}\n" } else { "rule zctl {\n  ctl == 2 <<zctl & \"message\" <b> a&b;>>\n}\n" });
    }
    let doc_text = doc.to_json();
    let mut evals = 0;
    let r = check_all(&doc_text, &text, &mut evals);
    finish(doc_text, text, r, evals, vec![])
}

/// a rule name defined twice (legal: the test command has a rule for it): the renderings must
/// still agree on which names are PASS / FAIL / SKIP
fn duplicate_names_case(u: &mut Choices, sz: Size) -> CaseResult {
    let doc = gen_cfn_doc(u, &sz);
    let mut file = gen_wide_file(u, &doc, sz, false);
    if file.rules.len() < 2 {
        return CaseResult::Discard("fewer-than-two-rules");
    }
    // the later definition takes the name of an earlier one; references to the old name follow
    let i = u.below(file.rules.len() - 1);
    let j = u.range(i + 1, file.rules.len() - 1);
    let (old, new) = (file.rules[j].name.clone(), file.rules[i].name.clone());
    file.rules[j].name = new.clone();
    let text = print_file(&file);
    if text.lines().any(|l| l.trim() == old || l.trim() == format!("not {}", old) || l.contains(&format!("when {}", old))) {
        return CaseResult::Discard("renamed-rule-is-referenced");
    }
    let doc_text = doc.to_json();
    let mut evals = 0;
    // the console table against the evaluation record, set by set. Recorded finding F42 is exactly
    // this: a name with a PASS or FAIL definition is dropped from the table's SKIP list. Anything
    // else (a FAIL definition missing from the FAILED list, ..) is not that finding.
    evals += 1;
    if let (Verdict::Ok { rules: rs, .. }, _) = verdict(&doc_text, &text) {
        let set = |st: St| -> BTreeSet<String> { rs.iter().filter(|(_, s)| *s == st).map(|(n, _)| last_seg(n)).collect() };
        let (rp, rf, rsk) = (set(St::Pass), set(St::Fail), set(St::Skip));
        evals += 1;
        let t = validate_payload(&[text.clone()], &[doc_text.clone()], &[], &VOpts::plain(Fmt::Single, vec![Show::All]));
        if let Ok(o) = parse_table(&strip_ansi(&t.out), &[Show::All]) {
            let (tp, tf, tsk) = (o.pass.clone().unwrap_or_default(), o.fail.clone().unwrap_or_default(), o.skip.clone().unwrap_or_default());
            let f42: BTreeSet<String> = rsk.iter().filter(|n| !rp.contains(*n) && !rf.contains(*n)).cloned().collect();
            if tp != rp || tf != rf || (tsk != rsk && tsk != f42) {
                return CaseResult::Fail(Failure {
                    msg: format!("rule name {} defined twice: console table PASS {:?} FAIL {:?} SKIP {:?}, evaluation record PASS {:?} FAIL {:?} SKIP {:?}", new, tp, tf, tsk, rp, rf, rsk),
                    sig: "c07:duplicate-names:table-sets".into(),
                    case: json!({"kind": "duplicate-names", "doc": doc_text, "rules": text}),
                });
            }
        }
    }
    // every other rendering is compared too; the F42 pattern in the tables is noted, not fatal
    TOLERATE_F42.with(|t| t.set(true));
    SAW_F42.with(|t| t.set(false));
    let r = check_all(&doc_text, &text, &mut evals).map_err(|(m, sg)| (format!("rule name {} defined twice: {}", new, m), format!("c07:duplicate-names:{}", sg.trim_start_matches("c07:"))));
    TOLERATE_F42.with(|t| t.set(false));
    if r.is_ok() && SAW_F42.with(|t| t.get()) {
        return CaseResult::Fail(Failure {
            msg: format!("rule name {} defined twice: the console summary table drops it from the SKIP list because another definition is PASS or FAIL; JSON, YAML and the evaluation record list it under both", new),
            sig: "c07:duplicate-names:table".into(),
            case: json!({"kind": "duplicate-names", "doc": doc_text, "rules": text}),
        });
    }
    finish(doc_text, text, r, evals, vec!["duplicate-rule-name".into()])
}

/// several rules files against one data file: the union of the PASS / FAIL / SKIP sets must be the
/// same in every rendering (the structured reporter merges the per-file reports, the plain ones
/// print one report per pair)
pub fn check_multi(doc: &str, files: &[String], evals: &mut u64) -> Result<Option<Obs>, (String, String)> {
    let e = |m: String, s: &str| (m, s.to_string());
    let mut reference = Obs { pass: Some(BTreeSet::new()), fail: Some(BTreeSet::new()), skip: Some(BTreeSet::new()), file: None };
    let mut file_sts = vec![];
    for f in files {
        *evals += 1;
        match verdict(doc, f).0 {
            Verdict::Ok { rules, file } => {
                file_sts.push(file);
                for (n, s) in rules {
                    match s {
                        St::Pass => reference.pass.as_mut().unwrap().insert(last_seg(&n)),
                        St::Fail => reference.fail.as_mut().unwrap().insert(last_seg(&n)),
                        St::Skip => reference.skip.as_mut().unwrap().insert(last_seg(&n)),
                    };
                }
            }
            Verdict::EvalErr(_) => return Ok(None),
            Verdict::ParseErr(x) => return Err(e(format!("generator-invalid: {}", x), "c07:generator-invalid")),
            Verdict::Panic(p) => return Err(e(format!("panic {}", p), &format!("panic:{}", p.split(' ').next().unwrap_or("")))),
        }
    }
    let want_code = if file_sts.iter().any(|s| *s == St::Fail) { 19 } else { 0 };
    let dir = fresh_dir("c07m");
    let mut rps = vec![];
    for (i, f) in files.iter().enumerate() {
        // a third of the runs: every rules file has the same base name, in a directory of its own
        let p = if doc.len() % 3 == 0 { dir.join(format!("t{}/policy.guard", i)) } else { dir.join(format!("r{}.guard", i)) };
        write_file(&p, f);
        rps.push(p.to_string_lossy().to_string());
    }
    let dp = dir.join("d.json");
    write_file(&dp, doc);
    let dps = vec![dp.to_string_lossy().to_string()];
    let union = |obs: Vec<Obs>| -> Obs {
        let mut o = Obs { pass: Some(BTreeSet::new()), fail: Some(BTreeSet::new()), skip: Some(BTreeSet::new()), file: None };
        for x in obs {
            o.pass.as_mut().unwrap().extend(x.pass.unwrap_or_default());
            o.fail.as_mut().unwrap().extend(x.fail.unwrap_or_default());
            o.skip.as_mut().unwrap().extend(x.skip.unwrap_or_default());
        }
        o
    };
    let m = |x: Result<(), String>, sig: &str| x.map_err(|m| (m, sig.to_string()));
    // console: one table per pair; the union of all tables
    *evals += 1;
    let r = validate_files(&rps, &dps, &[], &VOpts::plain(Fmt::Single, vec![Show::All]), "");
    if r.code != Ok(want_code) {
        return Err(e(format!("multi-file console: exit {:?}, expected {}", r.code, want_code), "c07:multi:exit-code"));
    }
    let mut tables = vec![];
    let txt = strip_ansi(&r.out);
    let mut cur = String::new();
    for line in txt.lines() {
        if line.contains(" Status = ") && !cur.is_empty() {
            tables.push(std::mem::take(&mut cur));
        }
        cur.push_str(line);
        cur.push('\n');
    }
    tables.push(cur);
    let obs: Result<Vec<Obs>, String> = tables.iter().map(|t| parse_table(t, &[Show::All])).collect();
    m(agree(&reference, &union(obs.map_err(|x| (x, "c07:multi:table".to_string()))?), "multi-file console -S all"), "c07:multi:table")?;
    // plain -o json: one document per pair
    *evals += 1;
    let r = validate_files(&rps, &dps, &[], &VOpts::plain(Fmt::Json, vec![Show::None]), "");
    let docs = json_docs(&r.out).map_err(|x| (format!("multi-file plain -o json: {}", x), "c07:multi:json".to_string()))?;
    if docs.len() != files.iter().filter(|f| !f.trim().is_empty()).count() {
        return Err(e(format!("multi-file plain -o json printed {} documents for {} rules files", docs.len(), files.len()), "c07:multi:json"));
    }
    let obs: Result<Vec<Obs>, String> = docs.iter().map(obs_from_report).collect();
    m(agree(&reference, &union(obs.map_err(|x| (x, "c07:multi:json".to_string()))?), "multi-file plain -o json"), "c07:multi:json")?;
    // the same through --payload (rules texts instead of files), console and plain -o json
    {
        let nonblank: Vec<String> = files.iter().filter(|f| !f.trim().is_empty()).cloned().collect();
        *evals += 1;
        let r = validate_payload(&nonblank, &[doc.to_string()], &[], &VOpts::plain(Fmt::Json, vec![Show::None]));
        if r.code != Ok(want_code) {
            return Err(e(format!("multi-file --payload -o json: exit {:?}, expected {}", r.code, want_code), "c07:multi:exit-code"));
        }
        let docs = json_docs(&r.out).map_err(|x| (format!("multi-file --payload -o json: {}", x), "c07:multi:json".to_string()))?;
        if docs.len() != nonblank.len() {
            return Err(e(format!("multi-file --payload -o json printed {} documents for {} rules texts", docs.len(), nonblank.len()), "c07:multi:payload"));
        }
        let obs: Result<Vec<Obs>, String> = docs.iter().map(obs_from_report).collect();
        m(agree(&reference, &union(obs.map_err(|x| (x, "c07:multi:payload".to_string()))?), "multi-file --payload -o json"), "c07:multi:payload")?;
        *evals += 1;
        let r = validate_payload(&nonblank, &[doc.to_string()], &[], &VOpts::plain(Fmt::Single, vec![Show::All]));
        if r.code != Ok(want_code) {
            return Err(e(format!("multi-file --payload console: exit {:?}, expected {}", r.code, want_code), "c07:multi:exit-code"));
        }
        let n_tables = strip_ansi(&r.out).lines().filter(|l| l.contains(" Status = ")).count();
        if n_tables != nonblank.len() {
            return Err(e(format!("multi-file --payload console printed {} summary tables for {} rules texts", n_tables, nonblank.len()), "c07:multi:payload"));
        }
    }
    // structured json / yaml: one merged report
    for fmt in [Fmt::Json, Fmt::Yaml] {
        *evals += 1;
        let r = validate_files(&rps, &dps, &[], &VOpts::structured(fmt), "");
        if r.code != Ok(want_code) {
            return Err(e(format!("multi-file --structured -o {}: exit {:?}, expected {}", fmt.flag(), r.code, want_code), "c07:multi:exit-code"));
        }
        let j: J = if fmt == Fmt::Json { serde_json::from_str(&r.out).map_err(|x| (format!("not JSON: {}", x), "c07:multi:json".to_string()))? } else { serde_yaml::from_str(&r.out).map_err(|x| (format!("not YAML: {}", x), "c07:multi:yaml".to_string()))? };
        let o = obs_from_report(&j[0]).map_err(|x| (x, "c07:multi:structured".to_string()))?;
        m(agree(&reference, &Obs { file: None, ..o }, &format!("multi-file --structured -o {}", fmt.flag())), "c07:multi:structured")?;
    }
    // junit: one testcase per rules file, marked by that file's status
    *evals += 1;
    let r = validate_files(&rps, &dps, &[], &VOpts::structured(Fmt::Junit), "");
    if r.code != Ok(want_code) {
        return Err(e(format!("multi-file --structured -o junit: exit {:?}, expected {}", r.code, want_code), "c07:multi:exit-code"));
    }
    let ju = parse_junit(&r.out).map_err(|x| (format!("multi-file junit: {}", x), "c07:multi:junit".to_string()))?;
    let want_marks: Vec<&str> = file_sts.iter().map(|s| match s { St::Fail => "fail", St::Skip => "skip", St::Pass => "pass" }).collect();
    let got_marks: Vec<&str> = ju.cases.iter().map(|c| c.1).collect();
    if got_marks != want_marks {
        return Err(e(format!("multi-file junit: testcase marks {:?}, the per-file statuses give {:?}", got_marks, want_marks), "c07:multi:junit"));
    }
    Ok(Some(reference))
}

fn multi_case(u: &mut Choices, sz: Size) -> CaseResult {
    let doc = gen_cfn_doc(u, &sz);
    let doc_text = doc.to_json();
    let k = u.range(2, 3);
    let mut files = vec![];
    for i in 0..k {
        let mut f = gen_wide_file(u, &doc, sz, false);
        prefix_names(&mut f, &format!("f{}", i));
        // some files in which every rule is skipped
        if u.chance(1, 3) {
            for r in f.rules.iter_mut() {
                r.when = Some(vec![vec![Item::Clause(cl_un(q_key(&["nosuchkey"]), UnOp::Exists, false))]]);
            }
        }
        files.push(print_file(&f));
    }
    let mut evals = 0;
    match check_multi(&doc_text, &files, &mut evals) {
        Ok(None) => CaseResult::Discard("evaluation-error"),
        Ok(Some(o)) => CaseResult::Pass(Info {
            nontrivial: !o.fail.as_ref().unwrap().is_empty() && !o.skip.as_ref().unwrap().is_empty(),
            key: hash_case(&[&doc_text, &files.join("\u{1}")]),
            classes: vec![format!("multi-file:{}", k)],
            evals,
            sample: Some(json!({"doc": doc_text, "rules_files": files})),
        }),
        Err((msg, sig)) => CaseResult::Fail(Failure { msg, sig, case: json!({"kind": "multi", "doc": doc_text, "rules_files": files}) }),
    }
}

/// several data files, one rules file: every format gives each data file its status and the run
/// the same exit code
fn check_multi_data(rules: &str, docs: &[String], evals: &mut u64) -> Result<Option<Vec<St>>, (String, String)> {
    let e = |m: String, s: &str| (m, s.to_string());
    let mut sts = vec![];
    for d in docs {
        *evals += 1;
        match verdict(d, rules).0 {
            Verdict::Ok { file, .. } => sts.push(file),
            Verdict::EvalErr(_) => return Ok(None),
            Verdict::ParseErr(x) => return Err(e(format!("generator-invalid: {}", x), "c07:generator-invalid")),
            Verdict::Panic(p) => return Err(e(format!("panic {}", p), &format!("panic:{}", p.split(' ').next().unwrap_or("")))),
        }
    }
    let want_code = if sts.iter().any(|s| *s == St::Fail) { 19 } else { 0 };
    let dir = fresh_dir("c07d");
    let rp = dir.join("r.guard");
    write_file(&rp, rules);
    let rps = vec![rp.to_string_lossy().to_string()];
    let mut dps = vec![];
    for (i, d) in docs.iter().enumerate() {
        let p = dir.join(format!("d{}.json", i));
        write_file(&p, d);
        dps.push(p.to_string_lossy().to_string());
    }
    let want: Vec<&str> = sts.iter().map(|s| s.text()).collect();
    let mut configs: Vec<(String, VOpts)> = vec![
        ("console -S all".into(), VOpts::plain(Fmt::Single, vec![Show::All])),
        ("console -S none".into(), VOpts::plain(Fmt::Single, vec![Show::None])),
        ("plain -o json".into(), VOpts::plain(Fmt::Json, vec![Show::None])),
        ("plain -o yaml".into(), VOpts::plain(Fmt::Yaml, vec![Show::None])),
    ];
    for f in [Fmt::Json, Fmt::Yaml, Fmt::Junit, Fmt::Sarif] {
        configs.push((format!("--structured -o {}", f.flag()), VOpts::structured(f)));
    }
    for (what, o) in &configs {
        *evals += 1;
        let r = validate_files(&rps, &dps, &[], o, "");
        if let Some(p) = &r.panic {
            return Err(e(format!("multi-data {}: panic {}", what, p), &format!("panic:{}", p.split(' ').next().unwrap_or(""))));
        }
        if r.code != Ok(want_code) {
            return Err(e(format!("multi-data {}: exit {:?}, but the data files are {:?}", what, r.code, want), "c07:multi-data:exit-code"));
        }
        if o.structured && matches!(o.fmt, Fmt::Json | Fmt::Yaml) {
            let j: J = if o.fmt == Fmt::Json { serde_json::from_str(&r.out).map_err(|x| e(format!("multi-data {}: not JSON: {}", what, x), "c07:multi-data:parse"))? } else { serde_yaml::from_str(&r.out).map_err(|x| e(format!("multi-data {}: not YAML: {}", what, x), "c07:multi-data:parse"))? };
            let got: Vec<String> = dps.iter().map(|p| j.as_array().and_then(|a| a.iter().find(|r| r["name"].as_str() == Some(p.as_str()))).and_then(|r| r["status"].as_str()).unwrap_or("missing").to_string()).collect();
            if got != want {
                return Err(e(format!("multi-data {}: per-file statuses {:?}, expected {:?}", what, got, want), "c07:multi-data:status"));
            }
        }
        if o.structured && o.fmt == Fmt::Junit {
            let ju = parse_junit(&r.out).map_err(|x| e(format!("multi-data junit: {}", x), "c07:multi-data:junit"))?;
            let fails = ju.cases.iter().filter(|c| c.1 == "fail").count();
            let want_fails = sts.iter().filter(|s| **s == St::Fail).count();
            if fails != want_fails || ju.failures_attr.map_or(false, |f| f != fails) {
                return Err(e(format!("multi-data junit: {} failing testcases, failures attribute {:?}, but {} data files FAIL", fails, ju.failures_attr, want_fails), "c07:multi-data:junit"));
            }
        }
        if !o.structured && o.fmt == Fmt::Single && o.show == vec![Show::All] {
            let txt = strip_ansi(&r.out);
            for (p, w) in dps.iter().zip(&want) {
                let line = format!("{} Status = {}", p, w);
                if !txt.lines().any(|l| l.trim_end() == line) {
                    return Err(e(format!("multi-data console: no line {:?}", line), "c07:multi-data:console"));
                }
            }
        }
    }
    Ok(Some(sts))
}

fn multi_data_case(u: &mut Choices, sz: Size) -> CaseResult {
    let mut doc = gen_cfn_doc(u, &sz);
    let mut sz = sz;
    sz.alt_case = u.chance(1, 3);
    if sz.alt_case {
        add_case_families(u, &mut doc);
    }
    let mut f = gen_wide_file(u, &doc, sz, false);
    // half of the cases: every rule is guarded by a marker key, so that data files without the
    // marker are SKIP whatever else they hold (a failing file is then often followed by a quiet one)
    let guarded = u.chance(1, 2);
    if guarded {
        for r in f.rules.iter_mut() {
            r.when = Some(vec![vec![Item::Clause(cl_un(q_key(&["mk"]), UnOp::Exists, false))]]);
        }
    }
    let rules = print_file(&f);
    let n = u.range(2, 3);
    let mut dvs = vec![doc.clone()];
    for _ in 1..n {
        dvs.push(super::c02::vary_doc(u, &doc, &sz));
    }
    let rot = u.below(n);
    dvs.rotate_left(rot);
    if guarded {
        for d in dvs.iter_mut() {
            if let (V::Map(m), true) = (d, u.chance(1, 2)) {
                m.push(("mk".into(), V::Int(1)));
            }
        }
    }
    let docs: Vec<String> = dvs.iter().map(|d| d.to_json()).collect();
    let mut evals = 0;
    match check_multi_data(&rules, &docs, &mut evals) {
        Ok(None) => CaseResult::Discard("evaluation-error"),
        Ok(Some(sts)) => {
            let last_ok_earlier_fail = sts.last() != Some(&St::Fail) && sts.iter().any(|s| *s == St::Fail);
            CaseResult::Pass(Info {
                nontrivial: sts.iter().collect::<BTreeSet<_>>().len() >= 2,
                key: hash_case(&[&rules, &docs.join("\u{1}")]),
                classes: vec![format!("multi-data:{}", n), format!("multi-data:failing-file-not-last:{}", last_ok_earlier_fail)],
                evals,
                sample: Some(json!({"rules": rules, "docs": docs})),
            })
        }
        Err((msg, sig)) => CaseResult::Fail(Failure { msg, sig, case: json!({"kind": "multi-data", "rules": rules, "docs": docs}) }),
    }
}

/// reports that exceed 8 KiB / 64 KiB (buffer boundaries)
fn big_case(i: usize) -> CaseResult {
    let sizes = [3usize, 10, 12, 40, 100, 300, 700];
    let n = sizes[i % sizes.len()];
    let doc = V::Map(vec![
        ("a".into(), V::Int(1)),
        ("big".into(), V::List((0..n).map(|k| V::Map(vec![("k".into(), V::Int(k as i64 + 1)), ("name".into(), V::s("element"))])).collect())),
    ]);
    let text = "rule big_fail {\n  big[*].k == 0 <<every element fails>>\n}\nrule ok {\n  a == 1\n}\nrule skipped when a == 2 {\n  a == 1\n}\n".to_string();
    let doc_text = doc.to_json();
    let mut evals = 0;
    let r = check_all(&doc_text, &text, &mut evals);
    finish(doc_text, text, r, evals, vec![format!("big:{}", n)])
}

pub fn run(tier: Tier, seed: u64) -> i32 {
    let spec = EvidenceSpec {
        rule: "Random wide programs x CloudFormation-shaped JSON documents, one (rules file, data file) pair per case, rendered in ~27 configurations: console summary table with -S all|pass|fail|skip|pass,fail|none and -v; plain -o json and -o yaml; -p record; --structured -o json|yaml through -r/-d files, data on stdin and --payload (plus the console table through stdin and payload); --structured -o junit and -o sarif; run_checks(verbose=false). From each output the PASS/FAIL/SKIP sets, the file status and the exit code are extracted and must equal those of the library's verbose record; YAML must denote the same data as the JSON of the same run; JUnit must be well-formed with consistent counters and marks; SARIF must have one result per failing leaf check of the JSON report. Stage 'multi-file': 2-3 rules files (a third of them with every rule skipped) against one data file: the union of the PASS/FAIL/SKIP sets and the exit code must be the same in the console tables, plain -o json, --structured json/yaml, and JUnit marks per rules file. Stage 'multi-data': one rules file against 2-3 data files (variants of one another, the failing one often not last): console -S all / none, plain -o json / yaml and --structured json / yaml / junit / sarif must all exit with the same code (19 iff some data file is FAIL in the library's record), structured reports must give each data file its status, JUnit's failing testcases and failures attribute must count the FAIL files, the console must print `<file> Status = <status>` per file. Stage 'big' uses reports of 3..700 failing elements (beyond 8 KiB and 64 KiB). Non-trivial: at least one FAIL rule and one rule of another status; distinct by hash of the texts.".into(),
        assumptions: vec!["only syntactically valid rules files and evaluations without error are compared (a verdict is defined only for those; error exits are judged by C06)".into()],
    };
    execute("C07", tier, seed, spec, &replay, &|run: &Session| {
        run.run_enum("big", 7, big_case);
        run.run_enum("entry-points", ENTRY_TEXTS.len(), entry_case);
        let sz = tier.pick(Size::quick(), Size::thorough());
        run.run_random("multi-file", tier.pick(6_000, 150_000), tier.pick(2500, 4000), |u| multi_case(u, sz));
        run.run_random("multi-data", tier.pick(6_000, 150_000), tier.pick(2000, 3200), |u| multi_data_case(u, sz));
        run.run_random("duplicate-names", tier.pick(1_500, 30_000), tier.pick(1200, 2400), |u| duplicate_names_case(u, sz));
        run.run_random("formats", tier.pick(8_000, 200_000), tier.pick(1200, 2400), |u| random_case(u, sz));
    })
}
