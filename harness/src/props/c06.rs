//! C06 — exit codes of validate and test faithfully encode the outcome.
use crate::choices::Choices;
use crate::drive::*;
use crate::engine::*;
use crate::model::St;
use serde_json::{json, Value as J};

#[derive(Clone, Copy, PartialEq, Debug)]
enum RK {
    Pass,
    Fail,
    Skip,
    Blank,
    Broken,
    EvalErr,
}
#[derive(Clone, Copy, PartialEq, Debug)]
enum DK {
    Compliant,
    NonCompliant,
    /// every guarded rule is SKIP on this document
    NotApplicable,
    Malformed,
    Empty,
}

const NOT_UTF8: &str = "\u{1}not-utf-8\u{1}";

fn rules_text(u: &mut Choices, k: RK, i: usize) -> String {
    match k {
        RK::Pass => [format!("rule ok{} when kind == 'app' {{\n  b == 'x'\n}}\n", i), format!("rule ok{} {{\n  b == 'x'\n}}\n", i), format!("rule ok{}a {{\n  b exists\n}}\nrule ok{}b when zz exists {{\n  a == 1\n}}\n", i, i)][u.below(3)].clone(),
        RK::Fail => [
            format!("rule chk{} when kind == 'app' {{\n  a == 1 <<a must be 1>>\n}}\n", i),
            format!("rule chk{} when kind == 'app' {{\n  a == 1\n}}\nrule other{} when kind == 'app' {{\n  b exists\n}}\n", i, i),
            format!("rule chk{} {{\n  a == 1 <<a must be 1>>\n}}\n", i),
            format!("rule pre{} {{\n  b == 'x'\n}}\nrule chk{} {{\n  a < 2\n}}\nrule post{} when zz exists {{\n  a == 1\n}}\n", i, i, i),
            format!("rule chk{} {{\n  l[*] == 1 or l[*] == 2\n  a == 1\n}}\n", i),
        ][u.below(5)]
        .clone(),
        RK::Skip => format!("rule sk{} when zz exists {{\n  a == 1\n}}\n", i),
        RK::Blank => ["", "# only a comment\n", "\n\n"][u.below(3)].to_string(),
        RK::Broken => [
            format!("rule br{} {{\n  a == 1\n", i),
            format!("rule br{} {{\n  a == \n}}\n", i),
            format!("rule br{} {{\n  a == 1\n}}\n@@ stray\n", i),
            format!("rule {{\n  a == 1\n}}\n"),
            format!("rule br{} {{ a == 'unterminated }}\n", i),
            format!("let x = \nrule br{} {{ a == 1 }}\n", i),
            // a file that is not UTF-8 (the marker is replaced by the bytes ff fe when it is written)
            format!("{} rule br{} {{\n  a == 1\n}}\n", NOT_UTF8, i),
        ][u.below(7)]
        .clone(),
        RK::EvalErr => [
            format!("rule ee{} {{\n  a empty\n}}\n", i),
            format!("rule ee{} {{\n  let v = parse_int(b)\n  %v == 1\n}}\n", i),
            format!("rule ee{} {{\n  %nosuchvar == 1\n}}\n", i),
            // the same inside the constructs that have a status of their own
            format!("rule ee{} {{\n  when kind exists {{\n    %nosuchvar == 1\n  }}\n}}\n", i),
            format!("rule ee{} {{\n  when b exists {{\n    let v = parse_int(b)\n    %v == 1\n  }}\n}}\n", i),
            format!("rule ee{} {{\n  l[*] {{\n    %nosuchvar == 1\n  }}\n}}\n", i),
            format!("rule ee{} {{\n  l[ this == %nosuchvar ] exists\n}}\n", i),
            format!("rule ee{} when %nosuchvar == 1 {{\n  a == 1\n}}\n", i),
            format!("rule dep{} {{\n  %nosuchvar == 1\n}}\nrule ee{} {{\n  dep{}\n}}\n", i, i, i),
            format!("rule f{}(p) {{\n  %nosuchvar == %p\n}}\nrule ee{} {{\n  f{}(a)\n}}\n", i, i, i),
            format!("rule ee{} {{\n  a exists\n  when a exists {{\n    l[*] {{\n      a empty\n    }}\n    l[*] {{\n      when this exists {{\n        %nosuchvar == 1\n      }}\n    }}\n  }}\n}}\n", i),
        ][u.below(11)]
        .clone(),
    }
}
fn data_text(u: &mut Choices, k: DK) -> String {
    match k {
        DK::Compliant => ["{\"kind\":\"app\",\"a\":1,\"b\":\"x\",\"l\":[1,2]}", "kind: app\na: 1\nb: x\nl: [1, 2]\n"][u.below(2)].to_string(),
        DK::NonCompliant => ["{\"kind\":\"app\",\"a\":2,\"b\":\"x\",\"l\":[1,3]}", "kind: app\na: 2\nb: x\nl:\n  - 1\n  - 3\n"][u.below(2)].to_string(),
        DK::NotApplicable => ["{\"kind\":\"other\",\"a\":2,\"b\":\"x\",\"l\":[1,3]}", "kind: other\na: 1\nb: x\nl: [1, 2]\n"][u.below(2)].to_string(),
        DK::Malformed => ["{\"a\": [1, 2", "a: 1\n b: 2\n", "{\"a\": 1}}", "a: 'x\n"][u.below(4)].to_string(),
        DK::Empty => ["", "  \n", "\n"][u.below(3)].to_string(),
    }
}

#[derive(Clone, Debug, PartialEq)]
enum Expect {
    Exact(i32),
    NonZero,
    ErrorNot0Or19,
}
impl Expect {
    fn holds(&self, status: i32) -> bool {
        match self {
            Expect::Exact(c) => status == *c,
            Expect::NonZero => status != 0,
            Expect::ErrorNot0Or19 => status != 0 && status != 19,
        }
    }
    fn text(&self) -> String {
        match self {
            Expect::Exact(c) => format!("{}", c),
            Expect::NonZero => "any non-zero".into(),
            Expect::ErrorNot0Or19 => "an error exit (not 0, not 19)".into(),
        }
    }
}

/// facts established through other code paths: does the rules text parse (parse-tree), and what
/// is the status of each (rules, data) pair alone (library entry point)?
fn expected_validate(rules: &[String], data: &[String], missing: bool) -> (Expect, String) {
    if missing {
        return (Expect::ErrorNot0Or19, "a path does not exist".into());
    }
    let parsed: Vec<bool> = rules.iter().map(|r| parses(r)).collect();
    let mut any_fail = false;
    let mut any_err = false;
    let mut bad_data = false;
    let mut outcomes = vec![];
    for d in data {
        // malformed / empty data
        if d.trim().is_empty() {
            bad_data = true;
            continue;
        }
        let well_formed = serde_yaml::from_str::<serde_yaml::Value>(d).is_ok();
        if !well_formed {
            bad_data = true;
            continue;
        }
        for (r, p) in rules.iter().zip(&parsed) {
            if !*p {
                continue;
            }
            let (v, _) = verdict(d, r);
            match &v {
                // the rules texts named `ee..` raise an evaluation error on every loadable document
                // by construction (an unknown variable, parse_int of "x", `empty` on a number, in a
                // position that is always reached): that fact does not come from the library
                Verdict::Ok { .. } if r.contains("rule ee") => {
                    outcomes.push("ERR (by construction)");
                    any_err = true;
                }
                Verdict::Ok { file, .. } => {
                    outcomes.push(file.text());
                    if *file == St::Fail {
                        any_fail = true;
                    }
                }
                _ => {
                    outcomes.push("ERR");
                    any_err = true
                }
            }
        }
    }
    let why = format!("rules parse {:?}; pair outcomes {:?}; bad data {}", parsed, outcomes, bad_data);
    if bad_data || any_err {
        return (Expect::ErrorNot0Or19, why);
    }
    let any_broken = parsed.iter().any(|p| !p);
    // an unreadable rules file: a parse failure (5) or an error exit, never success
    let unreadable = rules.iter().any(|r| r.contains(NOT_UTF8));
    let e = if unreadable {
        Expect::NonZero
    } else if !any_broken {
        Expect::Exact(if any_fail { 19 } else { 0 })
    } else if any_fail {
        Expect::NonZero
    } else {
        Expect::Exact(5)
    };
    (e, why)
}

const INVOCATIONS: [&str; 10] = ["plain", "structured-json", "structured-yaml", "structured-junit", "structured-sarif", "payload-plain", "payload-structured", "stdin-data", "directories", "missing-path"];

struct VCase {
    rules: Vec<String>,
    data: Vec<String>,
    inv: usize,
    /// every rules file is <dir-i>/policy.guard, every data file <dir-j>/template.<ext>
    same_names: bool,
}

fn argv_and_run(c: &VCase, via_binary: bool) -> (Vec<String>, i32, String) {
    let dir = fresh_dir("c06");
    let mut rpaths = vec![];
    for (i, r) in c.rules.iter().enumerate() {
        let p = if c.same_names { dir.join(format!("rules/t{}/policy.guard", i)) } else { dir.join(format!("rules/r{}.guard", i)) };
        if r.contains(NOT_UTF8) {
            let mut bytes = vec![];
            for (k, part) in r.split(NOT_UTF8).enumerate() {
                if k > 0 {
                    bytes.extend_from_slice(&[0xff, 0xfe]);
                }
                bytes.extend_from_slice(part.as_bytes());
            }
            let _ = std::fs::create_dir_all(p.parent().unwrap());
            std::fs::write(&p, bytes).expect("write scratch file");
        } else {
            write_file(&p, r);
        }
        rpaths.push(p.to_string_lossy().to_string());
    }
    let mut dpaths = vec![];
    for (i, d) in c.data.iter().enumerate() {
        let ext = if d.trim_start().starts_with('{') { "json" } else { "yaml" };
        let p = if c.same_names { dir.join(format!("data/e{}/template.{}", i, ext)) } else { dir.join(format!("data/d{}.{}", i, ext)) };
        write_file(&p, d);
        dpaths.push(p.to_string_lossy().to_string());
    }
    let inv = INVOCATIONS[c.inv];
    let opts = match inv {
        "structured-json" | "payload-structured" => VOpts::structured(Fmt::Json),
        "structured-yaml" => VOpts::structured(Fmt::Yaml),
        "structured-junit" => VOpts::structured(Fmt::Junit),
        "structured-sarif" => VOpts::structured(Fmt::Sarif),
        _ => VOpts::plain(Fmt::Single, vec![Show::All]),
    };
    let (mut rp, mut dp, mut stdin, mut payload) = (rpaths.clone(), dpaths.clone(), String::new(), false);
    match inv {
        "payload-plain" | "payload-structured" => {
            payload = true;
            stdin = payload_json(&c.rules, &c.data);
        }
        "stdin-data" => {
            dp = vec![];
            stdin = c.data[0].clone();
        }
        "directories" => {
            rp = vec![dir.join("rules").to_string_lossy().to_string()];
            dp = vec![dir.join("data").to_string_lossy().to_string()];
        }
        "missing-path" => {
            if c.rules.len() % 2 == 0 {
                rp.push(dir.join("rules/nosuch.guard").to_string_lossy().to_string());
            } else {
                dp.push(dir.join("data/nosuch.json").to_string_lossy().to_string());
            }
        }
        _ => {}
    }
    let mut argv = vec!["validate".to_string()];
    if payload {
        argv.push("--payload".into());
    } else {
        for r in &rp {
            argv.push("-r".into());
            argv.push(r.clone());
        }
        for d in &dp {
            argv.push("-d".into());
            argv.push(d.clone());
        }
    }
    argv.extend(opts.argv());
    if via_binary {
        let p = spawn_tool(&argv, stdin.as_bytes(), &[], None, 30);
        let st = if p.timed_out { -999 } else { p.status.unwrap_or(-(p.signal.unwrap_or(0))) };
        (argv, st, format!("stdout[{}] stderr: {}", p.out.len(), p.err_s().chars().take(300).collect::<String>()))
    } else {
        let r = if payload { validate_payload(&c.rules, &c.data, &[], &opts) } else { validate_files(&rp, &dp, &[], &opts, &stdin) };
        let st = if r.panic.is_some() { 101 } else { r.status() };
        (argv, st, r.brief())
    }
}

fn check_validate(c: &VCase, via_binary: bool) -> Result<(Expect, i32), (String, String)> {
    let inv = INVOCATIONS[c.inv];
    let (exp, why) = expected_validate(&c.rules, &c.data, inv == "missing-path");
    let (argv, st, detail) = argv_and_run(c, via_binary);
    if st == 101 || st < 0 {
        return Err((format!("{}: crashed / killed (status {}): {}", inv, st, detail), format!("c06:crash:{}", inv)));
    }
    if !exp.holds(st) {
        return Err((
            format!("validate [{}] exits {} but the outcome ({}) requires {} ; argv {:?} ; {}", inv, st, why, exp.text(), &argv[1..], detail),
            format!("c06:validate:{}:{}", inv, exp.text().split(' ').next().unwrap_or("")),
        ));
    }
    Ok((exp, st))
}

fn gen_vcase(u: &mut Choices) -> VCase {
    let nr = u.range(1, 3);
    let nd = u.range(1, 3);
    let rk = [RK::Pass, RK::Fail, RK::Skip, RK::Fail, RK::Pass, RK::Blank, RK::Broken, RK::EvalErr];
    let dk = [DK::Compliant, DK::NonCompliant, DK::Compliant, DK::NonCompliant, DK::NotApplicable, DK::NotApplicable, DK::Malformed, DK::Empty];
    let rules: Vec<String> = (0..nr).map(|i| {
        let k = rk[u.below(rk.len())];
        rules_text(u, k, i)
    }).collect();
    let mut data: Vec<String> = (0..nd).map(|_| {
        let k = dk[u.below(dk.len())];
        data_text(u, k)
    }).collect();
    let inv = u.below(INVOCATIONS.len());
    if INVOCATIONS[inv] == "stdin-data" {
        data.truncate(1);
    }
    VCase { rules, data, inv, same_names: u.chance(1, 3) }
}

fn vcase_json(c: &VCase, via_binary: bool) -> J {
    json!({"kind": "validate", "rules": c.rules, "data": c.data, "invocation": INVOCATIONS[c.inv], "via_binary": via_binary, "same_names": c.same_names})
}

fn random_validate(u: &mut Choices, via_binary: bool) -> CaseResult {
    let c = gen_vcase(u);
    match check_validate(&c, via_binary) {
        Ok((exp, st)) => {
            // non-trivial: at least two pairs whose individual outcomes differ (the fold matters)
            let mut outs = std::collections::BTreeSet::new();
            for d in &c.data {
                for r in &c.rules {
                    let o = if !parses(r) { "broken".to_string() } else { verdict(d, r).0.short().split(' ').next().unwrap_or("").to_string() };
                    outs.insert(o);
                }
            }
            CaseResult::Pass(Info {
                nontrivial: outs.len() >= 2,
                key: hash_case(&[&c.rules.join("\u{1}"), &c.data.join("\u{1}"), INVOCATIONS[c.inv]]),
                classes: vec![format!("invocation:{}", INVOCATIONS[c.inv]), format!("expected:{}", exp.text()), format!("observed:{}", st), format!("via:{}", if via_binary { "binary" } else { "in-process" })],
                evals: 1 + (c.rules.len() * c.data.len()) as u64,
                sample: Some(vcase_json(&c, via_binary)),
            })
        }
        Err((msg, sig)) => CaseResult::Fail(Failure { msg, sig, case: vcase_json(&c, via_binary) }),
    }
}

// ------------------------------------------------------------------------------------------------
// test command

struct TCase {
    rules: String,
    rules_broken: bool,
    /// (spec file text, kind)
    spec: String,
    spec_kind: &'static str, // ok | malformed | unknown-status
    mismatch: bool,
    dir_layout: bool,
    fmt: Fmt,
    /// --dir only: further guard files beside the primary one: (relative path without extension,
    /// kind), kind in good | mismatch | broken-rules | malformed-spec | no-tests
    extra: Vec<(String, String)>,
    /// further test files for the primary rules file: (file stem, good | mismatch); with the
    /// single-file layout the tests directory is then given to -t
    more: Vec<(String, String)>,
    /// 0 = default walk, 1 = -a, 2 = -m (modification times in the order of `more`, primary last),
    /// 3 = -m (primary first)
    walk: usize,
}

const EXTRA_RULES: &str = "rule other {\n  a exists\n}\n";

fn gen_tcase(u: &mut Choices) -> TCase {
    let rules_broken = u.chance(1, 6);
    // a rules file without any rule (comments only): nothing to evaluate, but the test file must
    // still be read
    let rules_blank = !rules_broken && u.chance(1, 8);
    let rules = if rules_blank {
        "# only a comment\n\n".to_string()
    } else if rules_broken { "rule chk {\n  a == \n}\n".to_string() } else { "rule chk {\n  a == 1\n}\nrule ok {\n  b == 'x'\n}\nrule sk when zz exists {\n  a == 1\n}\n".to_string() };
    // a rule name defined twice: SKIP is met only if every definition is SKIP
    let rules = if !rules_broken && !rules_blank { format!("{}rule d when a == 1 {{\n  b == 'x'\n}}\nrule d when a == 2 {{\n  b == 'x'\n}}\n", rules) } else { rules };
    let spec_kind = *u.pick(&["ok", "ok", "ok", "malformed", "unknown-status"]);
    let mismatch = u.chance(1, 2);
    // how the doubly defined rule is expected: "PASS" is met on both inputs (a=1: [PASS, SKIP],
    // a=2: [SKIP, PASS]); "SKIP" is a mismatch on both; "" = no expectation
    let has_dup = !rules_broken && !rules_blank;
    // where the single mismatch sits: in `chk`, or in the doubly defined rule only
    let mismatch_in = if mismatch && has_dup { *u.pick(&["chk", "dup-skip", "dup-fail"]) } else { "chk" };
    let dup_exp = if !has_dup {
        ""
    } else if mismatch {
        match mismatch_in {
            "dup-skip" => "SKIP",
            "dup-fail" => "FAIL",
            _ => *u.pick(&["PASS", ""]),
        }
    } else {
        *u.pick(&["PASS", ""])
    };
    let ncases = u.range(1, 3);
    let mut specs = vec![];
    for i in 0..ncases {
        let compliant = u.chance(1, 2);
        let input = if compliant { "{\"a\": 1, \"b\": \"x\"}" } else { "{\"a\": 2, \"b\": \"x\"}" };
        let actual_chk = if compliant { "PASS" } else { "FAIL" };
        let wrong = if compliant { "FAIL" } else { "PASS" };
        let chk = if mismatch && mismatch_in == "chk" && i == ncases - 1 { wrong } else { actual_chk };
        let sk = if spec_kind == "unknown-status" && i == 0 { "MAYBE" } else { "SKIP" };
        let d = if dup_exp.is_empty() { String::new() } else { format!(", \"d\": \"{}\"", dup_exp) };
        specs.push(format!("{{\"name\": \"t{}\", \"input\": {}, \"expectations\": {{\"rules\": {{\"chk\": \"{}\", \"ok\": \"PASS\", \"sk\": \"{}\"{}}}}}}}", i, input, chk, sk, d));
    }
    let mut spec = format!("[{}]", specs.join(",\n "));
    if spec_kind == "malformed" {
        spec = format!("[{}", specs.join(","));
        spec.push_str(" {{");
    }
    let dir_layout = u.chance(1, 2);
    let mut extra = vec![];
    if dir_layout && u.chance(2, 3) {
        // the primary file is x.guard: names that sort before and after it, some in a sub-directory
        // ("xy", "x2": the primary file's stem is a prefix of theirs)
        let names = ["alpha", "zeta", "sub/beta", "sub/yotta", "aaa/first", "xy", "x2"];
        let n = u.range(1, 3);
        let start = u.below(names.len());
        for i in 0..n {
            let kind = ["good", "good", "mismatch", "broken-rules", "malformed-spec", "no-tests"][u.below(6)];
            extra.push((names[(start + i) % names.len()].to_string(), kind.to_string()));
        }
    }
    // a third of the cases: 1-2 further test files for the primary rules file, sorting before and
    // after `x_tests.json`, each all-good or with a mismatch, walked by name or by time
    let mut more = vec![];
    if u.chance(1, 3) {
        let names = ["x_a", "x_z", "x_0", "x_zz"];
        let start = u.below(names.len());
        for i in 0..u.range(1, 2) {
            more.push((names[(start + i) % names.len()].to_string(), if u.chance(1, 2) { "good" } else { "mismatch" }.to_string()));
        }
    }
    let walk = if more.is_empty() { 0 } else { u.below(4) };
    TCase { rules, rules_broken, spec, spec_kind, mismatch, dir_layout, fmt: *u.pick(&[Fmt::Single, Fmt::Json, Fmt::Yaml, Fmt::Junit]), extra, more, walk }
}

fn check_test(c: &TCase) -> Result<(String, i32), (String, String)> {
    let dir = fresh_dir("c06t");
    let rp = dir.join("x.guard");
    let tp = dir.join("tests/x_tests.json");
    write_file(&rp, &c.rules);
    write_file(&tp, &c.spec);
    for (rel, kind) in &c.extra {
        let (d, stem) = match rel.rsplit_once('/') {
            Some((d, s)) => (dir.join(d), s.to_string()),
            None => (dir.clone(), rel.clone()),
        };
        write_file(&d.join(format!("{}.guard", stem)), if kind == "broken-rules" { "rule other {\n  a exists or\n}\n" } else { EXTRA_RULES });
        let spec = match kind.as_str() {
            "no-tests" => continue,
            "mismatch" => "- name: m\n  input: {a: 1}\n  expectations:\n    rules:\n      other: FAIL\n",
            "malformed-spec" => "- name: m\n  input: {a: 1\n  expectations: [\n",
            _ => "- name: m\n  input: {a: 1}\n  expectations:\n    rules:\n      other: PASS\n",
        };
        write_file(&d.join(format!("tests/{}_tests.yaml", stem)), spec);
    }
    let mut stamp = |p: &std::path::Path, k: u64| {
        let t = std::time::SystemTime::UNIX_EPOCH + std::time::Duration::from_secs(1_600_000_000 + k * 1000);
        let _ = std::fs::File::options().write(true).open(p).and_then(|f| f.set_modified(t));
    };
    for (k, (stem, kind)) in c.more.iter().enumerate() {
        let (chk, inp) = if kind == "mismatch" { ("PASS", "{a: 2, b: x}") } else { ("PASS", "{a: 1, b: x}") };
        let p = dir.join(format!("tests/{}_tests.yaml", stem));
        write_file(&p, &format!("- name: more{}\n  input: {}\n  expectations:\n    rules:\n      chk: {}\n", k, inp, chk));
        stamp(&p, 10 + k as u64);
    }
    if !c.more.is_empty() {
        stamp(&tp, if c.walk == 3 { 1 } else { 50 });
    }
    let o = TOpts { fmt: c.fmt, verbose: false, alphabetical: c.walk == 1, last_modified: c.walk >= 2 };
    let tdata = if c.more.is_empty() { tp.to_string_lossy().to_string() } else { dir.join("tests").to_string_lossy().to_string() };
    let r = if c.dir_layout { test_dir(&dir.to_string_lossy(), &o) } else { test_files(&rp.to_string_lossy(), &tdata, &o) };
    if let Some(p) = &r.panic {
        return Err((format!("test: panic {}", p), format!("panic:{}", p.split(' ').next().unwrap_or(""))));
    }
    let st = r.status();
    let all_parse = !c.rules_broken && c.spec_kind == "ok" && !c.extra.iter().any(|(_, k)| k == "broken-rules" || k == "malformed-spec");
    let blank = !c.rules_broken && !c.rules.contains("rule ");
    if blank && all_parse && c.extra.iter().all(|(_, k)| k == "good" || k == "no-tests") {
        // expectations that name rules of a file without rules: the statement does not say
        return Ok(("unspecified".to_string(), st));
    }
    let want = if all_parse {
        if c.mismatch || c.extra.iter().any(|(_, k)| k == "mismatch") || c.more.iter().any(|(_, k)| k == "mismatch") {
            "7"
        } else {
            "0"
        }
    } else {
        "non-zero"
    };
    let ok = match want {
        "7" => st == 7,
        "0" => st == 0,
        _ => st != 0,
    };
    if !ok {
        return Err((
            format!("test ({}{:?}, rules broken={}, spec {}, mismatch={}, further guard files {:?}, further test files {:?} walk {}) exits {}, expected {} ; {}", if c.dir_layout { "--dir, " } else { "" }, c.fmt, c.rules_broken, c.spec_kind, c.mismatch, c.extra, c.more, c.walk, st, want, r.brief()),
            format!("c06:test:{}:{}:{}", want, if c.rules_broken { "rules-broken".to_string() } else if blank { format!("rules-without-rules+spec-{}", c.spec_kind) } else { c.spec_kind.to_string() }, if c.dir_layout { "dir" } else { "file" }),
        ));
    }
    Ok((want.to_string(), st))
}

fn tcase_json(c: &TCase) -> J {
    json!({"kind": "test", "rules": c.rules, "rules_broken": c.rules_broken, "spec": c.spec, "spec_kind": c.spec_kind, "mismatch": c.mismatch, "dir_layout": c.dir_layout,
           "fmt": c.fmt.flag(), "extra": c.extra.iter().map(|(a, b)| json!([a, b])).collect::<Vec<_>>(),
           "more": c.more.iter().map(|(a, b)| json!([a, b])).collect::<Vec<_>>(), "walk": c.walk})
}

fn random_test(u: &mut Choices) -> CaseResult {
    let c = gen_tcase(u);
    match check_test(&c) {
        Ok((want, st)) => CaseResult::Pass(Info {
            nontrivial: true,
            key: hash_case(&[&c.rules, &c.spec, c.fmt.flag(), &format!("{} {:?}", c.dir_layout, c.extra)]),
            classes: vec![format!("test-expected:{}", want), format!("test-observed:{}", st), format!("test-fmt:{}", c.fmt.flag()), format!("test-layout:{}", if c.dir_layout { "dir" } else { "file" }), format!("test-guard-files:{}", 1 + c.extra.len())],
            evals: 1,
            sample: Some(tcase_json(&c)),
        }),
        Err((msg, sig)) => CaseResult::Fail(Failure { msg, sig, case: tcase_json(&c) }),
    }
}

pub fn replay(case: &J) -> CaseResult {
    let strs = |k: &str| -> Vec<String> { case[k].as_array().map(|a| a.iter().map(|x| x.as_str().unwrap_or("").to_string()).collect()).unwrap_or_default() };
    if case["kind"] == "test" {
        let kind: &'static str = match case["spec_kind"].as_str().unwrap_or("ok") {
            "malformed" => "malformed",
            "unknown-status" => "unknown-status",
            _ => "ok",
        };
        let fmt = match case["fmt"].as_str().unwrap_or("") {
            "json" => Fmt::Json,
            "yaml" => Fmt::Yaml,
            "junit" => Fmt::Junit,
            _ => Fmt::Single,
        };
        let c = TCase {
            rules: case["rules"].as_str().unwrap_or("").to_string(),
            rules_broken: case["rules_broken"].as_bool().unwrap_or(false),
            spec: case["spec"].as_str().unwrap_or("").to_string(),
            spec_kind: kind,
            mismatch: case["mismatch"].as_bool().unwrap_or(false),
            dir_layout: case["dir_layout"].as_bool().unwrap_or(false),
            fmt,
            extra: case["extra"].as_array().map(|a| a.iter().map(|e| (e[0].as_str().unwrap_or("").to_string(), e[1].as_str().unwrap_or("").to_string())).collect()).unwrap_or_default(),
            more: case["more"].as_array().map(|a| a.iter().map(|e| (e[0].as_str().unwrap_or("").to_string(), e[1].as_str().unwrap_or("").to_string())).collect()).unwrap_or_default(),
            walk: case["walk"].as_u64().unwrap_or(0) as usize,
        };
        return match check_test(&c) {
            Ok(_) => CaseResult::Pass(Info::default()),
            Err((msg, sig)) => CaseResult::Fail(Failure { msg, sig, case: case.clone() }),
        };
    }
    let inv = INVOCATIONS.iter().position(|i| Some(*i) == case["invocation"].as_str()).unwrap_or(0);
    let c = VCase { rules: strs("rules"), data: strs("data"), inv, same_names: case["same_names"].as_bool().unwrap_or(false) };
    match check_validate(&c, case["via_binary"].as_bool().unwrap_or(false)) {
        Ok(_) => CaseResult::Pass(Info::default()),
        Err((msg, sig)) => CaseResult::Fail(Failure { msg, sig, case: case.clone() }),
    }
}

pub fn run(tier: Tier, seed: u64) -> i32 {
    let spec = EvidenceSpec {
        rule: "validate: 1-3 rules files of kind {all-PASS, some-FAIL, all-SKIP, blank, syntactically broken (6 shapes) or not UTF-8, evaluation error (3 shapes)} x 1-3 data files of kind {compliant, non-compliant, not applicable (every guarded rule SKIPs), malformed (4 shapes), empty} in generated order (distinct base names in one directory, or the same base name in a directory each) x invocation {plain, --structured json/yaml/junit/sarif, --payload plain/structured, data on stdin, rules and data as directories, a missing path}. The expected exit code is computed from facts established through other code paths: `parse-tree` decides whether a rules text parses, run_checks decides the status of every (rules, data) pair alone; then 0 / 19 / 5 / any non-zero / error-not-0-or-19 by the rule of the property statement. Stage 'validate-binary' runs the same through the real cfn-guard binary (process exit status, `main`'s Err -> 255). test: rules {ok, broken, comment-only} x spec {ok, malformed, unknown status word} x {all expectations met, one mismatch (in a singly defined rule, or SKIP / FAIL expected for a rule defined twice of which one definition PASSes)} x {single file, --dir with 0-3 further guard files (sorting before / after, in sub-directories; good, with a mismatch, broken rules, malformed spec, without tests)} x {console, json, yaml, junit}: 0 / 7 / non-zero. Non-trivial: the pairs of the run have at least two different individual outcomes; distinct by hash of all texts and the invocation.".into(),
        assumptions: vec!["`well-formed data` for the expectation is decided by serde_yaml accepting the text (the data kinds are chosen so that all loaders agree)".into()],
    };
    execute("C06", tier, seed, spec, &replay, &|run: &Session| {
        run.run_random("validate", tier.pick(20_000, 400_000), 80, |u| random_validate(u, false));
        run.run_random("validate-binary", tier.pick(400, 8_000), 80, |u| random_validate(u, true));
        run.run_random("test", tier.pick(4_000, 80_000), 40, random_test);
    })
}
