//! C01 — rule verdicts equal the documented semantics (differential against the reference model).
use crate::ast::*;
use crate::choices::Choices;
use crate::drive::{verdict, Verdict};
use crate::engine::*;
use crate::gen::*;
use crate::model::{self, ModelErr, St};
use crate::val::V;
use serde_json::{json, Value as J};

pub fn expected_json(exp: &Result<Vec<(String, St)>, ModelErr>) -> J {
    match exp {
        Ok(rs) => json!({
            "rules": rs.iter().map(|(n, s)| json!([n, s.text()])).collect::<Vec<_>>(),
            "file": model::file_status(rs).text(),
        }),
        Err(_) => json!("evaluation-error"),
    }
}

/// The predicate, on texts only: tool verdict of (doc, rules) must equal `expected`.
pub fn check_texts(doc: &str, rules: &str, expected: &J) -> Result<Verdict, (String, Verdict)> {
    let (v, _) = verdict(doc, rules);
    let ok = match (&v, expected) {
        (Verdict::EvalErr(_), J::String(s)) if s == "evaluation-error" => true,
        (Verdict::Ok { rules: rs, file }, J::Object(o)) => {
            let exp_rules: Vec<(String, String)> = o["rules"]
                .as_array()
                .map(|a| a.iter().map(|p| (p[0].as_str().unwrap_or("").to_string(), p[1].as_str().unwrap_or("").to_string())).collect())
                .unwrap_or_default();
            let got: Vec<(String, String)> = rs.iter().map(|(n, s)| (crate::drive::strip_file_prefix(n), s.text().to_string())).collect();
            got == exp_rules && Some(file.text()) == o["file"].as_str()
        }
        _ => false,
    };
    if ok {
        Ok(v)
    } else {
        Err((format!("model expects {} ; tool reports {}", expected, v.short()), v))
    }
}

fn fail_case(doc: &str, rules: &str, expected: &J, msg: String, v: &Verdict) -> Failure {
    let sig = match v {
        Verdict::Panic(p) => format!("panic:{}", p.split(' ').next().unwrap_or("")),
        Verdict::ParseErr(_) => "c01:generator-invalid".to_string(),
        _ => "c01:verdict-mismatch".to_string(),
    };
    Failure { msg, sig, case: json!({"doc": doc, "rules": rules, "expected": expected}) }
}

pub fn replay(case: &J) -> CaseResult {
    let doc = case["doc"].as_str().unwrap_or("");
    let rules = case["rules"].as_str().unwrap_or("");
    match check_texts(doc, rules, &case["expected"]) {
        Ok(_) => CaseResult::Pass(Info::default()),
        Err((msg, v)) => CaseResult::Fail(fail_case(doc, rules, &case["expected"], msg, &v)),
    }
}

// ------------------------------------------------------------------------------------------------
// (a) exhaustive single-clause enumeration

fn value_universe(tier: Tier) -> Vec<(&'static str, Option<V>)> {
    let m = |kv: Vec<(&str, V)>| V::Map(kv.into_iter().map(|(k, v)| (k.to_string(), v)).collect());
    let mut u = vec![
        ("missing", None),
        ("null", Some(V::Null)),
        ("true", Some(V::Bool(true))),
        ("i1", Some(V::Int(1))),
        ("i2", Some(V::Int(2))),
        ("f1.5", Some(V::Float(1.5))),
        ("s-empty", Some(V::s(""))),
        ("s-a", Some(V::s("a"))),
        ("s-ab", Some(V::s("ab"))),
        ("l-empty", Some(V::List(vec![]))),
        ("m-empty", Some(m(vec![]))),
        ("l1", Some(V::List(vec![V::Int(1)]))),
        ("l12", Some(V::List(vec![V::Int(1), V::Int(2)]))),
        ("lmix", Some(V::List(vec![V::s("a"), V::Int(1)]))),
        ("lln", Some(V::List(vec![V::List(vec![V::Int(1)]), V::List(vec![V::Int(2)])]))),
        ("lmaps", Some(V::List(vec![m(vec![("k", V::Int(1))]), m(vec![("j", V::Int(2))])]))),
        ("mk1", Some(m(vec![("k", V::Int(1))]))),
        ("ls", Some(V::List(vec![V::s("a"), V::s("b")]))),
    ];
    if tier == Tier::Thorough {
        u.extend(vec![
            ("false", Some(V::Bool(false))),
            ("i0", Some(V::Int(0))),
            ("im1", Some(V::Int(-1))),
            ("imax", Some(V::Int(i64::MAX))),
            ("f2.0", Some(V::Float(2.0))),
            ("s-b", Some(V::s("b"))),
            ("s-10", Some(V::s("10"))),
            ("s-uni", Some(V::s("a\u{e4}"))),
            ("l21", Some(V::List(vec![V::Int(2), V::Int(1)]))),
            ("ll12", Some(V::List(vec![V::List(vec![V::Int(1), V::Int(2)])]))),
            ("mkj", Some(m(vec![("k", V::Int(1)), ("j", V::Int(2))]))),
            ("lnull", Some(V::List(vec![V::Null]))),
            ("lf", Some(V::List(vec![V::Float(1.5), V::Float(2.0)]))),
        ]);
    }
    u
}

fn literal_universe(tier: Tier) -> Vec<Lit> {
    let v = |x: V| Lit::V(x);
    let m = |kv: Vec<(&str, V)>| V::Map(kv.into_iter().map(|(k, v)| (k.to_string(), v)).collect());
    let mut l = vec![
        v(V::Int(1)),
        v(V::Int(2)),
        v(V::Float(1.5)),
        v(V::s("a")),
        v(V::s("ab")),
        v(V::s("")),
        v(V::Bool(true)),
        v(V::Null),
        v(V::List(vec![])),
        v(V::List(vec![V::Int(1)])),
        v(V::List(vec![V::Int(1), V::Int(2)])),
        v(V::List(vec![V::s("a"), V::s("b")])),
        v(m(vec![("k", V::Int(1))])),
        Lit::Regex("a".into()),
        Lit::RangeI(1, 2, true, true),
        v(V::List(vec![V::List(vec![V::Int(1)]), V::List(vec![V::Int(2)])])),
        // list literals whose members match by more than structural equality
        Lit::List(vec![Lit::Regex("^a".into()), Lit::V(V::s("b"))]),
        Lit::List(vec![Lit::V(V::Int(5)), Lit::RangeI(1, 2, true, true)]),
    ];
    if tier == Tier::Thorough {
        l.extend(vec![
            v(V::Int(0)),
            v(V::Float(2.0)),
            v(V::List(vec![V::List(vec![V::Int(1), V::Int(2)])])),
            v(m(vec![("j", V::Int(2)), ("k", V::Int(1))])),
            Lit::Regex("^a.*b$".into()),
            Lit::RangeI(1, 2, false, false),
            Lit::RangeF(0.5, 2.0, true, false),
            v(V::List(vec![V::Null])),
            v(V::List(vec![V::Float(1.5)])),
            v(V::Int(i64::MAX)),
            v(V::s("a\u{e4}")),
        ]);
    }
    l
}

fn query_shapes() -> Vec<Vec<Part>> {
    let k = |s: &str| Part::Key(s.to_string());
    vec![
        vec![],
        vec![Part::AllIdx],
        vec![Part::Star],
        vec![Part::Idx(0)],
        vec![k("k")],
        vec![Part::AllIdx, k("k")],
        vec![Part::AllIdx, Part::AllIdx],
    ]
}

const FORMS: [&str; 5] = ["plain", "prefix-not", "block", "filter", "when"];

const BIN_SPELLINGS: [(BinOp, bool); 8] = [
    (BinOp::Eq, false),
    (BinOp::Eq, true),
    (BinOp::In, false),
    (BinOp::In, true),
    (BinOp::Lt, false),
    (BinOp::Le, false),
    (BinOp::Gt, false),
    (BinOp::Ge, false),
];

/// Build the rule for one (form, clause) combination. The clause's query is rooted at `x`.
fn wrap(form: usize, name: &str, mut c: Clause) -> Option<Rule> {
    let item = match form {
        0 => Item::Clause(c),
        1 => {
            if let Kind::Unary { .. } = c.kind {
                return None; // prefix-not on unary clauses is part of the plain form
            }
            c.prefneg = true;
            Item::Clause(c)
        }
        2 => {
            // <query> { this <op> <rhs> } — `some` moves to the block
            let q = c.q.clone();
            let some = c.some;
            c.q = Query { head: Head::This, parts: vec![] };
            c.some = false;
            Item::Block { some, q, notempty: false, lets: vec![], body: vec![vec![Item::Clause(c)]] }
        }
        3 => {
            // w[ <clause> ] !empty on {"w":[{"x": v}]}
            let q = Query { head: Head::Key("w".into()), parts: vec![Part::Filter(vec![vec![Item::Clause(c)]])] };
            Item::Clause(Clause { prefneg: false, some: false, q, kind: Kind::Unary { op: UnOp::Empty, opneg: true }, msg: None })
        }
        _ => {
            return Some(Rule {
                name: name.to_string(),
                when: Some(vec![vec![Item::Clause(c)]]),
                lets: vec![],
                body: vec![vec![Item::Clause(cl_un(q_key(&["w"]), UnOp::Exists, false))]],
            });
        }
    };
    Some(rule1(name, item))
}

fn enum_case(tier: Tier, i: usize) -> CaseResult {
    let vals = value_universe(tier);
    let lits = literal_universe(tier);
    let qs = query_shapes();
    let form = i % FORMS.len();
    let qi = (i / FORMS.len()) % qs.len();
    let vi = i / (FORMS.len() * qs.len());
    let (vname, val) = &vals[vi];
    let inner = match val {
        Some(v) => V::Map(vec![("x".into(), v.clone())]),
        None => V::Map(vec![]),
    };
    let mut top = match &inner {
        V::Map(m) => m.clone(),
        _ => unreachable!(),
    };
    top.push(("w".into(), V::List(vec![inner.clone()])));
    let doc = V::Map(top);
    let doc_text = doc.to_json();

    // all clauses of this batch
    let mut rules: Vec<Rule> = vec![];
    let mut n = 0usize;
    for some in [false, true] {
        for (op, opneg) in BIN_SPELLINGS {
            for lit in &lits {
                let mut c = cl_bin(Query { head: Head::Key("x".into()), parts: qs[qi].clone() }, op, opneg, lit.clone());
                c.some = some;
                if let Some(r) = wrap(form, &format!("c{}", n), c) {
                    rules.push(r);
                    n += 1;
                }
            }
        }
        for op in UNOPS {
            for opneg in [false, true] {
                for prefneg in [false, true] {
                    let mut c = cl_un(Query { head: Head::Key("x".into()), parts: qs[qi].clone() }, op, opneg);
                    c.some = some;
                    c.prefneg = prefneg;
                    if let Some(r) = wrap(form, &format!("c{}", n), c) {
                        rules.push(r);
                        n += 1;
                    }
                }
            }
        }
    }
    // expectations rule by rule (an evaluation error aborts a whole file, so erroring clauses are
    // run one per file)
    let mut ok_rules = vec![];
    let mut ok_exp = vec![];
    let mut err_rules = vec![];
    for r in rules {
        let f = file_of(vec![r.clone()]);
        match model::eval_file(&doc, &f) {
            Ok(rs) => {
                ok_exp.push(rs[0].clone());
                ok_rules.push(r);
            }
            Err(ModelErr::Eval(_)) => err_rules.push(r),
            Err(ModelErr::Unsupported(_)) => {}
        }
    }
    let mut evals = 0u64;
    let mut classes = vec![format!("form:{}", FORMS[form]), format!("value:{}", vname)];
    let batch = file_of(ok_rules.clone());
    let text = print_file(&batch);
    let expected = expected_json(&Ok(ok_exp.clone()));
    evals += 1;
    if let Err((_msg, v)) = check_texts(&doc_text, &text, &expected) {
        // isolate the first disagreeing rule for a minimal reproduction
        if let Verdict::Ok { rules: got, .. } = &v {
            for (idx, (r, e)) in ok_rules.iter().zip(&ok_exp).enumerate() {
                if got.get(idx).map(|g| g.1) != Some(e.1) {
                    let single = print_file(&file_of(vec![r.clone()]));
                    let exp1 = expected_json(&Ok(vec![e.clone()]));
                    if let Err((m1, v1)) = check_texts(&doc_text, &single, &exp1) {
                        return CaseResult::Fail(fail_case(&doc_text, &single, &exp1, m1, &v1));
                    }
                }
            }
        }
        // could not isolate: report one rule at a time until one fails
        for (r, e) in ok_rules.iter().zip(&ok_exp) {
            let single = print_file(&file_of(vec![r.clone()]));
            let exp1 = expected_json(&Ok(vec![e.clone()]));
            if let Err((m1, v1)) = check_texts(&doc_text, &single, &exp1) {
                return CaseResult::Fail(fail_case(&doc_text, &single, &exp1, m1, &v1));
            }
        }
        let (m, v) = check_texts(&doc_text, &text, &expected).err().unwrap();
        return CaseResult::Fail(fail_case(&doc_text, &text, &expected, format!("batch-only disagreement: {}", m), &v));
    }
    for r in &err_rules {
        let single = print_file(&file_of(vec![r.clone()]));
        let exp1 = json!("evaluation-error");
        evals += 1;
        if let Err((m1, v1)) = check_texts(&doc_text, &single, &exp1) {
            return CaseResult::Fail(fail_case(&doc_text, &single, &exp1, m1, &v1));
        }
    }
    let non_skip = ok_exp.iter().filter(|(_, s)| *s != St::Skip).count();
    for (_, s) in &ok_exp {
        classes.push(format!("single-clause:{}", s.text()));
    }
    for _ in &err_rules {
        classes.push("single-clause:ERROR".into());
    }
    let sample = if form == 2 || form == 3 {
        Some(json!({"doc": doc_text, "rules (first 3 of batch)": print_file(&file_of(ok_rules.iter().take(3).cloned().collect())), "expected": ok_exp.iter().take(3).map(|(n, s)| format!("{}={}", n, s.text())).collect::<Vec<_>>()}))
    } else {
        None
    };
    CaseResult::Pass(Info { nontrivial: non_skip > 0 || !err_rules.is_empty(), key: hash_case(&[&doc_text, &text]), classes, evals, sample })
}

// ------------------------------------------------------------------------------------------------
// (b) random composed programs

fn has_resolved_query(_f: &File) -> bool {
    true
}

fn random_case(u: &mut Choices, sz: Size) -> CaseResult {
    let doc = gen_doc(u, &sz);
    let mut sz = sz;
    sz.default_rule = true;
    let file = gen_core_file(u, &doc, sz, true, true);
    let doc_text = doc.to_json();
    let text = print_file(&file);
    let exp = model::eval_file(&doc, &file);
    if let Err(ModelErr::Unsupported(_)) = exp {
        return CaseResult::Discard("outside-model");
    }
    let expected = expected_json(&exp);
    if std::env::var("GV_DUMP").is_ok() {
        eprintln!("=== {}\n{}--> {}", doc_text, text, expected);
    }
    match check_texts(&doc_text, &text, &expected) {
        Err((msg, v)) => {
            if let Verdict::ParseErr(_) = v {
                // generator produced text the parser rejects: a harness defect, never a violation
                // of C01 — but it must stay at zero, so it is surfaced as a failure of its own class
            }
            CaseResult::Fail(fail_case(&doc_text, &text, &expected, msg, &v))
        }
        Ok(_) => {
            let mut classes = vec![];
            let mut nontrivial = false;
            match &exp {
                Ok(rs) => {
                    for (_, s) in rs {
                        classes.push(format!("rule:{}", s.text()));
                        if *s != St::Skip {
                            nontrivial = true;
                        }
                    }
                    classes.push(format!("file:{}", model::file_status(rs).text()));
                }
                Err(_) => {
                    classes.push("file:ERROR".into());
                    nontrivial = true;
                }
            }
            feature_classes(&file, &mut classes);
            if !file.default.is_empty() {
                classes.push("has:default-rule".into());
            }
            let _ = has_resolved_query(&file);
            CaseResult::Pass(Info {
                nontrivial,
                key: hash_case(&[&doc_text, &text]),
                classes,
                evals: 1,
                sample: Some(json!({"doc": doc_text, "rules": text, "expected": expected})),
            })
        }
    }
}

pub fn feature_classes(f: &File, out: &mut Vec<String>) {
    fn cnf(c: &Cnf, out: &mut Vec<String>) {
        if c.len() > 1 {
            out.push("has:multi-line".into());
        }
        for line in c {
            if line.len() > 1 {
                out.push("has:or".into());
            }
            for it in line {
                match it {
                    Item::Clause(cl) => {
                        if cl.prefneg {
                            out.push("has:prefix-not".into());
                        }
                        if cl.some {
                            out.push("has:some".into());
                        }
                        if let Head::Var(_) = cl.q.head {
                            out.push("has:var-query".into());
                        }
                        for p in &cl.q.parts {
                            if let Part::Filter(fc) = p {
                                out.push("has:filter".into());
                                cnf(fc, out);
                            }
                        }
                        match &cl.kind {
                            Kind::Unary { .. } => out.push("has:unary".into()),
                            Kind::Binary { rhs, .. } => {
                                out.push("has:binary".into());
                                if let Expr::Query { .. } = rhs {
                                    out.push("has:var-rhs".into());
                                }
                            }
                        }
                    }
                    Item::Ref { neg, .. } => out.push(if *neg { "has:not-ref".into() } else { "has:ref".into() }),
                    Item::Block { body, lets, .. } => {
                        out.push("has:block".into());
                        if !lets.is_empty() {
                            out.push("has:block-let".into());
                        }
                        cnf(body, out);
                    }
                    Item::When { cond, body, .. } => {
                        out.push("has:when-block".into());
                        cnf(cond, out);
                        cnf(body, out);
                    }
                    _ => {}
                }
            }
        }
    }
    let mut v = vec![];
    if !f.lets.is_empty() {
        v.push("has:file-let".to_string());
    }
    for r in &f.rules {
        if r.when.is_some() {
            v.push("has:rule-when".into());
        }
        if let Some(w) = &r.when {
            cnf(w, &mut v);
        }
        cnf(&r.body, &mut v);
    }
    let mut names: Vec<&String> = f.rules.iter().map(|r| &r.name).collect();
    names.sort();
    if names.windows(2).any(|w| w[0] == w[1]) {
        v.push("has:duplicate-rule-name".into());
    }
    v.sort();
    v.dedup();
    out.extend(v);
}

pub fn run(tier: Tier, seed: u64) -> i32 {
    let spec = EvidenceSpec {
        rule: "Stage 'single-clause' enumerates every (document value x query shape x form) batch; a batch is one rules file holding every (all/some x operator spelling x literal) and (unary operator x ! x prefix-not) clause, each as its own rule (class single-clause:* counts them), erroring clauses one per file. Stage 'random' decodes a proptest choice stream into a document and a document-directed core-fragment rules file. Expected statuses come from the independent reference model (model.rs). A case is non-trivial when at least one rule is not SKIP or the case is an evaluation-error case; distinct by hash of (document text, rules text).".into(),
        assumptions: vec![
            "reference model of DESIGN section 4 / Appendix A; undocumented corners calibrated to the unchanged tree".into(),
            "keys never collide under case conversion; no key-capture variables; no function calls in the core fragment".into(),
            "release semantics (debug assertions and overflow checks off)".into(),
        ],
    };
    execute("C01", tier, seed, spec, &replay, &|run: &Session| {
        let total = value_universe(tier).len() * query_shapes().len() * FORMS.len();
        run.run_enum("single-clause", total, |i| enum_case(tier, i));
        let sz = tier.pick(Size::quick(), Size::thorough());
        let cases = tier.pick(250_000, 4_000_000);
        run.run_random("random", cases, tier.pick(1200, 2400), |u| random_case(u, sz));
        // generator health: each verdict class must be well represented
        let (p, f, s) = (run.class_count("rule:PASS"), run.class_count("rule:FAIL"), run.class_count("rule:SKIP"));
        let tot = (p + f + s).max(1);
        if run.failures.lock().unwrap().is_empty() && (p * 100 / tot < 10 || f * 100 / tot < 10 || s * 100 / tot < 10) {
            run.inconclusive(format!("generator regression: verdict mix PASS={} FAIL={} SKIP={}", p, f, s));
        }
    })
}
