//! C13 — comparison operators form a coherent algebra (exhaustive value-pair matrix against
//! native integer / float / code-point comparison and an independent mini regex matcher).
use super::common::*;
use crate::ast::*;
use crate::choices::Choices;
use crate::engine::*;
use crate::model::{cmp_str, St};
use crate::regex_mini::Re;
use crate::val::{Ty, V};
use serde_json::{json, Value as J};

fn universe(tier: Tier) -> Vec<V> {
    let m = |kv: Vec<(&str, V)>| V::Map(kv.into_iter().map(|(k, v)| (k.to_string(), v)).collect());
    let mut u = vec![
        V::Int(i64::MIN),
        V::Int(-1),
        V::Int(0),
        V::Int(1),
        V::Int(i64::MAX),
        // neighbours that round to the same double: integers are compared as integers
        V::Int(i64::MAX - 1),
        V::Int(9007199254740993),
        V::Int(9007199254740992),
        V::Float(-1.5),
        V::Float(-0.0),
        V::Float(0.0),
        V::Float(0.5),
        V::Float(1.5),
        V::Float(1e308),
        // distinct floats closer to one another than f64::EPSILON: equality is exact
        V::Float(1e-300),
        V::Float(1.0),
        V::Float(1.0000000000000002),
        V::s(""),
        V::s("a"),
        V::s("A"),
        V::s("ab"),
        V::s("a\u{e4}"),
        V::s("10"),
        V::s("9"),
        V::Bool(true),
        V::Bool(false),
        V::Null,
        V::List(vec![]),
        V::List(vec![V::Int(1), V::Int(2)]),
        V::List(vec![V::Int(2), V::Int(1)]),
        m(vec![]),
        m(vec![("k", V::Int(1)), ("j", V::Int(2))]),
        m(vec![("j", V::Int(2)), ("k", V::Int(1))]),
    ];
    if tier == Tier::Thorough {
        u.extend(vec![
            V::Int(2),
            V::Float(5e-324),
            V::Float(2.0),
            V::s("b"),
            V::s("z"),
            V::List(vec![V::Int(1)]),
            V::List(vec![V::s("a")]),
            m(vec![("k", V::Int(1))]),
            m(vec![("k", V::Int(2))]),
            V::Int(-9007199254740993),
            V::Int(-9007199254740992),
            V::Float(9007199254740992.0),
            V::s("\u{e4}"),
            V::List(vec![V::List(vec![V::Int(1)])]),
            m(vec![("k", m(vec![("j", V::Int(1))]))]),
        ]);
    }
    u
}

/// Some(Some(ordering)) ordered & comparable; Some(None) comparable for equality only (value in
/// .1); None = nothing asserted
#[derive(Debug, PartialEq)]
enum Cmp {
    Ordered(std::cmp::Ordering),
    EqOnly(bool),
    NotComparable,
    Unasserted,
}

fn deep_eq(a: &V, b: &V) -> Option<bool> {
    // None when a nested pair has different types (the documentation does not decide `!=` there)
    match (a, b) {
        (V::List(x), V::List(y)) => {
            if x.len() != y.len() {
                return Some(false);
            }
            let mut all = true;
            for (p, q) in x.iter().zip(y) {
                match deep_eq(p, q)? {
                    true => {}
                    false => all = false,
                }
            }
            Some(all)
        }
        (V::Map(x), V::Map(y)) => {
            if x.len() != y.len() {
                return Some(false);
            }
            let mut all = true;
            for (k, p) in x {
                match y.iter().find(|(k2, _)| k2 == k) {
                    None => all = false,
                    Some((_, q)) => {
                        if !deep_eq(p, q)? {
                            all = false
                        }
                    }
                }
            }
            Some(all)
        }
        _ if a.ty() != b.ty() => None,
        (V::Float(x), V::Float(y)) => Some(x == y),
        _ => Some(a == b),
    }
}

fn compare(a: &V, b: &V) -> Cmp {
    let (la, lb) = (matches!(a, V::List(_)), matches!(b, V::List(_)));
    if la != lb {
        return Cmp::Unasserted; // list / single-value coercion is documented; covered by C01
    }
    match (a, b) {
        (V::Int(x), V::Int(y)) => Cmp::Ordered(x.cmp(y)),
        (V::Float(x), V::Float(y)) => Cmp::Ordered(x.partial_cmp(y).unwrap()),
        (V::Str(x), V::Str(y)) => Cmp::Ordered(cmp_str(x, y)),
        (V::Bool(x), V::Bool(y)) => Cmp::EqOnly(x == y),
        (V::Null, V::Null) => Cmp::EqOnly(true),
        (V::List(_), V::List(_)) | (V::Map(_), V::Map(_)) => match deep_eq(a, b) {
            Some(e) => Cmp::EqOnly(e),
            None => Cmp::Unasserted,
        },
        _ => Cmp::NotComparable,
    }
}

/// expected status of `a <op> b` with total negation `neg`; None = not asserted
fn expect(a: &V, b: &V, op: BinOp, neg: bool) -> Option<St> {
    use std::cmp::Ordering::*;
    let base: Option<bool> = match (compare(a, b), op) {
        (Cmp::Unasserted, _) => return None,
        (Cmp::NotComparable, _) => None,
        (Cmp::Ordered(o), BinOp::Eq) => Some(o == Equal),
        (Cmp::Ordered(o), BinOp::Lt) => Some(o == Less),
        (Cmp::Ordered(o), BinOp::Le) => Some(o != Greater),
        (Cmp::Ordered(o), BinOp::Gt) => Some(o == Greater),
        (Cmp::Ordered(o), BinOp::Ge) => Some(o != Less),
        (Cmp::EqOnly(e), BinOp::Eq) => Some(e),
        // ordering of lists is flattened pairwise (C01); bool / null / map are unordered types
        (Cmp::EqOnly(_), _) if matches!(a, V::List(_)) => return None,
        (Cmp::EqOnly(_), _) => None,
        (_, BinOp::In) => return None,
    };
    Some(match base {
        Some(r) => {
            if r != neg {
                St::Pass
            } else {
                St::Fail
            }
        }
        None => St::Fail,
    })
}

const OPS: [(BinOp, bool); 7] =
    [(BinOp::Eq, false), (BinOp::Eq, true), (BinOp::Lt, false), (BinOp::Le, false), (BinOp::Gt, false), (BinOp::Ge, false), (BinOp::Eq, false)];

fn sig_for(a: &V, b: &V, op: BinOp, neg: bool, query_placement: bool) -> String {
    let cross = a.ty() != b.ty();
    if query_placement && cross && op == BinOp::Eq && neg {
        return "c13:neq-query-rhs-cross-type".into();
    }
    if a.ty() == Ty::Null && b.ty() == Ty::Null && matches!(op, BinOp::Le | BinOp::Ge) {
        return "c13:null-ordering".into();
    }
    if a.ty() == Ty::Null && b.ty() == Ty::Null && matches!(op, BinOp::Lt | BinOp::Gt) && neg {
        return "c13:null-ordering".into();
    }
    format!("c13:{}{}:{:?}-{:?}:{}", if neg { "not-" } else { "" }, binop_text(op, false), a.ty(), b.ty(), if query_placement { "query" } else { "literal" })
}

fn pair_case(tier: Tier, i: usize) -> CaseResult {
    let u = universe(tier);
    let placement = i % 2; // 0 literal, 1 query
    let ai = i / 2;
    let a = &u[ai];
    let mut docm = vec![("x".to_string(), a.clone())];
    let mut exps: Vec<Expect> = vec![];
    let mut sigs: Vec<String> = vec![];
    let mut asserted = 0u64;
    let mut classes = vec![format!("placement:{}", if placement == 0 { "literal" } else { "query" })];
    for (bi, b) in u.iter().enumerate() {
        if placement == 0 && !v_expressible(b) {
            continue;
        }
        if placement == 1 {
            docm.push((format!("y{}", bi), b.clone()));
        }
        for (op, opneg) in OPS.iter().take(6) {
            for prefneg in [false, true] {
                let neg = *opneg != prefneg;
                let want = match expect(a, b, *op, neg) {
                    Some(w) => w,
                    None => continue,
                };
                let rhs = if placement == 0 {
                    Expr::Lit(Lit::V(b.clone()))
                } else {
                    Expr::Query { some: false, q: q_key(&[&format!("y{}", bi)]) }
                };
                let c = Clause { prefneg, some: false, q: q_key(&["x"]), kind: Kind::Binary { op: *op, opneg: *opneg, rhs }, msg: None };
                let why = format!("x={} : `{}` (b={})", a.to_json(), clause_text(&c), b.to_json());
                sigs.push(sig_for(a, b, *op, neg, placement == 1));
                exps.push(Expect { rule: rule1("c", Item::Clause(c)), want, why });
                asserted += 1;
                classes.push(format!("types:{}", if a.ty() == b.ty() { "same" } else { "different" }));
            }
        }
    }
    let doc = V::Map(docm).to_json();
    let mut evals = 0;
    // map each expectation to its signature by position (why is unique)
    let whys: Vec<String> = exps.iter().map(|e| e.why.clone()).collect();
    let sigf = |e: &Expect| -> Option<String> { whys.iter().position(|w| *w == e.why).map(|i| sigs[i].clone()) };
    match check_expected("c13", &doc, &[], &exps, &mut evals, &sigf) {
        Ok(()) => {}
        Err(fs) => return CaseResult::Fails(fs),
    }
    classes.sort();
    classes.dedup();
    CaseResult::Pass(Info {
        nontrivial: asserted > 0,
        key: hash_case(&[&doc, &format!("{}", placement)]),
        classes,
        evals,
        sample: Some(json!({"doc": doc, "clauses": asserted, "first": exps.iter().take(3).map(|e| format!("{} => {}", e.why, e.want.text())).collect::<Vec<_>>()})),
    })
}

// ------------------------------------------------------------------------------------------------
// ranges and `in [..]`

fn range_case(tier: Tier, i: usize) -> CaseResult {
    let ints: Vec<i64> = vec![i64::MIN, -1, 0, 1, 2, 5, i64::MAX];
    let floats: Vec<f64> = vec![-1.5, -0.0, 0.0, 5e-324, 0.5, 1.5, 2.0, 1e308];
    let is_int = i % 2 == 0;
    let idx = i / 2;
    let mut exps = vec![];
    let doc;
    if is_int {
        let a = ints[idx % ints.len()];
        doc = format!("{{\"x\":{}}}", a);
        let bounds: Vec<i64> = ints.iter().copied().filter(|x| *x != i64::MIN).collect();
        for lo in &bounds {
            for hi in &bounds {
                for (li, ui) in [(true, true), (false, false), (true, false), (false, true)] {
                    let holds = (if li { *lo <= a } else { *lo < a }) && (if ui { a <= *hi } else { a < *hi });
                    for (op, opneg) in [(BinOp::In, false), (BinOp::In, true), (BinOp::Eq, false)] {
                        let want = if holds != opneg { St::Pass } else { St::Fail };
                        let c = cl_bin(q_key(&["x"]), op, opneg, Lit::RangeI(*lo, *hi, li, ui));
                        exps.push(Expect { why: format!("x={} : `{}`", a, clause_text(&c)), rule: rule1("c", Item::Clause(c)), want });
                    }
                }
            }
        }
    } else {
        let a = floats[idx % floats.len()];
        doc = format!("{{\"x\":{}}}", crate::val::fmt_float(a));
        let bounds: Vec<f64> = floats.iter().copied().filter(|x| !x.is_sign_negative()).collect();
        for lo in &bounds {
            for hi in &bounds {
                for (li, ui) in [(true, true), (false, false), (true, false), (false, true)] {
                    let holds = (if li { *lo <= a } else { *lo < a }) && (if ui { a <= *hi } else { a < *hi });
                    for (op, opneg) in [(BinOp::In, false), (BinOp::In, true), (BinOp::Eq, false)] {
                        let want = if holds != opneg { St::Pass } else { St::Fail };
                        let c = cl_bin(q_key(&["x"]), op, opneg, Lit::RangeF(*lo, *hi, li, ui));
                        exps.push(Expect { why: format!("x={:?} : `{}`", a, clause_text(&c)), rule: rule1("c", Item::Clause(c)), want });
                    }
                }
            }
        }
    }
    let _ = tier;
    let mut evals = 0;
    let n = exps.len();
    match check_expected("c13", &doc, &[], &exps, &mut evals, &|_| Some("c13:range".into())) {
        Ok(()) => CaseResult::Pass(Info {
            nontrivial: true,
            key: hash_case(&[&doc, "range"]),
            classes: vec![format!("range:{}", if is_int { "int" } else { "float" })],
            evals,
            sample: Some(json!({"doc": doc, "range clauses": n, "first": exps.iter().take(2).map(|e| format!("{} => {}", e.why, e.want.text())).collect::<Vec<_>>()})),
        }),
        Err(fs) => CaseResult::Fails(fs),
    }
}

fn scalar_universe(tier: Tier) -> Vec<V> {
    universe(tier).into_iter().filter(|v| v.is_scalar()).collect()
}

fn in_list_case(u: &mut Choices, tier: Tier) -> CaseResult {
    let su = scalar_universe(tier);
    let a = su[u.below(su.len())].clone();
    let doc = V::Map(vec![("x".into(), a.clone())]).to_json();
    let mut exps = vec![];
    for _ in 0..8 {
        let n = u.below(5);
        let mut items = vec![];
        for _ in 0..n {
            // bias towards containing a
            let v = if u.chance(1, 4) { a.clone() } else { su[u.below(su.len())].clone() };
            if v_expressible(&v) {
                items.push(v);
            }
        }
        let mut member = items.iter().any(|v| v.ty() == a.ty() && compare(v, &a) == Cmp::Ordered(std::cmp::Ordering::Equal) || (v.ty() == a.ty() && matches!(compare(v, &a), Cmp::EqOnly(true))));
        // a third of the lists also hold a range or a regular expression: `X in [v1..vn]` holds iff X
        // equals some vi, and X equals a range / a pattern iff it lies within / matches
        let mut lits: Vec<Lit> = items.iter().map(|v| Lit::V(v.clone())).collect();
        if u.chance(1, 3) {
            let extra = match &a {
                V::Int(i) => {
                    let (lo, hi) = if u.chance(1, 2) { (i.saturating_sub(2), i.saturating_add(2)) } else { (i.saturating_add(1), i.saturating_add(5)) };
                    if lo < hi && *i > i64::MIN + 8 && *i < i64::MAX - 8 {
                        if lo <= *i && *i <= hi {
                            member = true;
                        }
                        Some(Lit::RangeI(lo, hi, true, true))
                    } else {
                        None
                    }
                }
                V::Str(sv) if sv.is_ascii() && !sv.is_empty() && sv.chars().all(|c| c.is_ascii_alphanumeric()) => {
                    if u.chance(1, 2) {
                        member = true;
                        Some(Lit::Regex(format!("^{}$", sv)))
                    } else {
                        Some(Lit::Regex("^zzz-no-match$".into()))
                    }
                }
                _ => None,
            };
            if let Some(x) = extra {
                let at = u.below(lits.len() + 1);
                lits.insert(at, x);
            }
        }
        let plain = lits.iter().all(|l| matches!(l, Lit::V(_)));
        for neg in [false, true] {
            let c = cl_bin(q_key(&["x"]), BinOp::In, neg, if plain { Lit::V(V::List(items.clone())) } else { Lit::List(lits.clone()) });
            let want = if member != neg { St::Pass } else { St::Fail };
            exps.push(Expect { why: format!("x={} : `{}`", a.to_json(), clause_text(&c)), rule: rule1("c", Item::Clause(c)), want });
        }
    }
    let mut evals = 0;
    let key = hash_case(&exps.iter().map(|e| e.why.as_str()).collect::<Vec<_>>());
    match check_expected("c13", &doc, &[], &exps, &mut evals, &|_| Some("c13:in-list".into())) {
        Ok(()) => CaseResult::Pass(Info {
            nontrivial: true,
            key,
            classes: vec!["in-list".into()],
            evals,
            sample: Some(json!({"doc": doc, "first": exps.iter().take(2).map(|e| format!("{} => {}", e.why, e.want.text())).collect::<Vec<_>>()})),
        }),
        Err(fs) => CaseResult::Fails(fs),
    }
}

// ------------------------------------------------------------------------------------------------
// regex: patterns from a mini-grammar x strings over {a,b,c}

fn gen_re(u: &mut Choices, depth: usize) -> String {
    let atom = |u: &mut Choices| -> String {
        match u.weighted(&[5, 2, 2, 1]) {
            0 => ["a", "b", "c"][u.below(3)].to_string(),
            1 => ".".to_string(),
            2 => ["[ab]", "[a-c]", "[^a]", "[bc]"][u.below(4)].to_string(),
            _ => "\\w".to_string(),
        }
    };
    let mut s = String::new();
    if u.chance(1, 4) {
        s.push('^');
    }
    let n = u.range(1, 4);
    for _ in 0..n {
        let mut piece = if depth < 2 && u.chance(1, 5) {
            let l = gen_re(u, depth + 1);
            let r = gen_re(u, depth + 1);
            // inner anchors make patterns unreadable; strip them
            format!("({}|{})", l.replace(['^', '$'], ""), r.replace(['^', '$'], ""))
        } else {
            atom(u)
        };
        match u.weighted(&[6, 1, 1, 1, 2]) {
            1 => piece.push('*'),
            2 => piece.push('+'),
            3 => piece.push('?'),
            4 => piece.push_str(*u.pick(&["{2}", "{1,2}", "{2,}", "{0,1}", "{3}", "{1}"])),
            _ => {}
        }
        s.push_str(&piece);
    }
    if depth == 0 && u.chance(1, 4) {
        s.push('$');
    }
    s
}

fn regex_case(u: &mut Choices) -> CaseResult {
    let pat = gen_re(u, 0);
    let re = match Re::new(&pat) {
        Some(r) => r,
        None => return CaseResult::Discard("regex-outside-mini-grammar"),
    };
    let mut exps = vec![];
    let mut docm = vec![];
    let mut any_match = false;
    let mut any_miss = false;
    for i in 0..6 {
        let n = u.below(6);
        let s: String = (0..n).map(|_| ['a', 'b', 'c'][u.below(3)]).collect();
        let m = re.is_match(&s);
        any_match |= m;
        any_miss |= !m;
        docm.push((format!("s{}", i), V::Str(s.clone())));
        for neg in [false, true] {
            let c = cl_bin(q_key(&[&format!("s{}", i)]), BinOp::Eq, neg, Lit::Regex(pat.clone()));
            exps.push(Expect { why: format!("s={:?} : `{}`", s, clause_text(&c)), rule: rule1("c", Item::Clause(c)), want: if m != neg { St::Pass } else { St::Fail } });
        }
    }
    let doc = V::Map(docm).to_json();
    let mut evals = 0;
    match check_expected("c13", &doc, &[], &exps, &mut evals, &|_| Some("c13:regex".into())) {
        Ok(()) => CaseResult::Pass(Info {
            nontrivial: any_match && any_miss,
            key: hash_case(&[&doc, &pat]),
            classes: vec![format!("regex:{}", if any_match && any_miss { "match+miss" } else if any_match { "all-match" } else { "all-miss" })],
            evals,
            sample: Some(json!({"pattern": pat, "doc": doc})),
        }),
        Err(fs) => CaseResult::Fails(fs),
    }
}

pub fn replay(case: &J) -> CaseResult {
    replay_expected("c13", case, "c13:unexpected-status")
}

pub fn run(tier: Tier, seed: u64) -> i32 {
    let spec = EvidenceSpec {
        rule: "Stage 'pairs' enumerates every ordered pair (a,b) of the value universe in two placements (`x op <literal b>` on {x:a}; `x op y` on {x:a,y:b}) x {==,!=,<,<=,>,>=} x prefix-not; the expected status is computed natively (i64 / f64 / code-point order, structural equality of maps irrespective of key order and lists in order); pairs with exactly one list operand and nested mixed-type comparisons are not asserted. Stage 'ranges' enumerates value x bracket form x bound pair for int and float ranges with `in`, `not in` and `==`. Stage 'in-list' and 'regex' are random: scalar vs list literals of universe scalars; mini-grammar patterns vs strings over {a,b,c} with an independent backtracking matcher. One case = one batch file of single-clause rules (for a fixed a); non-trivial when it asserts at least one clause (regex: the pattern both matches and misses); distinct by hash of the document and placement.".into(),
        assumptions: vec![
            "list/single-value coercion is exempt from the cross-type and symmetry laws (documented 'to be or not to be an array'; covered by C01)".into(),
            "negative floats and i64::MIN appear only on the document side (not expressible as literals)".into(),
        ],
    };
    execute("C13", tier, seed, spec, &replay, &|run: &Session| {
        let n = universe(tier).len();
        run.run_enum("pairs", n * 2, |i| pair_case(tier, i));
        run.run_enum("ranges", 16, |i| range_case(tier, i));
        run.run_random("in-list", tier.pick(3_000, 60_000), 120, |u| in_list_case(u, tier));
        run.run_random("regex", tier.pick(6_000, 200_000), 160, regex_case);
    })
}
