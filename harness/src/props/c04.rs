//! C04 — verdicts do not depend on the order or repetition of clauses and rules.
use crate::ast::*;
use crate::choices::Choices;
use crate::drive::{verdict, Verdict};
use crate::engine::*;
use crate::gen::*;
use crate::model::St;
use crate::val::V;
use serde_json::{json, Value as J};
use std::collections::BTreeMap;

fn count_cnfs(file: &File) -> usize {
    let mut n = 0;
    visit_cnfs(&mut file.clone(), &mut |_| n += 1);
    n
}

fn with_cnf(file: &File, k: usize, g: &mut dyn FnMut(&mut Cnf)) -> File {
    let mut f2 = file.clone();
    let mut i = 0;
    visit_cnfs(&mut f2, &mut |c| {
        if i == k {
            g(c);
        }
        i += 1;
    });
    f2
}

pub fn permutations(n: usize) -> Vec<Vec<usize>> {
    fn rec(cur: &mut Vec<usize>, used: &mut Vec<bool>, n: usize, out: &mut Vec<Vec<usize>>) {
        if cur.len() == n {
            out.push(cur.clone());
            return;
        }
        for i in 0..n {
            if !used[i] {
                used[i] = true;
                cur.push(i);
                rec(cur, used, n, out);
                cur.pop();
                used[i] = false;
            }
        }
    }
    let mut out = vec![];
    rec(&mut vec![], &mut vec![false; n], n, &mut out);
    out
}

fn sample_perms(u: &mut Choices, n: usize) -> Vec<Vec<usize>> {
    if n <= 4 {
        let mut p = permutations(n);
        p.remove(0); // identity
        p
    } else {
        let mut out = vec![];
        for _ in 0..8 {
            let mut idx: Vec<usize> = (0..n).collect();
            for i in (1..n).rev() {
                let j = u.below(i + 1);
                idx.swap(i, j);
            }
            out.push(idx);
        }
        out
    }
}

fn apply_perm<T: Clone>(xs: &[T], p: &[usize]) -> Vec<T> {
    p.iter().map(|i| xs[*i].clone()).collect()
}

struct Variant {
    op: String,
    file: File,
    /// name of a duplicated rule's copy -> original
    copies: Vec<(String, String)>,
}

fn make_variants(u: &mut Choices, file: &File) -> Vec<Variant> {
    let mut out = vec![];
    let ncnf = count_cnfs(file);
    let nops = u.range(1, 3);
    for _ in 0..nops {
        match u.below(7) {
            0 | 1 => {
                // permute the lines of one CNF
                let k = u.below(ncnf);
                let mut len = 0;
                with_cnf(file, k, &mut |c| len = c.len());
                if len >= 2 {
                    for p in sample_perms(u, len) {
                        out.push(Variant { op: format!("permute-lines cnf#{} {:?}", k, p), file: with_cnf(file, k, &mut |c| *c = apply_perm(c, &p)), copies: vec![] });
                    }
                }
            }
            2 => {
                // permute the alternatives of one line
                let k = u.below(ncnf);
                let mut lens = vec![];
                with_cnf(file, k, &mut |c| lens = c.iter().map(|l| l.len()).collect());
                let cands: Vec<usize> = lens.iter().enumerate().filter(|(_, l)| **l >= 2).map(|(i, _)| i).collect();
                if !cands.is_empty() {
                    let li = cands[u.below(cands.len())];
                    for p in sample_perms(u, lens[li]) {
                        out.push(Variant {
                            op: format!("permute-alternatives cnf#{} line {} {:?}", k, li, p),
                            file: with_cnf(file, k, &mut |c| c[li] = apply_perm(&c[li], &p)),
                            copies: vec![],
                        });
                    }
                }
            }
            3 => {
                // duplicate a line / an alternative
                let k = u.below(ncnf);
                let mut len = 0;
                with_cnf(file, k, &mut |c| len = c.len());
                if len >= 1 {
                    let li = u.below(len);
                    let at = u.below(len + 1);
                    out.push(Variant {
                        op: format!("duplicate-line cnf#{} line {} at {}", k, li, at),
                        file: with_cnf(file, k, &mut |c| {
                            let l = c[li].clone();
                            c.insert(at, l)
                        }),
                        copies: vec![],
                    });
                    let ai_seed = u.below(8);
                    out.push(Variant {
                        op: format!("duplicate-alternative cnf#{} line {}", k, li),
                        file: with_cnf(file, k, &mut |c| {
                            let ai = ai_seed % c[li].len();
                            let a = c[li][ai].clone();
                            c[li].push(a)
                        }),
                        copies: vec![],
                    });
                }
            }
            4 | 5 => {
                // permute the rules of the file
                let n = file.rules.len();
                if n >= 2 {
                    for p in sample_perms(u, n) {
                        let mut f2 = file.clone();
                        f2.rules = apply_perm(&file.rules, &p);
                        out.push(Variant { op: format!("permute-rules {:?}", p), file: f2, copies: vec![] });
                    }
                }
            }
            _ => {
                // duplicate a rule under a fresh name
                let n = file.rules.len();
                let i = u.below(n);
                let at = u.below(n + 1);
                let mut f2 = file.clone();
                let mut r = file.rules[i].clone();
                let copy = format!("{}copy", r.name);
                r.name = copy.clone();
                f2.rules.insert(at, r);
                out.push(Variant { op: format!("duplicate-rule {} at {}", file.rules[i].name, at), file: f2, copies: vec![(copy, file.rules[i].name.clone())] });
            }
        }
    }
    if out.is_empty() {
        // nothing above applied (single-line, single-rule program): a duplicated line always does
        let k = 0;
        let mut len = 0;
        with_cnf(file, k, &mut |c| len = c.len());
        if len >= 1 {
            out.push(Variant { op: "duplicate-line cnf#0 line 0 at 0".to_string(), file: with_cnf(file, k, &mut |c| c.insert(0, c[0].clone())), copies: vec![] });
        }
    }
    out
}

fn status_map(v: &Verdict) -> Option<(BTreeMap<String, St>, St)> {
    match v {
        Verdict::Ok { rules, file } => Some((rules.iter().cloned().collect(), *file)),
        _ => None,
    }
}

/// the predicate on texts: variant must give the same status for every rule of the base
fn compare(doc: &str, base: &str, variant: &str, copies: &[(String, String)]) -> Result<Option<BTreeMap<String, St>>, (String, String)> {
    let (vb, _) = verdict(doc, base);
    let (vv, _) = verdict(doc, variant);
    for v in [&vb, &vv] {
        match v {
            Verdict::Panic(p) => return Err((format!("panic {}", p), format!("panic:{}", p.split(' ').next().unwrap_or("")))),
            Verdict::ParseErr(e) => return Err((format!("generated program rejected by the parser: {}", e), "c04:generator-invalid".into())),
            _ => {}
        }
    }
    let (mb, fb) = match status_map(&vb) {
        Some(x) => x,
        None => return Ok(None), // evaluation error: the statement's precondition
    };
    let (mv, fv) = match status_map(&vv) {
        Some(x) => x,
        None => return Ok(None),
    };
    for (n, s) in &mb {
        if mv.get(n) != Some(s) {
            return Err((format!("rule {} is {} in the original and {:?} in the variant ({} vs {})", n, s.text(), mv.get(n).map(|s| s.text()), vb.short(), vv.short()), "c04:status-changed".into()));
        }
    }
    for (c, o) in copies {
        if mv.get(c) != mb.get(o) {
            return Err((format!("copy {} of rule {} is {:?}, the original {:?}", c, o, mv.get(c).map(|s| s.text()), mb.get(o).map(|s| s.text())), "c04:copy-differs".into()));
        }
    }
    // file status: a duplicated rule cannot change it either (same status as its original)
    if fb != fv {
        return Err((format!("file status {} vs {}", fb.text(), fv.text()), "c04:file-status-changed".into()));
    }
    Ok(Some(mb))
}

// ------------------------------------------------------------------------------------------------
// a rule name defined twice: the order of the two definitions must not matter either

fn multi_status(v: &Verdict) -> Option<(BTreeMap<String, Vec<St>>, St)> {
    match v {
        Verdict::Ok { rules, file } => {
            let mut m: BTreeMap<String, Vec<St>> = BTreeMap::new();
            for (n, s) in rules {
                m.entry(n.clone()).or_default().push(*s);
            }
            m.values_mut().for_each(|v| v.sort());
            Some((m, *file))
        }
        _ => None,
    }
}

fn compare_multi(doc: &str, base: &str, variant: &str) -> Result<Option<usize>, (String, String)> {
    let (vb, _) = verdict(doc, base);
    let (vv, _) = verdict(doc, variant);
    for v in [&vb, &vv] {
        match v {
            Verdict::Panic(p) => return Err((format!("panic {}", p), format!("panic:{}", p.split(' ').next().unwrap_or("")))),
            Verdict::ParseErr(e) => return Err((format!("generated program rejected by the parser: {}", e), "c04:generator-invalid".into())),
            _ => {}
        }
    }
    match (multi_status(&vb), multi_status(&vv)) {
        (Some((a, fa)), Some((b, fb))) => {
            if a != b || fa != fb {
                let n = a.iter().find(|(k, v)| b.get(*k) != Some(v)).map(|(k, _)| k.clone()).unwrap_or_default();
                return Err((format!("with the two definitions of a rule name exchanged, rule {} changes: {} vs {}", n, vb.short(), vv.short()), "c04:duplicate-names:status-changed".into()));
            }
            Ok(Some(a.values().filter(|v| v.len() > 1 && v.first() != v.last()).count()))
        }
        _ => Ok(None),
    }
}

fn dup_case(u: &mut Choices, sz: Size) -> CaseResult {
    let doc = gen_doc(u, &sz);
    let mut file = gen_core_file(u, &doc, sz, true, true);
    // make sure a name is defined twice: the last rule takes the name of an earlier one, and
    // references to its old name follow
    if file.rules.len() == 1 {
        // a second, simple definition of the only name
        let name = file.rules[0].name.clone();
        file.rules.push(Rule { name, when: None, lets: vec![], body: vec![vec![Item::Clause(cl_un(q_key(&[KEYS[u.below(KEYS.len())]]), UnOp::Exists, u.chance(1, 2)))]] });
    }
    let n = file.rules.len();
    if n >= 2 && !(0..n).any(|i| (i + 1..n).any(|j| file.rules[i].name == file.rules[j].name)) {
        let i = u.below(n - 1);
        let (old, new) = (file.rules[n - 1].name.clone(), file.rules[i].name.clone());
        file.rules[n - 1].name = new.clone();
        visit_cnfs(&mut file, &mut |cnf: &mut Cnf| {
            for line in cnf.iter_mut() {
                for it in line.iter_mut() {
                    if let Item::Ref { name, .. } = it {
                        if *name == old {
                            *name = new.clone();
                        }
                    }
                }
            }
        });
    }
    // the two definitions of the duplicated name
    let mut pair = None;
    'o: for i in 0..file.rules.len() {
        for j in i + 1..file.rules.len() {
            if file.rules[i].name == file.rules[j].name {
                pair = Some((i, j));
                break 'o;
            }
        }
    }
    let (i, j) = match pair {
        Some(p) => p,
        None => return CaseResult::Discard("no-duplicated-name"),
    };
    let mut f2 = file.clone();
    f2.rules.swap(i, j);
    let (doc_text, base, variant) = (doc.to_json(), print_file(&file), print_file(&f2));
    let referenced = base.lines().any(|l| {
        let t = l.trim().trim_start_matches("not ");
        t == file.rules[i].name
    });
    // first: every rule order that keeps the two definitions in their relative order (however a
    // reference to the name is resolved, it can only depend on the order of the definitions)
    let nr = file.rules.len();
    for p in sample_perms(u, nr) {
        let (pi, pj) = (p.iter().position(|x| *x == i).unwrap_or(0), p.iter().position(|x| *x == j).unwrap_or(0));
        if pi > pj {
            continue;
        }
        let mut f3 = file.clone();
        f3.rules = p.iter().map(|k| file.rules[*k].clone()).collect();
        let v3 = print_file(&f3);
        match compare_multi(&doc_text, &base, &v3) {
            Ok(None) => return CaseResult::Discard("evaluation-error-in-some-ordering"),
            Ok(Some(_)) => {}
            Err((msg, sig)) => {
                let sig = if sig == "c04:duplicate-names:status-changed" { "c04:duplicate-names:order-of-other-rules".to_string() } else { sig };
                return CaseResult::Fail(Failure { msg: format!("rules reordered as {:?}, the two definitions of {} kept in their order: {}", p, file.rules[i].name, msg), sig, case: json!({"kind": "duplicate-names", "doc": doc_text, "base": base, "variant": v3, "sig": "c04:duplicate-names:order-of-other-rules"}) });
            }
        }
    }
    match compare_multi(&doc_text, &base, &variant) {
        Ok(None) => CaseResult::Discard("evaluation-error-in-some-ordering"),
        Ok(Some(mixed)) => CaseResult::Pass(Info {
            nontrivial: mixed > 0,
            key: hash_case(&[&doc_text, &base]),
            classes: vec![format!("duplicate-name:definitions-differ:{}", mixed > 0), format!("duplicate-name:referenced:{}", referenced)],
            evals: 2,
            sample: Some(json!({"doc": doc_text, "base": base, "variant": variant})),
        }),
        Err((msg, sig)) => CaseResult::Fail(Failure { msg, sig, case: json!({"kind": "duplicate-names", "doc": doc_text, "base": base, "variant": variant}) }),
    }
}

pub fn replay(case: &J) -> CaseResult {
    if case["kind"] == "duplicate-names" {
        return match compare_multi(case["doc"].as_str().unwrap_or(""), case["base"].as_str().unwrap_or(""), case["variant"].as_str().unwrap_or("")) {
            Ok(_) => CaseResult::Pass(Info::default()),
            Err((msg, sig)) => CaseResult::Fail(Failure { msg, sig: case["sig"].as_str().map(String::from).unwrap_or(sig), case: case.clone() }),
        };
    }
    let doc = case["doc"].as_str().unwrap_or("");
    let copies: Vec<(String, String)> = case["copies"].as_array().map(|a| a.iter().map(|p| (p[0].as_str().unwrap_or("").to_string(), p[1].as_str().unwrap_or("").to_string())).collect()).unwrap_or_default();
    match compare(doc, case["base"].as_str().unwrap_or(""), case["variant"].as_str().unwrap_or(""), &copies) {
        Ok(_) => CaseResult::Pass(Info::default()),
        Err((msg, sig)) => CaseResult::Fail(Failure { msg, sig, case: case.clone() }),
    }
}

fn random_case(u: &mut Choices, sz: Size) -> CaseResult {
    let wide = u.chance(1, 2);
    let mut doc = if wide { gen_cfn_doc(u, &sz) } else { gen_doc(u, &sz) };
    // a third of the wide cases: multi-word keys present in several spellings with different
    // values and queried in yet another spelling (which one the tool's case converters find is its
    // business - but not the order of the clauses)
    let mut sz = sz;
    if wide && u.chance(1, 3) {
        sz.alt_case = true;
        add_case_families(u, &mut doc);
    }
    let mut file = if wide { gen_wide_file(u, &doc, sz, false) } else { gen_core_file(u, &doc, sz, true, false) };
    if sz.alt_case {
        // two rules that reach the two families through different conversions, in both orders
        let fam = |i: usize, k: usize| Query { head: Head::Key(CASE_FAMILIES[i][k].to_string()), parts: vec![] };
        let (k0, k1) = (u.below(3), u.below(3));
        let n = file.rules.len();
        let c0 = Item::Clause(cl_un(fam(0, k0), UnOp::Exists, false));
        let c1 = Item::Clause(cl_bin(fam(1, k1), BinOp::Eq, false, Lit::V(V::s("v1"))));
        let c2 = Item::Clause(cl_bin(fam(0, (k0 + 1) % 3), BinOp::Eq, false, Lit::V(V::Int(2))));
        file.rules.push(Rule { name: format!("cf{}a", n), when: None, lets: vec![], body: vec![vec![c1.clone()], vec![c2.clone()], vec![c0.clone()]] });
        let at = u.below(file.rules.len());
        file.rules.insert(at, Rule { name: format!("cf{}b", n), when: None, lets: vec![], body: vec![vec![c2], vec![c1]] });
    }
    // a quarter of the wide programs capture map keys in a variable and count them elsewhere
    let captures = wide && u.chance(1, 4);
    if captures {
        add_capture_idiom(u, &mut file, &doc);
    }
    // ... and a quarter guard rules by the presence of a resource type (same path, different filters)
    if wide && u.chance(1, 4) {
        add_type_guard_idiom(u, &mut file, &doc);
    }
    let doc_text = doc.to_json();
    let base = print_file(&file);
    let variants = make_variants(u, &file);
    if variants.is_empty() {
        return CaseResult::Discard("nothing-to-permute");
    }
    let mut evals = 0;
    let mut classes = vec![];
    let mut base_map = None;
    for v in &variants {
        let vt = print_file(&v.file);
        evals += 2;
        match compare(&doc_text, &base, &vt, &v.copies) {
            Ok(None) => return CaseResult::Discard("evaluation-error-in-some-ordering"),
            Ok(Some(m)) => base_map = Some(m),
            Err((msg, sig)) => {
                return CaseResult::Fail(Failure {
                    msg: format!("{}: {}", v.op, msg),
                    sig,
                    case: json!({"doc": doc_text, "base": base, "variant": vt, "op": v.op, "copies": v.copies.iter().map(|(a, b)| json!([a, b])).collect::<Vec<_>>()}),
                })
            }
        }
        classes.push(format!("op:{}", v.op.split(' ').next().unwrap_or("")));
    }
    classes.sort();
    classes.dedup();
    let m = base_map.unwrap_or_default();
    let distinct: std::collections::BTreeSet<St> = m.values().copied().collect();
    let has_ref = base.lines().any(|l| {
        let t = l.trim().trim_start_matches("not ");
        t.starts_with('r') && t.len() <= 3 && t[1..].chars().all(|c| c.is_ascii_digit())
    });
    classes.push(format!("variants:{}", variants.len().min(10)));
    if captures {
        classes.push("has:key-capture".into());
    }
    if has_ref {
        classes.push("has:rule-reference".into());
    }
    CaseResult::Pass(Info {
        nontrivial: has_ref || distinct.len() >= 2 || distinct.iter().any(|s| *s != St::Skip),
        key: hash_case(&[&doc_text, &base, &variants[0].op]),
        classes,
        evals,
        sample: Some(json!({"doc": doc_text, "base": base, "ops": variants.iter().map(|v| v.op.clone()).take(5).collect::<Vec<_>>()})),
    })
}

pub fn run(tier: Tier, seed: u64) -> i32 {
    let spec = EvidenceSpec {
        rule: "Random programs (core and wide fragment, unique rule names, rule references in both directions, shared file-level variables; a quarter of the wide programs capture the keys of a filtered map in a variable - `Resources[ c | Type == 'T' ]` - count them in a file-level `let` and use both in a rule that refers to the capturing rule) x documents; 1-3 operations per case out of {permute the lines of one CNF (rule body, when condition, block, filter, type block), permute the alternatives of one line, duplicate a line, duplicate an alternative, permute the rules of the file, duplicate a rule under a fresh name}; all permutations when the permuted sequence has <=4 items, 8 sampled ones otherwise. Every variant is evaluated by the tool and must give every rule of the original (by name) the same status, the same file status, and a copy the status of its original. Cases in which any ordering raises an evaluation error are discarded (the statement's precondition) and counted. Non-trivial: the program has a rule reference or a rule that is not SKIP; distinct by hash of (document, program, first operation).".into(),
        assumptions: vec!["rule names are unique within a file (the status of a name defined twice with different verdicts depends on definition order by design)".into()],
    };
    execute("C04", tier, seed, spec, &replay, &|run: &Session| {
        let sz = tier.pick(Size::quick(), Size::thorough());
        run.run_random("duplicate-names", tier.pick(6_000, 120_000), tier.pick(1200, 2400), |u| dup_case(u, sz));
        run.run_random("permutations", tier.pick(25_000, 600_000), tier.pick(1200, 2400), |u| random_case(u, sz));
        let st = run.stats.lock().unwrap();
        let disc: u64 = st.discards.values().sum();
        if st.cases > 0 && disc * 100 / (st.cases + disc) > 25 {
            drop(st);
            run.inconclusive("more than 25% of the cases were discarded".into());
        }
    })
}
