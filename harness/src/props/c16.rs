//! C16 — `cfn-guard test` agrees with `cfn-guard validate`.
use crate::ast::*;
use crate::choices::Choices;
use crate::docw::{write_doc, Style};
use crate::drive::*;
use crate::engine::*;
use crate::gen::*;
use crate::model::St;
use crate::props::c07::{parse_junit, strip_ansi};
use crate::val::V;
use serde_json::{json, Value as J};
use std::collections::{BTreeMap, BTreeSet};

#[derive(Debug, Clone, PartialEq, Default)]
struct CaseOut {
    passed: BTreeSet<String>,
    /// name -> (expected, evaluated list)
    failed: BTreeMap<String, (String, Vec<String>)>,
    no_expectation: BTreeSet<String>,
}

fn expected_out(truth: &[(String, St)], exps: &BTreeMap<String, St>) -> CaseOut {
    let mut by: BTreeMap<String, Vec<St>> = BTreeMap::new();
    for (n, s) in truth {
        by.entry(n.clone()).or_default().push(*s);
    }
    let mut out = CaseOut::default();
    for (n, sts) in &by {
        match exps.get(n) {
            None => {
                out.no_expectation.insert(n.clone());
            }
            Some(e) => {
                let met = if *e == St::Skip { sts.iter().all(|s| *s == St::Skip) } else { sts.iter().any(|s| s == e) };
                if met {
                    out.passed.insert(n.clone());
                } else {
                    out.failed.insert(n.clone(), (e.text().to_string(), sts.iter().map(|s| s.text().to_string()).collect()));
                }
            }
        }
    }
    out
}

fn parse_console(out: &str) -> Vec<CaseOut> {
    let txt = strip_ansi(out);
    let mut cases = vec![];
    let mut cur: Option<CaseOut> = None;
    let mut section = "";
    for line in txt.lines() {
        let t = line.trim();
        if t.starts_with("Test Case #") {
            if let Some(c) = cur.take() {
                cases.push(c);
            }
            cur = Some(CaseOut::default());
            section = "";
        } else if let Some(c) = cur.as_mut() {
            if let Some(n) = t.strip_prefix("No Test expectation was set for Rule ") {
                c.no_expectation.insert(crate::drive::strip_file_prefix(n.trim()));
            } else if t == "FAIL Rules:" {
                section = "fail";
            } else if t == "PASS Rules:" {
                section = "pass";
            } else if let Some((name, rest)) = t.split_once(": Expected = ") {
                let name = crate::drive::strip_file_prefix(name);
                if section == "pass" {
                    c.passed.insert(name.to_string());
                } else if section == "fail" {
                    let (e, ev) = rest.split_once(", Evaluated = ").unwrap_or((rest, "[]"));
                    let list: Vec<String> = ev.trim_matches(|c| c == '[' || c == ']').split(',').map(|s| s.trim().to_string()).filter(|s| !s.is_empty()).collect();
                    c.failed.insert(name.to_string(), (e.to_string(), list));
                }
            }
        }
    }
    if let Some(c) = cur.take() {
        cases.push(c);
    }
    cases
}

fn parse_structured(j: &J) -> Result<Vec<CaseOut>, String> {
    let tcs = j["test_cases"].as_array().ok_or("no test_cases in the structured output")?;
    let mut out = vec![];
    for tc in tcs {
        let mut c = CaseOut::default();
        for p in tc["passed_rules"].as_array().cloned().unwrap_or_default() {
            c.passed.insert(crate::drive::strip_file_prefix(p["name"].as_str().unwrap_or("")));
        }
        for f in tc["failed_rules"].as_array().cloned().unwrap_or_default() {
            c.failed.insert(
                crate::drive::strip_file_prefix(f["name"].as_str().unwrap_or("")),
                (f["expected"].as_str().unwrap_or("").to_string(), f["evaluated"].as_array().map(|a| a.iter().map(|s| s.as_str().unwrap_or("").to_string()).collect()).unwrap_or_default()),
            );
        }
        for s in tc["skipped_rules"].as_array().cloned().unwrap_or_default() {
            c.no_expectation.insert(crate::drive::strip_file_prefix(s["name"].as_str().unwrap_or("")));
        }
        out.push(c);
    }
    Ok(out)
}

struct TestCase {
    rules: String,
    inputs: Vec<String>, // JSON texts
    exps: Vec<BTreeMap<String, St>>,
    spec_yaml: bool,
    dir_layout: bool,
    /// --dir only: a second guard file whose stem continues the first one's with a character that
    /// sorts before `.` (`x-logs.guard` beside `x.guard`), with a test file of its own
    second: bool,
}

/// `default_name`: the name under which the test command knows the implicit rule of the file
/// (`<stem>/default` with --dir, `<rules path as given>/default` with -r / -t)
fn spec_text(c: &TestCase, default_name: &str) -> String {
    let specs: Vec<V> = c
        .inputs
        .iter()
        .zip(&c.exps)
        .enumerate()
        .map(|(i, (inp, e))| {
            V::Map(vec![
                ("name".into(), V::Str(format!("case{}", i))),
                ("input".into(), V::parse_json(inp).unwrap_or(V::Null)),
                ("expectations".into(), V::Map(vec![("rules".into(), V::Map(e.iter().map(|(k, v)| (if k == "default" { default_name.to_string() } else { k.clone() }, V::s(v.text()))).collect()))])),
            ])
        })
        .collect();
    let v = V::List(specs);
    if c.spec_yaml {
        let empty: [u32; 0] = [];
        let mut u0 = Choices::new(&empty);
        write_doc(&v, Style::YamlBlock, &mut u0, false).text
    } else {
        v.to_json()
    }
}

/// the predicate
fn check(c: &TestCase, evals: &mut u64) -> Result<Option<(usize, usize, usize)>, (String, String)> {
    // ground truth: the validate path (library entry point) on every input
    let mut wants = vec![];
    for (inp, e) in c.inputs.iter().zip(&c.exps) {
        *evals += 1;
        let (v, _) = verdict(inp, &c.rules);
        match v {
            Verdict::Ok { rules, .. } => {
                let rules: Vec<(String, St)> = rules.into_iter().map(|(n, s)| (crate::drive::strip_file_prefix(&n), s)).collect();
                // the `validate` command itself (its own document loader) assigns the same statuses
                *evals += 1;
                let vr = validate_payload(&[c.rules.clone()], &[inp.clone()], &[], &VOpts::structured(Fmt::Json));
                if let (Ok(0) | Ok(19), Ok(j)) = (&vr.code, serde_json::from_str::<J>(&vr.out)) {
                    if let Ok(o) = crate::props::c07::obs_from_report(&j[0]) {
                        let last = |n: &String| crate::drive::strip_file_prefix(n).rsplit('/').next().unwrap_or("").to_string();
                        let set = |st: St| -> BTreeSet<String> { rules.iter().filter(|(_, s)| *s == st).map(|(n, _)| last(n)).collect() };
                        if o.pass.as_ref().map_or(false, |p| *p != set(St::Pass)) || o.fail.as_ref().map_or(false, |p| *p != set(St::Fail)) || o.skip.as_ref().map_or(false, |p| *p != set(St::Skip)) {
                            return Err((
                                format!("the validate command reports PASS {:?} FAIL {:?} SKIP {:?} on an input for which the library evaluation (the test command's path) gives {:?}", o.pass, o.fail, o.skip, rules.iter().map(|(n, s)| format!("{}={}", n, s.text())).collect::<Vec<_>>()),
                                "c16:validate-command-differs".into(),
                            ));
                        }
                    }
                }
                wants.push(expected_out(&rules, e))
            }
            Verdict::EvalErr(_) => return Ok(None),
            Verdict::ParseErr(x) => return Err((format!("generator-invalid: {}", x), "c16:generator-invalid".into())),
            Verdict::Panic(p) => return Err((format!("panic {}", p), format!("panic:{}", p.split(' ').next().unwrap_or("")))),
        }
    }
    let any_failed = wants.iter().any(|w| !w.failed.is_empty());
    let dir = fresh_dir("c16");
    let rp = dir.join("x.guard");
    let tp = dir.join(format!("tests/x_tests.{}", if c.spec_yaml { "yaml" } else { "json" }));
    write_file(&rp, &c.rules);
    let second = c.dir_layout && c.second;
    if second {
        write_file(&dir.join("x-logs.guard"), "rule other {\n  a exists\n}\n");
        write_file(&dir.join("tests/x-logs_tests.yaml"), "- name: m\n  input: {a: 1}\n  expectations:\n    rules:\n      other: PASS\n");
    }
    let default_name = if c.dir_layout { "x/default".to_string() } else { format!("{}/default", rp.to_string_lossy()) };
    write_file(&tp, &spec_text(c, &default_name));
    let mut totals = (0, 0, 0);
    for fmt in [Fmt::Single, Fmt::Json, Fmt::Yaml, Fmt::Junit] {
        let o = TOpts { fmt, verbose: false, alphabetical: false, last_modified: false };
        *evals += 1;
        let r = if c.dir_layout { test_dir(&dir.to_string_lossy(), &o) } else { test_files(&rp.to_string_lossy(), &tp.to_string_lossy(), &o) };
        let what = format!("test -o {}{}", fmt.flag(), if c.dir_layout { " --dir" } else { "" });
        if let Some(p) = &r.panic {
            return Err((format!("{}: panic {}", what, p), format!("panic:{}", p.split(' ').next().unwrap_or(""))));
        }
        let want_code = if any_failed { 7 } else { 0 };
        if r.code != Ok(want_code) {
            return Err((format!("{}: exit {:?}, expected {} ; {}", what, r.code, want_code, r.brief()), format!("c16:exit-code:{}", fmt.flag())));
        }
        let got: Vec<CaseOut> = match fmt {
            Fmt::Single if second => {
                // the section of x.guard only
                let txt = strip_ansi(&r.out);
                let mut mine = String::new();
                let mut on = false;
                for line in txt.lines() {
                    if line.starts_with("Testing Guard File") {
                        on = line.trim_end().ends_with("/x.guard");
                    } else if on {
                        mine.push_str(line);
                        mine.push('\n');
                    }
                }
                parse_console(&mine)
            }
            Fmt::Single => parse_console(&r.out),
            Fmt::Json | Fmt::Yaml => {
                let j: J = if fmt == Fmt::Json { serde_json::from_str(&r.out).map_err(|e| (format!("{}: not JSON: {}", what, e), "c16:json".to_string()))? } else { serde_yaml::from_str(&r.out).map_err(|e| (format!("{}: not YAML: {}", what, e), "c16:yaml".to_string()))? };
                let one = if c.dir_layout { j.as_array().and_then(|a| a.iter().find(|e| e["rule_file"].as_str().map_or(false, |f| f.ends_with("/x.guard"))).cloned()).unwrap_or(J::Null) } else { j };
                parse_structured(&one).map_err(|e| (format!("{}: {}", what, e), "c16:structured".to_string()))?
            }
            _ => {
                // JUnit: per (test case id, rule name) pass / failure marks
                let ju = parse_junit(&r.out).map_err(|e| (format!("{}: {}", what, e), "c16:junit".to_string()))?;
                let np: usize = wants.iter().map(|w| w.passed.len()).sum::<usize>() + if second { 1 } else { 0 };
                let nf: usize = wants.iter().map(|w| w.failed.len()).sum();
                let gp = ju.cases.iter().filter(|c| c.1 == "pass").count();
                let gf = ju.cases.iter().filter(|c| c.1 == "fail").count();
                if (gp, gf) != (np, nf) {
                    return Err((format!("{}: {} pass / {} failure marks, the evaluation gives {} met / {} unmet expectations", what, gp, gf, np, nf), "c16:junit-marks".into()));
                }
                if ju.tests_attr != Some(np + nf) || ju.failures_attr != Some(nf) {
                    return Err((format!("{}: counters tests={:?} failures={:?}, expected {} / {}", what, ju.tests_attr, ju.failures_attr, np + nf, nf), "c16:junit-counters".into()));
                }
                continue;
            }
        };
        if got.len() != wants.len() {
            return Err((format!("{}: {} test cases reported, {} given", what, got.len(), wants.len()), "c16:case-count".into()));
        }
        for (i, (g, w)) in got.iter().zip(&wants).enumerate() {
            if g.passed != w.passed {
                return Err((format!("{} case {}: rules reported as meeting their expectation {:?}, by the validate path {:?}", what, i, g.passed, w.passed), format!("c16:passed-set:{}", fmt.flag())));
            }
            if g.failed != w.failed {
                return Err((format!("{} case {}: failed expectations {:?}, by the validate path {:?}", what, i, g.failed, w.failed), format!("c16:failed-set:{}", fmt.flag())));
            }
            if g.no_expectation != w.no_expectation {
                return Err((format!("{} case {}: rules without expectation {:?}, expected {:?}", what, i, g.no_expectation, w.no_expectation), format!("c16:no-expectation:{}", fmt.flag())));
            }
        }
    }
    for w in &wants {
        totals.0 += w.passed.len();
        totals.1 += w.failed.len();
        totals.2 += w.no_expectation.len();
    }
    Ok(Some(totals))
}

fn case_json(c: &TestCase) -> J {
    json!({"rules": c.rules, "inputs": c.inputs, "spec_yaml": c.spec_yaml, "dir_layout": c.dir_layout, "second": c.second,
           "expectations": c.exps.iter().map(|e| e.iter().map(|(k, v)| (k.clone(), J::String(v.text().to_string()))).collect::<serde_json::Map<String, J>>()).collect::<Vec<_>>()})
}

pub fn replay(case: &J) -> CaseResult {
    let c = TestCase {
        rules: case["rules"].as_str().unwrap_or("").to_string(),
        inputs: case["inputs"].as_array().map(|a| a.iter().map(|x| x.as_str().unwrap_or("").to_string()).collect()).unwrap_or_default(),
        exps: case["expectations"]
            .as_array()
            .map(|a| a.iter().map(|e| e.as_object().map(|o| o.iter().filter_map(|(k, v)| St::parse(v.as_str().unwrap_or("")).map(|s| (k.clone(), s))).collect()).unwrap_or_default()).collect())
            .unwrap_or_default(),
        spec_yaml: case["spec_yaml"].as_bool().unwrap_or(false),
        dir_layout: case["dir_layout"].as_bool().unwrap_or(false),
        second: case["second"].as_bool().unwrap_or(false),
    };
    let mut ev = 0;
    match check(&c, &mut ev) {
        Ok(_) => CaseResult::Pass(Info::default()),
        Err((msg, sig)) => CaseResult::Fail(Failure { msg, sig, case: case.clone() }),
    }
}

fn random_case(u: &mut Choices, sz: Size) -> CaseResult {
    // a quarter of the cases: CloudFormation-shaped inputs and a program that captures map keys
    let captures = u.chance(1, 4);
    let doc = if captures { gen_cfn_doc(u, &sz) } else { gen_doc(u, &sz) };
    // a third of the programs have clauses outside any rule (the implicit `default` rule, which the
    // test command names after the file)
    let sz = Size { default_rule: u.chance(1, 3), ..sz };
    let mut file = gen_core_file(u, &doc, sz, true, true);
    if captures {
        add_capture_idiom(u, &mut file, &doc);
    }
    let rules = print_file(&file);
    let nin = u.range(1, 4);
    let mut inputs = vec![doc.to_json()];
    for _ in 1..nin {
        inputs.push(if captures { gen_cfn_doc(u, &sz).to_json() } else { gen_doc(u, &sz).to_json() });
    }
    let mut names: BTreeSet<String> = file.rules.iter().map(|r| r.name.clone()).collect();
    if !file.default.is_empty() {
        names.insert("default".into());
    }
    let has_default = !file.default.is_empty();
    let mut exps = vec![];
    for _ in 0..nin {
        let mut e = BTreeMap::new();
        for n in &names {
            match u.below(4) {
                0 => {}
                1 => {
                    e.insert(n.clone(), St::Pass);
                }
                2 => {
                    e.insert(n.clone(), St::Fail);
                }
                _ => {
                    e.insert(n.clone(), St::Skip);
                }
            }
        }
        if u.chance(1, 6) {
            e.insert("no_such_rule".into(), St::Pass);
        }
        exps.push(e);
    }
    let c = TestCase { rules, inputs, exps, spec_yaml: u.chance(1, 2), dir_layout: u.chance(1, 3), second: u.chance(1, 2) };
    let mut evals = 0;
    match check(&c, &mut evals) {
        Ok(None) => CaseResult::Discard("evaluation-error"),
        Ok(Some((p, f, n))) => CaseResult::Pass(Info {
            nontrivial: p >= 1 && f >= 1 && n >= 1,
            key: hash_case(&[&c.rules, &c.inputs.join("\u{1}"), &format!("{:?}", c.exps)]),
            classes: vec![
                format!("inputs:{}", c.inputs.len()),
                format!("default-rule:{}", has_default),
                format!("spec:{}", if c.spec_yaml { "yaml" } else { "json" }),
                format!("layout:{}", if c.dir_layout { "dir" } else { "file" }),
                format!("met:{}", p.min(3)),
                format!("unmet:{}", f.min(3)),
                format!("no-expectation:{}", n.min(3)),
            ],
            evals,
            sample: Some(case_json(&c)),
        }),
        Err((msg, sig)) => CaseResult::Fail(Failure { msg, sig, case: case_json(&c) }),
    }
}

pub fn run(tier: Tier, seed: u64) -> i32 {
    let spec = EvidenceSpec {
        rule: "Random core programs (some rule names defined twice) x 1-4 generated inputs x a random expectation (PASS / FAIL / SKIP / none) for every rule name and input, occasionally an expectation for an unknown rule; the spec file is written as JSON or block YAML; `test` is run as -r/-t and as --dir in all four output formats. Ground truth: the per-rule statuses of run_checks(verbose) on (rules, input), which must also be the PASS / FAIL / SKIP sets of `validate --payload --structured` on that input (the validate command with its own document loader), and the met-rule of the property statement (non-SKIP expected: some definition has it; SKIP expected: all definitions SKIP). The console text, JSON and YAML must report exactly the met set as passed, the unmet ones with their expected status and the evaluated status list, the rules without expectation as such; JUnit pass/failure marks and counters must give the same counts; exit 0 iff nothing failed else 7. Non-trivial: >=1 met, >=1 unmet, >=1 rule without expectation; distinct by hash of the texts.".into(),
        assumptions: vec!["cases in which an input raises an evaluation error are discarded (C06 judges error exits)".into()],
    };
    execute("C16", tier, seed, spec, &replay, &|run: &Session| {
        let sz = tier.pick(Size::quick(), Size::thorough());
        run.run_random("specs", tier.pick(12_000, 300_000), 1500, |u| random_case(u, sz));
    })
}
