//! C11 — a document means the same however it is written or loaded.
use crate::ast::*;
use crate::choices::Choices;
use crate::docw::*;
use crate::drive::*;
use crate::engine::*;
use crate::val::{Seg, V};
use serde_json::{json, Value as J};

const STRINGS: [&str; 64] = [
    "", "a", "ab c", "10", "007", "1.5", "1e5", "true", "True", "NULL", "null", "~", "yes", "No", "on", "inf", "nan", "Infinity", ".inf", "0x1f", "1_000",
    "a\u{e4}", "\u{65e5}\u{672c}", "it's", "say \"hi\"", "a: b", "a #b", " lead", "trail ", "-dash", "[x]", "{y}", "a,b", "line\nbreak", "tab\there",
    "back\\slash", "x'y\"z", "*alias", "&anchor", "!tag", "%pct", "@at", "|", ">", "?", "- item", "key:", "#comment", "AWS::S3::Bucket", "arn:aws:s3:::b/k",
    "NaN", "prod", "exports.handler = 1;\n", "two\nlines\n", "10\n", "a\n\nb", "first\n  indented\nlast", "true\n", "smile \u{1F600}", "\u{10348}",
    // control characters that have to be escaped in every notation
    "ab\u{0}cd", "\u{0}", "bell\u{7}esc\u{1b}[0m", "del\u{7f}nel\u{85}",
];
const KEYSU: [&str; 14] = ["a", "b", "Name", "k1", "with space", "Type", "aws:cdk:path", "x-y_z", "10", "true", "null", "\u{fc}ber", "it's", "Fn::Join"];

fn gen_scalar(u: &mut Choices) -> V {
    match u.weighted(&[6, 3, 2, 1, 1]) {
        0 => V::Str(STRINGS[u.below(STRINGS.len())].to_string()),
        1 => V::Int(*u.pick(&[0i64, 1, -1, 443, 10, i64::MAX, i64::MIN, 1234567890123])),
        2 if u.chance(1, 3) => {
            // full-precision floats: a 53-bit mantissa over a power of ten (16-17 significant digits)
            let m = ((u.below(1 << 27) as u64) << 26) | u.below(1 << 26) as u64;
            let x = m as f64 / 10f64.powi(u.below(24) as i32 - 4);
            V::Float(if u.chance(1, 4) { -x } else { x })
        }
        2 => V::Float(*u.pick(&[0.5f64, 1.5, 2.0, 1e308, 5e-324, -1.5, 1e-7, 10.25, -0.0, 123456.789, 1e22, 2.5e16, 1.5e20, -3e21, 0.18731771569502986, 433.61274493177757, 9.701548970340049, 0.30000000000000004, 1.7976931348623157e308, 2.2250738585072014e-308, -3e25, 6.02214076e23])),
        3 => V::Bool(u.chance(1, 2)),
        _ => V::Null,
    }
}
fn gen_val(u: &mut Choices, depth: usize, max_depth: usize) -> V {
    let w = if depth >= max_depth { [1, 0, 0] } else { [4, 3, 4] };
    match u.weighted(&w) {
        0 => gen_scalar(u),
        1 => {
            let n = u.below(4);
            V::List((0..n).map(|_| gen_val(u, depth + 1, max_depth)).collect())
        }
        _ => gen_mapv(u, depth, max_depth, 0),
    }
}
fn gen_mapv(u: &mut Choices, depth: usize, max_depth: usize, min: usize) -> V {
    let n = u.range(min, 4);
    let mut keys: Vec<&str> = vec![];
    for _ in 0..n {
        let k = KEYSU[u.below(KEYSU.len())];
        if !keys.contains(&k) {
            keys.push(k);
        }
    }
    V::Map(keys.into_iter().map(|k| (k.to_string(), gen_val(u, depth + 1, max_depth))).collect())
}

/// the loaded document as the tool prints it for a failing unary check on the root
fn dump_from_report(report: &J) -> Result<V, String> {
    let nc = report["not_compliant"].as_array().ok_or("no not_compliant in the report")?;
    for e in nc {
        if e["Rule"]["name"].as_str().map_or(false, |n| n.ends_with("dumpdoc")) {
            let v = &e["Rule"]["checks"][0]["Clause"]["Unary"]["check"]["Resolved"]["value"]["value"];
            return Ok(V::from_json(v));
        }
    }
    Err("the dump rule is not among the failing rules".into())
}

const DUMP_RULE: &str = "rule dumpdoc {\n  this !exists\n}\n";

fn simple_key(k: &str) -> bool {
    k.chars().next().map_or(false, |c| c.is_ascii_alphabetic()) && k.chars().all(|c| c.is_ascii_alphanumeric() || c == '_')
}

/// probe rules: every one must PASS on the document
fn probes(doc: &V) -> (String, usize) {
    let mut rules: Vec<Rule> = vec![];
    if v_expressible(doc) {
        rules.push(rule1("same", Item::Clause(cl_bin(Query { head: Head::This, parts: vec![] }, BinOp::Eq, false, Lit::V(doc.clone())))));
    }
    let mut n = 0;
    for p in doc.paths() {
        if p.is_empty() || n >= 12 {
            continue;
        }
        // only paths of simple keys / indices are expressible as queries without ambiguity
        if !p.iter().all(|s| match s {
            Seg::K(k) => simple_key(k),
            Seg::I(_) => true,
        }) {
            continue;
        }
        if !matches!(p[0], Seg::K(_)) {
            continue;
        }
        let v = doc.at(&p).unwrap();
        let head = match &p[0] {
            Seg::K(k) => k.clone(),
            _ => unreachable!(),
        };
        let parts: Vec<Part> = p[1..]
            .iter()
            .map(|s| match s {
                Seg::K(k) => Part::Key(k.clone()),
                Seg::I(i) => Part::Idx(*i as i32),
            })
            .collect();
        let q = Query { head: Head::Key(head), parts };
        let ty = match v {
            V::Null => UnOp::IsNull,
            V::Bool(_) => UnOp::IsBool,
            V::Int(_) => UnOp::IsInt,
            V::Float(_) => UnOp::IsFloat,
            V::Str(_) => UnOp::IsString,
            V::List(_) => UnOp::IsList,
            V::Map(_) => UnOp::IsStruct,
        };
        rules.push(rule1(&format!("t{}", n), Item::Clause(cl_un(q.clone(), ty, false))));
        if v.is_scalar() && v_expressible(v) {
            rules.push(rule1(&format!("e{}", n), Item::Clause(cl_bin(q, BinOp::Eq, false, Lit::V(v.clone())))));
        }
        n += 1;
    }
    let count = rules.len();
    (print_file(&file_of(rules)), count)
}

fn sig_for(doc: &V, what: &str) -> String {
    // the documented F17 class: plain `inf` / `nan` / `infinity` tokens
    let mut sc = vec![];
    doc.scalars(&mut sc);
    let mut keys = vec![];
    fn keys_of(v: &V, out: &mut Vec<String>) {
        match v {
            V::Map(m) => {
                for (k, x) in m {
                    out.push(k.clone());
                    keys_of(x, out);
                }
            }
            V::List(l) => l.iter().for_each(|x| keys_of(x, out)),
            _ => {}
        }
    }
    keys_of(doc, &mut keys);
    let special = |s: &str| matches!(s.to_lowercase().as_str(), "inf" | "nan" | "infinity");
    if sc.iter().any(|v| matches!(v, V::Str(s) if special(s))) || keys.iter().any(|k| special(k)) {
        return format!("c11:{}:plain-inf-nan", what);
    }
    format!("c11:{}", what)
}

fn load_dump(text: &str, via: &str, evals: &mut u64) -> Result<V, String> {
    *evals += 1;
    match via {
        "payload" => {
            let r = validate_payload(&[DUMP_RULE.to_string()], &[text.to_string()], &[], &VOpts::structured(Fmt::Json));
            if let Some(p) = r.panic {
                return Err(format!("panic {}", p));
            }
            let j: J = serde_json::from_str(&r.out).map_err(|e| format!("validate --payload: output is not JSON ({}); {}", e, r.brief()))?;
            dump_from_report(&j[0])
        }
        "library" => match run_checks(text, DUMP_RULE, false) {
            Lib::Ok(s) => {
                let j: J = serde_json::from_str(&s).map_err(|e| format!("run_checks: output is not JSON ({})", e))?;
                dump_from_report(&j)
            }
            Lib::Err(e) => Err(format!("run_checks rejects the document: {}", e)),
            Lib::Panic(p) => Err(format!("panic {}", p)),
        },
        ext => {
            let dir = fresh_dir("c11");
            let rp = dir.join("dump.guard");
            let dp = dir.join(format!("doc.{}", ext));
            write_file(&rp, DUMP_RULE);
            write_file(&dp, text);
            let r = validate_files(&[rp.to_string_lossy().to_string()], &[dp.to_string_lossy().to_string()], &[], &VOpts::structured(Fmt::Json), "");
            if let Some(p) = r.panic {
                return Err(format!("panic {}", p));
            }
            let j: J = serde_json::from_str(&r.out).map_err(|e| format!("validate -d file: output is not JSON ({}); {}", e, r.brief()))?;
            dump_from_report(&j[0])
        }
    }
}

fn check_doc(doc: &V, texts: &[(Style, String)], evals: &mut u64) -> Result<usize, (String, String)> {
    let (probe_rules, nprobes) = probes(doc);
    let mut combos = 0;
    for (style, text) in texts {
        let mut vias = vec!["payload", "library"];
        if *style == Style::YamlBlock || *style == Style::JsonPretty {
            vias.push(style.ext());
        }
        for via in vias {
            let what = format!("{} via {}", style.text(), via);
            let got = load_dump(text, via, evals).map_err(|e| {
                let sig = if e.starts_with("panic") {
                    format!("panic:{}", e.split(' ').nth(1).unwrap_or(""))
                } else if style.ext() == "json" && via != "library" && text.contains("\\ud8") && e.contains("Error encountered while parsing data file") {
                    // JSON text with a surrogate-pair escape, rejected by the validate loader
                    "c11:load-failed:json-surrogate-pair-escape".to_string()
                } else if style.ext() == "json" && via != "library" && text.chars().any(|c| matches!(c as u32, 0x7f..=0x9f)) && e.contains("Error encountered while parsing data file") {
                    // JSON text with a raw DEL / C1 control character (legal in JSON, not printable for the YAML scanner)
                    "c11:load-failed:json-raw-c1-control".to_string()
                } else {
                    sig_for(doc, "load-failed")
                };
                (format!("{}: {}", what, e), sig)
            })?;
            if got != *doc {
                // the integer spelling `-0` of JSON (never written by the generators; replay only):
                // serde_json keeps the sign by making it a float
                fn same_but_negzero(a: &V, b: &V) -> bool {
                    match (a, b) {
                        (V::Float(f), V::Int(0)) => *f == 0.0 && f.is_sign_negative(),
                        (V::List(x), V::List(y)) => x.len() == y.len() && x.iter().zip(y).all(|(p, q)| same_but_negzero(p, q)),
                        (V::Map(x), V::Map(y)) => x.len() == y.len() && x.iter().zip(y).all(|((k, p), (l, q))| k == l && same_but_negzero(p, q)),
                        _ => a == b,
                    }
                }
                let sig = if via == "library" && style.ext() == "json" && same_but_negzero(&got, doc) { "c11:dump-differs:json-integer-negative-zero:library".to_string() } else { sig_for(doc, "dump-differs") };
                return Err((format!("{}: loaded document {} differs from the written one {}", what, got.to_json(), doc.to_json()), sig));
            }
            // probe battery
            if nprobes > 0 {
                *evals += 1;
                let v = match via {
                    "library" => verdict(text, &probe_rules).0,
                    _ => {
                        let r = validate_payload(&[probe_rules.clone()], &[text.clone()], &[], &VOpts::structured(Fmt::Json));
                        match serde_json::from_str::<J>(&r.out) {
                            Ok(j) => {
                                let nc = j[0]["not_compliant"].as_array().map(|a| a.len()).unwrap_or(usize::MAX);
                                let na = j[0]["not_applicable"].as_array().map(|a| a.len()).unwrap_or(usize::MAX);
                                if nc == 0 && na == 0 && r.code == Ok(0) {
                                    Verdict::Ok { rules: vec![], file: crate::model::St::Pass }
                                } else {
                                    Verdict::EvalErr(format!("probes not all PASS: {}", r.out.chars().take(600).collect::<String>()))
                                }
                            }
                            Err(_) => Verdict::EvalErr(r.brief()),
                        }
                    }
                };
                match &v {
                    Verdict::Ok { rules, .. } if rules.iter().all(|(_, s)| *s == crate::model::St::Pass) => {}
                    other => {
                        return Err((format!("{}: probe battery does not PASS: {} ; rules:\n{}", what, other.short(), probe_rules), sig_for(doc, "probe-failed")));
                    }
                }
            }
            combos += 1;
        }
    }
    // the `test` command's loader: the document as `input:` of a spec file (YAML block and JSON)
    if nprobes > 0 {
        let names: Vec<String> = probe_rules.lines().filter(|l| l.starts_with("rule ")).map(|l| l[5..].split(' ').next().unwrap().to_string()).collect();
        let exp = V::Map(names.iter().map(|n| (n.clone(), V::s("PASS"))).collect());
        let spec = V::List(vec![V::Map(vec![("name".into(), V::s("c11")), ("input".into(), doc.clone()), ("expectations".into(), V::Map(vec![("rules".into(), exp)]))])]);
        for (ext, spec_text) in [("json", spec.to_json()), ("yaml", {
            let empty: [u32; 0] = [];
            let mut u0 = Choices::new(&empty);
            write_doc(&spec, Style::YamlBlock, &mut u0, false).text
        })] {
            let dir = fresh_dir("c11t");
            let rp = dir.join("p.guard");
            let tp = dir.join(format!("p_tests.{}", ext));
            write_file(&rp, &probe_rules);
            write_file(&tp, &spec_text);
            *evals += 1;
            let r = test_files(&rp.to_string_lossy(), &tp.to_string_lossy(), &TOpts { fmt: Fmt::Single, verbose: false, alphabetical: false, last_modified: false });
            if let Some(p) = &r.panic {
                return Err((format!("test ({}): panic {}", ext, p), format!("panic:{}", p.split(' ').next().unwrap_or(""))));
            }
            if r.code != Ok(0) {
                return Err((format!("test command ({} spec): the probes do not all PASS on the same document: {}", ext, r.brief()), sig_for(doc, "test-loader")));
            }
            combos += 1;
        }
    }
    Ok(combos)
}

// ------------------------------------------------------------------------------------------------
// stage: spellings of JSON numbers that the writers never use; every loader reads the same typed value

const NUMBER_SPELLINGS: [&str; 14] = ["-0", "0", "-0.0", "0e0", "1E5", "1e5", "1e+5", "0.1e1", "1e-2", "1.0", "10", "-1", "1.50", "123456789012345678"];

fn spelling_value(s: &str) -> V {
    match s.parse::<i64>() {
        Ok(i) => V::Int(i),
        Err(_) => V::Float(s.parse::<f64>().unwrap()),
    }
}

fn spelling_check(i: usize) -> CaseResult {
    let sp = NUMBER_SPELLINGS[i % NUMBER_SPELLINGS.len()];
    let json_like = (i / NUMBER_SPELLINGS.len()) % 2 == 0;
    let v = spelling_value(sp);
    let doc = V::Map(vec![("a".into(), v.clone()), ("b".into(), V::List(vec![v.clone(), V::s("x")]))]);
    let text = if json_like { format!("{{\"a\": {}, \"b\": [{}, \"x\"]}}", sp, sp) } else { format!("a: {}\nb:\n  - {}\n  - x\n", sp, sp) };
    let case = json!({"kind": "spelling", "index": i});
    let mut evals = 0;
    let fail = |msg: String, sig: String| CaseResult::Fail(Failure { msg, sig, case: case.clone() });
    for via in ["payload", if json_like { "json" } else { "yaml" }, "library"] {
        match load_dump(&text, via, &mut evals) {
            Ok(got) if got == doc => {}
            Ok(got) => {
                let sig = if via == "library" && json_like && sp == "-0" { "c11:dump-differs:json-integer-negative-zero:library".to_string() } else { format!("c11:number-spelling:{}", via) };
                return fail(format!("the number spelling `{}` ({}) via {}: loaded as {} instead of {}", sp, if json_like { "JSON" } else { "YAML" }, via, got.to_json(), doc.to_json()), sig);
            }
            Err(e) => return fail(format!("the number spelling `{}` via {}: {}", sp, via, e), format!("c11:number-spelling:{}", via)),
        }
    }
    // the `test` command: the same text as `input` of a spec file named .json and .yaml
    let (probe_rules, _) = probes(&doc);
    let names: Vec<String> = probe_rules.lines().filter(|l| l.starts_with("rule ")).map(|l| l[5..].split(' ').next().unwrap().to_string()).collect();
    let exps: Vec<String> = names.iter().map(|n| format!("\"{}\": \"PASS\"", n)).collect();
    let flow = format!("{{\"a\": {}, \"b\": [{}, \"x\"]}}", sp, sp);
    let spec = format!("[{{\"name\": \"s\", \"input\": {}, \"expectations\": {{\"rules\": {{{}}}}}}}]", flow, exps.join(", "));
    for ext in ["json", "yaml", "JSON", "jsn"] {
        let dir = fresh_dir("c11s");
        let rp = dir.join("p.guard");
        let tp = dir.join(format!("p_tests.{}", ext));
        write_file(&rp, &probe_rules);
        write_file(&tp, &spec);
        for fmt in [Fmt::Single, Fmt::Json] {
            evals += 1;
            let r = test_files(&rp.to_string_lossy(), &tp.to_string_lossy(), &TOpts { fmt, verbose: false, alphabetical: false, last_modified: false });
            if let Some(p) = &r.panic {
                return fail(format!("test (.{}): panic {}", ext, p), format!("panic:{}", p.split(' ').next().unwrap_or("")));
            }
            if r.code != Ok(0) {
                return fail(format!("the number spelling `{}` as input of a test file named .{} ({:?}): the type / value probes do not all PASS (validate reads {}): {}", sp, ext, fmt, doc.to_json(), r.brief()), "c11:number-spelling:test".into());
            }
        }
    }
    CaseResult::Pass(Info { nontrivial: true, key: hash_case(&[sp, if json_like { "j" } else { "y" }]), classes: vec!["number-spelling".into()], evals, sample: Some(json!({"spelling": sp, "json": json_like})) })
}

pub fn replay(case: &J) -> CaseResult {
    if case["kind"] == "spelling" {
        return spelling_check(case["index"].as_u64().unwrap_or(0) as usize);
    }
    if case["kind"] == "negative" {
        return negative_check(case["text"].as_str().unwrap_or(""), case["why"].as_str().unwrap_or(""));
    }
    if case["kind"] == "tag" {
        return tag_check(case["short"].as_str().unwrap_or(""), case["long"].as_str().unwrap_or(""), case["what"].as_str().unwrap_or(""));
    }
    let doc = match V::parse_json(case["doc"].as_str().unwrap_or("")) {
        Some(d) => d,
        None => return CaseResult::Discard("bad-replay"),
    };
    let texts: Vec<(Style, String)> = case["texts"]
        .as_array()
        .map(|a| {
            a.iter()
                .map(|p| {
                    let st = STYLES.iter().find(|s| s.text() == p[0].as_str().unwrap_or("")).copied().unwrap_or(Style::JsonCompact);
                    (st, p[1].as_str().unwrap_or("").to_string())
                })
                .collect()
        })
        .unwrap_or_default();
    let mut ev = 0;
    match check_doc(&doc, &texts, &mut ev) {
        Ok(_) => CaseResult::Pass(Info::default()),
        Err((msg, sig)) => CaseResult::Fail(Failure { msg, sig, case: case.clone() }),
    }
}

fn random_case(u: &mut Choices, max_depth: usize) -> CaseResult {
    let doc = gen_mapv(u, 0, max_depth, 1);
    let mut texts = vec![];
    let (mut plain, mut quoted) = (0, 0);
    let mut blocks = 0;
    for st in STYLES {
        let w = write_doc(&doc, st, u, true);
        plain += w.plain_strings;
        quoted += w.quoted_strings;
        blocks += w.block_scalars;
        texts.push((st, w.text));
    }
    let mut evals = 0;
    let case = || json!({"doc": doc.to_json(), "texts": texts.iter().map(|(s, t)| json!([s.text(), t])).collect::<Vec<_>>()});
    match check_doc(&doc, &texts, &mut evals) {
        Ok(combos) => {
            let mut sc = vec![];
            doc.scalars(&mut sc);
            let has_num = sc.iter().any(|v| matches!(v, V::Int(_) | V::Float(_)));
            CaseResult::Pass(Info {
                nontrivial: quoted >= 1 && has_num && doc.depth() >= 2,
                key: hash_case(&[&doc.to_json()]),
                classes: vec![format!("combos:{}", combos), format!("plain-strings:{}", if plain > 0 { ">0" } else { "0" }), format!("depth:{}", doc.depth().min(4)), format!("block-scalars:{}", blocks.min(3))],
                evals,
                sample: Some(json!({"doc": doc.to_json(), "yaml-block": texts[3].1})),
            })
        }
        Err((msg, sig)) => CaseResult::Fail(Failure { msg, sig, case: case() }),
    }
}

// ------------------------------------------------------------------------------------------------
// intrinsic function tags

const TAGS: [(&str, &str, bool, bool); 21] = [
    // short, long, scalar form allowed, sequence form allowed
    ("Ref", "Ref", true, false),
    ("GetAtt", "Fn::GetAtt", true, true),
    ("Base64", "Fn::Base64", true, false),
    ("Sub", "Fn::Sub", true, true),
    ("GetAZs", "Fn::GetAZs", true, false),
    ("ImportValue", "Fn::ImportValue", true, false),
    ("Condition", "Condition", true, false),
    ("RefAll", "Fn::RefAll", true, false),
    ("Select", "Fn::Select", false, true),
    ("Split", "Fn::Split", false, true),
    ("Join", "Fn::Join", false, true),
    ("FindInMap", "Fn::FindInMap", false, true),
    ("And", "Fn::And", false, true),
    ("Equals", "Fn::Equals", false, true),
    ("Contains", "Fn::Contains", false, true),
    ("EachMemberIn", "Fn::EachMemberIn", false, true),
    ("EachMemberEquals", "Fn::EachMemberEquals", false, true),
    ("ValueOf", "Fn::ValueOf", false, true),
    ("If", "Fn::If", false, true),
    ("Not", "Fn::Not", false, true),
    ("Or", "Fn::Or", false, true),
];

fn tag_check(short: &str, long: &str, what: &str) -> CaseResult {
    let mut ev = 0;
    let case = json!({"kind": "tag", "short": short, "long": long, "what": what});
    let a = load_dump(short, "payload", &mut ev);
    let b = load_dump(long, "payload", &mut ev);
    match (a, b) {
        (Ok(x), Ok(y)) => {
            if x == y {
                CaseResult::Pass(Info { nontrivial: true, key: hash_case(&[short]), classes: vec!["tag".into()], evals: ev, sample: Some(json!({"short": short, "long": long, "loaded": x.to_json()})) })
            } else {
                CaseResult::Fail(Failure { msg: format!("{}: short form loads as {} but the long form as {}", what, x.to_json(), y.to_json()), sig: "c11:tag".into(), case })
            }
        }
        (a, b) => CaseResult::Fail(Failure { msg: format!("{}: short form {:?} ; long form {:?}", what, a.map(|v| v.to_json()), b.map(|v| v.to_json())), sig: "c11:tag-load".into(), case }),
    }
}

fn tag_case(i: usize) -> CaseResult {
    let (short, long, scalar_ok, seq_ok) = TAGS[i % TAGS.len()];
    let form = i / TAGS.len(); // 0 scalar, 1 block sequence, 2 flow sequence, 3 nested
    match form {
        0 if scalar_ok => tag_check(&format!("R:\n  v: !{} a.b\n  w: 1\n", short), &format!("R:\n  v:\n    {}: a.b\n  w: 1\n", long), &format!("!{} scalar", short)),
        1 if seq_ok => tag_check(&format!("R:\n  v: !{}\n    - a\n    - [b, 1]\n  w: 1\n", short), &format!("R:\n  v:\n    {}:\n      - a\n      - [b, 1]\n  w: 1\n", long), &format!("!{} block sequence", short)),
        2 if seq_ok => tag_check(&format!("R: {{v: !{} [a, 'b', 2], w: 1}}\n", short), &format!("R: {{v: {{'{}': [a, 'b', 2]}}, w: 1}}\n", long), &format!("!{} flow sequence", short)),
        3 if seq_ok => tag_check(
            &format!("R:\n  v: !{}\n    - !Ref x\n    - !Join ['-', [!Ref y, z]]\n", short),
            &format!("R:\n  v:\n    {}:\n      - Ref: x\n      - Fn::Join: ['-', [{{Ref: y}}, z]]\n", long),
            &format!("!{} nested", short),
        ),
        // the idiomatic empty payload (`!GetAZs ""`), quoted either way, also nested in a sequence tag
        4 if scalar_ok => tag_check(&format!("R:\n  v: !{} \"\"\n  w: [!{} '', x]\n", short, short), &format!("R:\n  v:\n    {}: \"\"\n  w: [{{'{}': ''}}, x]\n", long, long), &format!("!{} empty scalar", short)),
        5 if scalar_ok => tag_check(&format!("R:\n  v: !Select [0, !{} \"\"]\n", short), &format!("R:\n  v:\n    Fn::Select: [0, {{'{}': \"\"}}]\n", long), &format!("!{} empty scalar nested", short)),
        _ => CaseResult::Discard("form-not-defined-for-tag"),
    }
}

// ------------------------------------------------------------------------------------------------
// negatives: text that is not a well-formed document, or a map with a non-string key

const NEGATIVES: [(&str, &str); 25] = [
    ("{1: a}\n", "integer key (flow)"),
    ("1: a\n", "integer key (block)"),
    ("{[a]: b}\n", "sequence key"),
    ("? [a, b]\n: c\n", "sequence key (explicit)"),
    ("{null: 1}\n", "null key"),
    ("{true: 1}\n", "boolean key"),
    ("{1.5: x}\n", "float key"),
    // the short form of an intrinsic function is a map (`!Ref x` = `{Ref: x}`): not a string key
    ("!Ref Env: prod\n", "tagged key (block)"),
    ("Tags:\n  !Ref Env: prod\n  Other: 1\n", "tagged key (nested)"),
    ("{!Sub x: 1}\n", "tagged key (flow)"),
    ("? !GetAtt a.b\n: 1\n", "tagged key (explicit)"),
    ("a:\n  - !Join [',', [a]]: 1\n", "tagged sequence key"),
    ("{\"a\": [1, 2}", "mismatched brackets"),
    ("{\"a\": 1}}", "trailing brace after the document"),
    ("[1, 2]]", "trailing bracket after the document"),
    ("{\"a\": 1} trailing", "trailing text after a flow document"),
    ("a: 1\n b: 2\n", "bad indentation"),
    ("a: [1, 2\n", "unterminated flow sequence"),
    ("\"unterminated\n", "unterminated string"),
    ("a: 'x\n", "unterminated single-quoted string"),
    // a stream of several documents is not *a* document
    ("a: 1\n---\na: x\n", "second document in the stream"),
    ("---\n{\"a\": 1}\n---\n{\"a\": 2}\n", "second document in the stream (flow)"),
    // YAML: "each of the keys is unique"
    ("a: 1\nb: 2\na: 3\n", "duplicate key (block)"),
    ("{a: 1, a: 2}\n", "duplicate key (flow)"),
    ("{\"a\": 1, \"b\": {\"c\": 1, \"c\": 2}}", "duplicate key (nested, JSON)"),
];

fn negative_check(text: &str, why: &str) -> CaseResult {
    let case = json!({"kind": "negative", "text": text, "why": why});
    let rules = "rule r {\n  this exists\n}\n".to_string();
    let mut evals = 0;
    for via in ["payload", "file", "library"] {
        evals += 1;
        let (accepted, detail, panic) = match via {
            "library" => match run_checks(text, &rules, false) {
                Lib::Ok(s) => (true, s.chars().take(200).collect::<String>(), None),
                Lib::Err(e) => (false, e, None),
                Lib::Panic(p) => (false, String::new(), Some(p)),
            },
            "payload" => {
                let r = validate_payload(&[rules.clone()], &[text.to_string()], &[], &VOpts::structured(Fmt::Json));
                (matches!(r.code, Ok(0) | Ok(19)), r.brief(), r.panic.clone())
            }
            _ => {
                let dir = fresh_dir("c11n");
                let rp = dir.join("r.guard");
                let dp = dir.join("d.yaml");
                write_file(&rp, &rules);
                write_file(&dp, text);
                let r = validate_files(&[rp.to_string_lossy().to_string()], &[dp.to_string_lossy().to_string()], &[], &VOpts::plain(Fmt::Single, vec![Show::All]), "");
                (matches!(r.code, Ok(0) | Ok(19)), r.brief(), r.panic.clone())
            }
        };
        if let Some(p) = panic {
            return CaseResult::Fail(Failure { msg: format!("{} ({}): panic {}", why, via, p), sig: format!("panic:{}", p.split(' ').next().unwrap_or("")), case });
        }
        if accepted {
            return CaseResult::Fail(Failure {
                msg: format!("{}: {:?} was loaded and evaluated via {} instead of being rejected: {}", why, text, via, detail),
                sig: format!("c11:negative-accepted:{}:{}", via, why.split(' ').next().unwrap_or("")),
                case,
            });
        }
    }
    CaseResult::Pass(Info { nontrivial: true, key: hash_case(&[text]), classes: vec!["negative".into()], evals, sample: Some(json!({"text": text, "why": why})) })
}

pub fn run(tier: Tier, seed: u64) -> i32 {
    let spec = EvidenceSpec {
        rule: "Stage 'documents': string-heavy documents (keyword-looking, number-looking, unicode, indicator characters, control characters; i64 bounds; floats incl. subnormal, 1e308, -0.0) written as JSON compact / JSON pretty / flow YAML / block YAML with random layout and quoting, loaded by validate (--payload and -d file), run_checks and the test command (JSON and YAML spec files). Oracles: (i) the loaded document, dumped through a failing unary check on the root, equals the generated one exactly (types, key order, list order); (ii) a generated probe battery (`this == <document as literal>`, per-leaf `path == <literal>` and `path is_<type>`) passes under every writer x loader. Stage 'tags': all 21 short-form intrinsic tags x {scalar, block sequence, flow sequence, nested, empty scalar, empty scalar nested} vs the long form. Stage 'negatives': non-string keys, aliases and malformed texts must be rejected by every loader. Non-trivial: >=1 quoted string, >=1 number, nesting >=2; distinct by document.".into(),
        assumptions: vec![
            "strings are written plain only when YAML 1.1 and 1.2 both read the token as a string; numbers, booleans and null always with their JSON spelling".into(),
            "probe queries only use keys that are plain identifiers".into(),
        ],
    };
    execute("C11", tier, seed, spec, &replay, &|run: &Session| {
        run.run_enum("tags", TAGS.len() * 6, tag_case);
        run.run_enum("negatives", NEGATIVES.len(), |i| negative_check(NEGATIVES[i].0, NEGATIVES[i].1));
        run.run_enum("number-spellings", NUMBER_SPELLINGS.len() * 2, spelling_check);
        run.run_random("documents", tier.pick(40_000, 1_000_000), 400, |u| random_case(u, tier.pick(3, 4)));
    })
}

/// entry for the libFuzzer data-text target: if the text is JSON (serde_json accepts it), every
/// loader that accepts it must load the same document
pub fn fuzz_loaders_agree(text: &str) -> Result<(), String> {
    let j = match serde_json::from_str::<J>(text) {
        Ok(j) => j,
        Err(_) => return Ok(()),
    };
    // numbers outside i64 / finite f64 are not covered by the statement
    fn plain(j: &J) -> bool {
        match j {
            J::Number(n) => n.as_i64().is_some() || n.as_f64().map_or(false, |f| f.is_finite() && n.as_u64().is_none()),
            J::Array(a) => a.iter().all(plain),
            J::Object(o) => o.values().all(plain),
            _ => true,
        }
    }
    if !plain(&j) || !j.is_object() {
        return Ok(());
    }
    let want = V::from_json(&j);
    let mut ev = 0;
    for via in ["payload", "library"] {
        match load_dump(text, via, &mut ev) {
            Ok(v) => {
                if v != want {
                    return Err(format!("JSON text loaded via {} as {} instead of {}", via, v.to_json(), want.to_json()));
                }
            }
            Err(e) => {
                if e.starts_with("panic") {
                    return Err(e);
                }
                // an empty top-level map / duplicate keys etc. may be rejected or dumped differently:
                // only a *different* accepted document is a violation
            }
        }
    }
    Ok(())
}
