use crate::engine::{CaseResult, Tier};
pub mod c01;
pub mod c02;
pub mod c03;
pub mod c04;
pub mod c05;
pub mod c06;
pub mod c07;
pub mod c08;
pub mod c09;
pub mod c10;
pub mod c11;
pub mod c12;
pub mod c13;
pub mod c14;
pub mod c15;
pub mod c16;
pub mod c17;
pub mod c18;
pub mod c19;
pub mod common;

pub fn run(id: &str, tier: Tier, seed: u64) -> i32 {
    match id {
        "C01" => c01::run(tier, seed),
        "C02" => c02::run(tier, seed),
        "C03" => c03::run(tier, seed),
        "C04" => c04::run(tier, seed),
        "C05" => c05::run(tier, seed),
        "C06" => c06::run(tier, seed),
        "C07" => c07::run(tier, seed),
        "C08" => c08::run(tier, seed),
        "C09" => c09::run(tier, seed),
        "C10" => c10::run(tier, seed),
        "C11" => c11::run(tier, seed),
        "C12" => c12::run(tier, seed),
        "C13" => c13::run(tier, seed),
        "C14" => c14::run(tier, seed),
        "C15" => c15::run(tier, seed),
        "C16" => c16::run(tier, seed),
        "C17" => c17::run(tier, seed),
        "C18" => c18::run(tier, seed),
        "C19" => c19::run(tier, seed),
        _ => {
            eprintln!("no check for {}", id);
            2
        }
    }
}

pub fn replay(id: &str, case: &serde_json::Value) -> CaseResult {
    match id {
        "C01" => c01::replay(case),
        "C02" => c02::replay(case),
        "C03" => c03::replay(case),
        "C04" => c04::replay(case),
        "C05" => c05::replay(case),
        "C06" => c06::replay(case),
        "C07" => c07::replay(case),
        "C08" => c08::replay(case),
        "C09" => c09::replay(case),
        "C10" => c10::replay(case),
        "C11" => c11::replay(case),
        "C12" => c12::replay(case),
        "C13" => c13::replay(case),
        "C14" => c14::replay(case),
        "C15" => c15::replay(case),
        "C16" => c16::replay(case),
        "C17" => c17::replay(case),
        "C18" => c18::replay(case),
        "C19" => c19::replay(case),
        _ => panic!("no check for {}", id),
    }
}
