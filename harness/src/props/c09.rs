//! C09 — the structured report partitions the rules exactly as they were evaluated.
use crate::ast::*;
use crate::choices::Choices;
use crate::drive::*;
use crate::engine::*;
use crate::gen::*;
use crate::model::St;
use serde_json::{json, Value as J};
use std::collections::{BTreeMap, BTreeSet};

/// custom messages of failing value checks below a record node
fn failing_messages(n: &J, out: &mut BTreeSet<String>) {
    failing_messages_x(n, out, false, true)
}

/// `own_only`: stop at nested RuleCheck nodes (referenced rules and parameterised calls are listed
/// under their caller as one check, their own checks need not be repeated there)
fn failing_messages_x(n: &J, out: &mut BTreeSet<String>, own_only: bool, top: bool) {
    if own_only && !top && n["container"].get("RuleCheck").is_some() {
        return;
    }
    // only what lies on a path of FAIL nodes below the rule can be a cause of the rule's failure:
    // nothing is collected below a clause, block, disjunction, condition or filter that did not FAIL
    if !n["container"].get("ClauseValueCheck").is_some() {
        if let Some(st) = super::c02::node_status(n) {
            if st != St::Fail {
                return;
            }
        }
    }
    if let Some(cv) = n["container"].get("ClauseValueCheck") {
        if let J::Object(o) = cv {
            for (_, v) in o {
                let st = v.get("status").or_else(|| v.get("value").and_then(|x| x.get("status"))).and_then(|s| s.as_str());
                if st == Some("FAIL") {
                    let m = v.get("custom_message").or_else(|| v.get("value").and_then(|x| x.get("custom_message")));
                    if let Some(J::String(m)) = m {
                        out.insert(m.clone());
                    }
                }
                // NoValueForEmptyCheck(Option<String>) carries the message directly
                if let J::String(m) = v {
                    out.insert(m.clone());
                }
            }
        }
    }
    // a failing parameterised call carries the call-site message on its RuleCheck
    if let Some(rc) = n["container"].get("RuleCheck") {
        if rc["status"] == "FAIL" {
            if let Some(J::String(m)) = rc.get("message") {
                out.insert(m.clone());
            }
        }
    }
    if let Some(ch) = n["children"].as_array() {
        for c in ch {
            failing_messages_x(c, out, own_only, false);
        }
    }
}

fn collect_custom_messages(j: &J, out: &mut Vec<String>) {
    match j {
        J::Object(o) => {
            for (k, v) in o {
                if k == "custom_message" {
                    if let J::String(s) = v {
                        if !s.is_empty() {
                            out.push(s.clone());
                        }
                    }
                } else {
                    collect_custom_messages(v, out);
                }
            }
        }
        J::Array(a) => a.iter().for_each(|x| collect_custom_messages(x, out)),
        _ => {}
    }
}

pub struct Truth {
    pub statuses: Vec<(String, St)>,
    pub fail_msgs: BTreeMap<String, BTreeSet<String>>,
    /// the rule's own failing clauses only (nothing from referenced / called rules)
    pub own_fail_msgs: BTreeMap<String, BTreeSet<String>>,
}

pub fn truth_of(doc: &str, rules: &str) -> Result<Option<Truth>, String> {
    let (v, rec) = verdict(doc, rules);
    match (v, rec) {
        (Verdict::Ok { rules: rs, .. }, Some(rec)) => {
            // the record is the ground truth of this check: it has to follow from its own parts first
            // (the laws of C02), or nothing can be concluded from it
            let hints = super::c02::hints_from_parse_tree(rules);
            if let Err(e) = super::c02::check_record(&rec, hints.as_ref()) {
                return Err(format!("record-inconsistent: the evaluation record the report is compared with contradicts itself: {}", e));
            }
            let mut fm: BTreeMap<String, BTreeSet<String>> = BTreeMap::new();
            let mut own: BTreeMap<String, BTreeSet<String>> = BTreeMap::new();
            for ch in rec["children"].as_array().cloned().unwrap_or_default() {
                if let Some(name) = ch["container"]["RuleCheck"]["name"].as_str() {
                    let e = fm.entry(name.to_string()).or_default();
                    failing_messages(&ch, e);
                    failing_messages_x(&ch, own.entry(name.to_string()).or_default(), true, true);
                }
            }
            Ok(Some(Truth { statuses: rs, fail_msgs: fm, own_fail_msgs: own }))
        }
        (Verdict::Ok { rules: rs, .. }, None) => Ok(Some(Truth { statuses: rs, fail_msgs: BTreeMap::new(), own_fail_msgs: BTreeMap::new() })),
        (Verdict::EvalErr(_), _) => Ok(None),
        (Verdict::ParseErr(e), _) => Err(format!("generator-invalid: {}", e)),
        (Verdict::Panic(p), _) => Err(format!("panic {}", p)),
    }
}

/// Check one structured report object against the ground truth (union over rules files).
pub fn check_report(report: &J, truths: &[&Truth]) -> Result<(usize, usize), String> {
    check_report_m(report, truths, false)
}

/// `every_clause_has_a_message`: the program was generated with a custom message on every clause,
/// so a listed value check without one has lost it
pub fn check_report_m(report: &J, truths: &[&Truth], every_clause_has_a_message: bool) -> Result<(usize, usize), String> {
    let names = |k: &str| -> Result<Vec<String>, String> {
        report[k].as_array().ok_or_else(|| format!("report has no array '{}'", k)).map(|a| a.iter().filter_map(|x| x.as_str().map(|s| s.to_string())).collect())
    };
    let compliant = names("compliant")?;
    let na = names("not_applicable")?;
    let nc_arr = report["not_compliant"].as_array().ok_or("report has no not_compliant")?;
    let mut nc: Vec<String> = vec![];
    let mut nc_msgs: BTreeMap<String, Vec<String>> = BTreeMap::new();
    for e in nc_arr {
        let r = &e["Rule"];
        let n = r["name"].as_str().ok_or("not_compliant entry without Rule.name")?.to_string();
        let mut msgs = vec![];
        collect_custom_messages(&r["checks"], &mut msgs);
        nc_msgs.entry(n.clone()).or_default().extend(msgs);

        nc.push(n);
    }
    let strip = |n: &String| n.rsplit('/').next().unwrap_or(n).to_string();
    let (mut pass, mut fail, mut skip) = (BTreeSet::new(), BTreeSet::new(), BTreeSet::new());
    let mut fm: BTreeMap<String, BTreeSet<String>> = BTreeMap::new();
    let mut own: BTreeMap<String, BTreeSet<String>> = BTreeMap::new();
    for t in truths {
        for (n, s) in &t.statuses {
            match s {
                St::Pass => pass.insert(strip(n)),
                St::Fail => fail.insert(strip(n)),
                St::Skip => skip.insert(strip(n)),
            };
        }
        for (n, m) in &t.fail_msgs {
            fm.entry(strip(n)).or_default().extend(m.iter().cloned());
        }
        for (n, m) in &t.own_fail_msgs {
            own.entry(strip(n)).or_default().extend(m.iter().cloned());
        }
    }
    let set = |v: &Vec<String>| v.iter().map(strip).collect::<BTreeSet<String>>();
    let (c, a, f) = (set(&compliant), set(&na), set(&nc));
    if c != pass {
        return Err(format!("compliant = {:?} but the rules that evaluated to PASS are {:?}", c, pass));
    }
    if a != skip {
        return Err(format!("not_applicable = {:?} but the rules that evaluated to SKIP are {:?}", a, skip));
    }
    if f != fail {
        return Err(format!("not_compliant names = {:?} but the rules that evaluated to FAIL are {:?}", f, fail));
    }
    // each name exactly once overall
    let total = compliant.len() + na.len() + nc.len();
    if total != c.len() + a.len() + f.len() || c.intersection(&a).next().is_some() || c.intersection(&f).next().is_some() || a.intersection(&f).next().is_some() {
        return Err(format!("a rule is listed more than once: compliant={:?} not_applicable={:?} not_compliant={:?}", compliant, na, nc));
    }
    let want = if !f.is_empty() {
        "FAIL"
    } else if !c.is_empty() {
        "PASS"
    } else {
        "SKIP"
    };
    if report["status"].as_str() != Some(want) {
        return Err(format!("file status is {:?} but the partition gives {}", report["status"], want));
    }
    let mut nmsgs = 0;
    for (n, msgs) in &nc_msgs {
        let allowed = fm.get(&strip(n)).cloned().unwrap_or_default();
        for m in msgs {
            nmsgs += 1;
            if !allowed.contains(m) {
                return Err(format!("rule {} lists a check with message <<{}>> but no check with that message failed under it (failed there: {:?})", n, m, allowed));
            }
        }
    }
    // and the other way round: a message whose clause failed on a path of FAIL nodes below the rule
    // is carried by a listed check (a check that lost its clause's message shows here)
    if every_clause_has_a_message {
        for n in &f {
            let listed: BTreeSet<String> = nc_msgs.iter().filter(|(k, _)| strip(k) == *n).flat_map(|(_, v)| v.iter().cloned()).collect();
            for m in own.get(n).cloned().unwrap_or_default() {
                if !listed.contains(&m) {
                    return Err(format!("a check with the message <<{}>> failed under rule {} but no listed check carries that message (listed: {:?})", m, n, listed));
                }
            }
        }
    }
    Ok((f.len(), nmsgs))
}

/// messages of the calls of parameterised rules in the generated programs: message -> callee
fn call_messages(files: &[File]) -> BTreeMap<String, String> {
    let mut out = BTreeMap::new();
    for f in files {
        let mut f = f.clone();
        let mut grab = |c: &mut Cnf| {
            for line in c.iter() {
                for it in line.iter() {
                    if let Item::PCall { name, msg: Some(m), .. } = it {
                        out.insert(m.clone(), name.clone());
                    }
                }
            }
        };
        visit_cnfs(&mut f, &mut grab);
    }
    out
}

/// a `Rule` entry nested in the checks of another (a parameterised call) carries the message of
/// the call it stands for: the message written at a call of exactly that rule
fn check_call_messages(checks: &J, calls: &BTreeMap<String, String>) -> Result<usize, String> {
    let mut n = 0;
    match checks {
        J::Array(a) => {
            for x in a {
                n += check_call_messages(x, calls)?;
            }
        }
        J::Object(o) => {
            if let Some(r) = o.get("Rule") {
                let name = r["name"].as_str().unwrap_or("").rsplit('/').next().unwrap_or("").to_string();
                match r["messages"]["custom_message"].as_str() {
                    Some(m) => {
                        // (a failing call may list several messages joined? no: one call, one message)
                        match calls.get(m) {
                            Some(callee) if *callee == name => {}
                            Some(callee) => return Err(format!("the listed call of rule {} carries the message <<{}>>, which was written at a call of {}", name, m, callee)),
                            None => return Err(format!("the listed call of rule {} carries the message <<{}>>, which no call carries", name, m)),
                        }
                    }
                    None => {
                        if calls.values().any(|c| *c == name) && !calls.is_empty() {
                            return Err(format!("the listed call of rule {} carries no message although every call of it was written with one", name));
                        }
                    }
                }
                n += 1;
                n += check_call_messages(&r["checks"], calls)?;
            } else {
                for (_, v) in o {
                    n += check_call_messages(v, calls)?;
                }
            }
        }
        _ => {}
    }
    Ok(n)
}

fn check_case(doc: &str, files: &[String], names: Option<&BTreeSet<String>>, calls: Option<&BTreeMap<String, String>>, evals: &mut u64) -> Result<Option<(usize, usize, usize)>, (String, String)> {
    let mut truths = vec![];
    for f in files {
        *evals += 1;
        match truth_of(doc, f) {
            Ok(Some(t)) => truths.push(t),
            Ok(None) => return Ok(None),
            Err(e) => {
                let sig = if e.starts_with("panic") { format!("panic:{}", e.split(' ').nth(1).unwrap_or("")) } else if e.starts_with("record-inconsistent") { "c09:record-inconsistent".into() } else { "c09:generator-invalid".into() };
                return Err((e, sig));
            }
        }
    }
    let tr: Vec<&Truth> = truths.iter().collect();
    // every rule defined in the files is an evaluated rule: the names are known from the generated
    // programs, independently of the record
    if let Some(ns) = names {
        let got: BTreeSet<String> = truths.iter().flat_map(|t| t.statuses.iter().map(|(n, _)| n.rsplit('/').next().unwrap_or(n).to_string())).collect();
        if got != *ns {
            return Err((format!("the evaluation record lists the rules {:?} but the files define {:?}", got, ns), "c09:rule-missing-from-record".into()));
        }
    }
    // CLI, all rules files against the one data file
    *evals += 1;
    let r = validate_payload(files, &[doc.to_string()], &[], &VOpts::structured(Fmt::Json));
    if let Some(p) = &r.panic {
        return Err((format!("validate --structured panicked: {}", p), format!("panic:{}", p.split(' ').next().unwrap_or(""))));
    }
    let j: J = serde_json::from_str(&r.out).map_err(|e| (format!("structured output is not JSON ({}): {}", e, r.brief()), "c09:not-json".to_string()))?;
    let reports = j.as_array().ok_or(("structured output is not an array".to_string(), "c09:shape".to_string()))?;
    if reports.len() != 1 {
        return Err((format!("{} reports for one data file", reports.len()), "c09:shape".into()));
    }
    let (nf, nm) = check_report_m(&reports[0], &tr, names.is_some()).map_err(|e| (format!("validate --structured: {}", e), "c09:partition".to_string()))?;
    if let Some(calls) = calls {
        for e in reports[0]["not_compliant"].as_array().cloned().unwrap_or_default() {
            // the top-level entries are the file's rules; what is nested in their checks are calls
            check_call_messages(&e["Rule"]["checks"], calls).map_err(|e| (format!("validate --structured: {}", e), "c09:call-message".to_string()))?;
        }
    }
    let any_fail = truths.iter().any(|t| t.statuses.iter().any(|(_, s)| *s == St::Fail));
    if r.code != Ok(if any_fail { 19 } else { 0 }) {
        return Err((format!("exit code {:?} with any_fail={}", r.code, any_fail), "c09:exit-code".into()));
    }
    // library, non-verbose, per rules file
    for (f, t) in files.iter().zip(&truths) {
        *evals += 1;
        match run_checks(doc, f, false) {
            Lib::Ok(s) => {
                if s.is_empty() {
                    continue;
                }
                let j: J = serde_json::from_str(&s).map_err(|e| (format!("run_checks(verbose=false) is not JSON: {}", e), "c09:not-json".to_string()))?;
                check_report(&j, &[t]).map_err(|e| (format!("run_checks(verbose=false): {}", e), "c09:partition-lib".to_string()))?;
            }
            other => return Err((format!("run_checks(verbose=false) failed: {:?}", other), "c09:lib-failed".into())),
        }
    }
    // union law: the report for several rules files is the union / concatenation of the reports
    // obtained for each rules file alone (same command, same loader)
    if files.len() > 1 {
        let mut union_nc = vec![];
        let (mut uc, mut ua) = (BTreeSet::new(), BTreeSet::new());
        for f in files {
            *evals += 1;
            let r1 = validate_payload(&[f.clone()], &[doc.to_string()], &[], &VOpts::structured(Fmt::Json));
            let j1: J = serde_json::from_str(&r1.out).map_err(|e| (format!("single-file structured output is not JSON ({})", e), "c09:not-json".to_string()))?;
            union_nc.extend(j1[0]["not_compliant"].as_array().cloned().unwrap_or_default());
            for n in j1[0]["compliant"].as_array().cloned().unwrap_or_default() {
                uc.insert(n.as_str().unwrap_or("").to_string());
            }
            for n in j1[0]["not_applicable"].as_array().cloned().unwrap_or_default() {
                ua.insert(n.as_str().unwrap_or("").to_string());
            }
        }
        // default-rule names carry the rules file name (RULES_STDIN[i]) and differ by position only
        let norm = |v: &J| v.to_string().replace("RULES_STDIN[1]", "RULES_STDIN[*]").replace("RULES_STDIN[2]", "RULES_STDIN[*]").replace("RULES_STDIN[3]", "RULES_STDIN[*]");
        let multi_nc = reports[0]["not_compliant"].as_array().cloned().unwrap_or_default();
        if multi_nc.iter().map(norm).collect::<Vec<_>>() != union_nc.iter().map(norm).collect::<Vec<_>>() {
            return Err(("the not_compliant list for several rules files is not the concatenation of the single-file lists".into(), "c09:union".into()));
        }
        let mc: BTreeSet<String> = reports[0]["compliant"].as_array().cloned().unwrap_or_default().iter().map(|n| n.as_str().unwrap_or("").to_string()).collect();
        let ma: BTreeSet<String> = reports[0]["not_applicable"].as_array().cloned().unwrap_or_default().iter().map(|n| n.as_str().unwrap_or("").to_string()).collect();
        if mc != uc || ma != ua {
            return Err((format!("compliant / not_applicable for several rules files ({:?} / {:?}) differ from the union of the single-file reports ({:?} / {:?})", mc, ma, uc, ua), "c09:union".into()));
        }
    }
    let nrules: usize = truths.iter().map(|t| t.statuses.len()).sum();
    Ok(Some((nf, nm, nrules)))
}

pub fn replay(case: &J) -> CaseResult {
    let doc = case["doc"].as_str().unwrap_or("");
    let files: Vec<String> = case["rules"].as_array().map(|a| a.iter().map(|x| x.as_str().unwrap_or("").to_string()).collect()).unwrap_or_default();
    let mut e = 0;
    let names: Option<BTreeSet<String>> = case["rule_names"].as_array().map(|a| a.iter().map(|n| n.as_str().unwrap_or("").to_string()).collect());
    let calls: Option<BTreeMap<String, String>> = case["call_messages"].as_object().map(|o| o.iter().map(|(k, v)| (k.clone(), v.as_str().unwrap_or("").to_string())).collect());
    match check_case(doc, &files, names.as_ref(), calls.as_ref(), &mut e) {
        Ok(_) => CaseResult::Pass(Info::default()),
        Err((msg, sig)) => CaseResult::Fail(Failure { msg, sig, case: case.clone() }),
    }
}

fn random_case(u: &mut Choices, sz: Size) -> CaseResult {
    let doc = gen_cfn_doc(u, &sz);
    let doc_text = doc.to_json();
    let k = *u.pick(&[1usize, 1, 2, 3]);
    let mut files = vec![];
    let mut asts = vec![];
    let mut names = BTreeSet::new();
    let sz = Size { nested_calls: true, ..sz };
    for i in 0..k {
        let mut f = gen_wide_file(u, &doc, sz, true);
        prefix_names(&mut f, &format!("f{}", i));
        // a third of the files carry messages that span two lines: the report must carry them unaltered
        if u.chance(1, 3) {
            crate::ast::suffix_messages(&mut f, "\nsecond line");
        }
        names.extend(f.rules.iter().map(|r| r.name.clone()));
        files.push(print_file(&f));
        asts.push(f);
    }
    let calls = call_messages(&asts);
    let mut evals = 0;
    match check_case(&doc_text, &files, Some(&names), Some(&calls), &mut evals) {
        Ok(None) => CaseResult::Discard("evaluation-error"),
        Ok(Some((nfail, nmsgs, nrules))) => CaseResult::Pass(Info {
            nontrivial: nfail >= 1 && nrules > nfail,
            key: hash_case(&[&doc_text, &files.join("\n---\n")]),
            classes: vec![format!("rules-files:{}", k), format!("fail-rules:{}", nfail.min(3)), format!("messages-checked:{}", if nmsgs > 0 { ">0" } else { "0" })],
            evals,
            sample: Some(json!({"doc": doc_text, "rules": files, "fail_rules": nfail, "messages_checked": nmsgs})),
        }),
        Err((msg, sig)) => CaseResult::Fail(Failure { msg, sig, case: json!({"doc": doc_text, "rules": files, "rule_names": names.iter().collect::<Vec<_>>(), "call_messages": calls}) }),
    }
}

pub fn run(tier: Tier, seed: u64) -> i32 {
    let spec = EvidenceSpec {
        rule: "Random wide programs (type blocks, parameterised rules, nested blocks, rule references) with globally distinct rule names and a unique custom message on every clause / call, 1-3 rules files per run, on CloudFormation-shaped documents. Ground truth = top-level RuleCheck statuses and the custom messages of failing value checks per rule in the verbose record of each (rules file, document) pair. Checked: `validate --structured -o json` (payload, all rules files at once) and run_checks(verbose=false) per file: compliant / not_applicable / not_compliant are exactly the PASS / SKIP / FAIL rules, pairwise disjoint, each once; file status follows from the partition; exit code; every listed check's message belongs to a check that failed under that rule on a path of FAIL nodes, and every message whose clause failed on such a path is carried by a listed check; the multi-file report is the concatenation of the single-file reports. Non-trivial: at least one FAIL rule and one rule of another status; distinct by hash of the texts.".into(),
        assumptions: vec!["rule statuses are taken from the verbose record of the same evaluation (C01/C02 judge them)".into()],
    };
    execute("C09", tier, seed, spec, &replay, &|run: &Session| {
        let sz = tier.pick(Size::quick(), Size::thorough());
        run.run_random("reports", tier.pick(30_000, 800_000), tier.pick(1500, 3000), |u| random_case(u, sz));
    })
}
