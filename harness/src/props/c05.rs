//! C05 — evaluation is deterministic: same inputs, same bytes, same exit code.
use crate::ast::*;
use crate::choices::Choices;
use crate::drive::*;
use crate::engine::*;
use crate::gen::*;
use crate::val::V;
use serde_json::{json, Value as J};
use std::collections::BTreeMap;

#[derive(Clone, Copy, PartialEq, Debug)]
enum Cmp {
    Bytes,
    /// byte-identical after masking time="..." attributes
    Junit,
    /// multiset of lines
    Lines,
    /// console report (multiset of lines) followed by a JSON record (bytes)
    Mixed,
}

struct Mode {
    name: &'static str,
    cmp: Cmp,
}

const MODES: [Mode; 22] = [
    Mode { name: "validate -S all", cmp: Cmp::Lines },
    Mode { name: "validate -o json", cmp: Cmp::Bytes },
    Mode { name: "validate -o yaml", cmp: Cmp::Bytes },
    Mode { name: "validate --structured -o json", cmp: Cmp::Bytes },
    Mode { name: "validate --structured -o yaml", cmp: Cmp::Bytes },
    Mode { name: "validate --structured -o junit", cmp: Cmp::Junit },
    Mode { name: "validate --structured -o sarif", cmp: Cmp::Bytes },
    Mode { name: "validate -v -S all", cmp: Cmp::Lines },
    Mode { name: "validate -p", cmp: Cmp::Mixed },
    Mode { name: "test", cmp: Cmp::Lines },
    Mode { name: "test -o json", cmp: Cmp::Bytes },
    Mode { name: "test -o yaml", cmp: Cmp::Bytes },
    Mode { name: "test -o junit", cmp: Cmp::Junit },
    Mode { name: "parse-tree -p", cmp: Cmp::Bytes },
    Mode { name: "parse-tree -y", cmp: Cmp::Bytes },
    Mode { name: "rulegen", cmp: Cmp::Lines },
    // the same rules against the data file and three variants of it in one invocation
    Mode { name: "validate --structured -o sarif (4 data files)", cmp: Cmp::Bytes },
    Mode { name: "validate --structured -o json (4 data files)", cmp: Cmp::Bytes },
    Mode { name: "validate --structured -o junit (4 data files)", cmp: Cmp::Junit },
    Mode { name: "validate -S all (4 data files)", cmp: Cmp::Lines },
    // output written to a file that may exist already, with other content: what the file holds
    // afterwards is compared
    Mode { name: "parse-tree -p -o FILE", cmp: Cmp::Bytes },
    Mode { name: "rulegen -o FILE", cmp: Cmp::Lines },
];

fn argv(mode: usize, rules: &str, data: &str, spec: &str) -> Vec<String> {
    let s = |x: &str| x.to_string();
    let v = |xs: &[&str]| -> Vec<String> { xs.iter().map(|x| x.to_string()).collect() };
    let mut a = match mode {
        0 => v(&["validate", "-r", rules, "-d", data, "-S", "all"]),
        1 => v(&["validate", "-r", rules, "-d", data, "-o", "json", "-S", "none"]),
        2 => v(&["validate", "-r", rules, "-d", data, "-o", "yaml", "-S", "none"]),
        3 => v(&["validate", "-r", rules, "-d", data, "--structured", "-o", "json", "-S", "none"]),
        4 => v(&["validate", "-r", rules, "-d", data, "--structured", "-o", "yaml", "-S", "none"]),
        5 => v(&["validate", "-r", rules, "-d", data, "--structured", "-o", "junit", "-S", "none"]),
        6 => v(&["validate", "-r", rules, "-d", data, "--structured", "-o", "sarif", "-S", "none"]),
        7 => v(&["validate", "-r", rules, "-d", data, "-v", "-S", "all"]),
        8 => v(&["validate", "-r", rules, "-d", data, "-p", "-S", "none"]),
        9 => v(&["test", "-r", rules, "-t", spec]),
        10 => v(&["test", "-r", rules, "-t", spec, "-o", "json"]),
        11 => v(&["test", "-r", rules, "-t", spec, "-o", "yaml"]),
        12 => v(&["test", "-r", rules, "-t", spec, "-o", "junit"]),
        13 => v(&["parse-tree", "-r", rules, "-p"]),
        14 => v(&["parse-tree", "-r", rules, "-y"]),
        15 => v(&["rulegen", "-t", data]),
        m => {
            // the variants live next to the data file: <data>.v0.json ..
            let mut a = v(&["validate", "-r", rules, "-d", data]);
            for k in 0..3 {
                a.push("-d".into());
                a.push(format!("{}.v{}.json", data, k));
            }
            if m >= 20 {
                let out = format!("{}.out{}", data, m);
                return if m == 20 { v(&["parse-tree", "-r", rules, "-p", "-o", &out]) } else { v(&["rulegen", "-t", data, "-o", &out]) };
            }
            a.extend(match m {
                16 => v(&["--structured", "-o", "sarif", "-S", "none"]),
                17 => v(&["--structured", "-o", "json", "-S", "none"]),
                18 => v(&["--structured", "-o", "junit", "-S", "none"]),
                _ => v(&["-S", "all"]),
            });
            a
        }
    };
    let _ = s;
    a.shrink_to_fit();
    a
}

fn mask_time(s: &str) -> String {
    // time="123" -> time="*"
    let mut out = String::with_capacity(s.len());
    let mut rest = s;
    while let Some(i) = rest.find("time=\"") {
        out.push_str(&rest[..i + 6]);
        let after = &rest[i + 6..];
        let end = after.find('"').unwrap_or(0);
        out.push('*');
        rest = &after[end..];
    }
    out.push_str(rest);
    out
}

fn lines(s: &str) -> BTreeMap<String, usize> {
    let mut m = BTreeMap::new();
    for l in s.lines() {
        *m.entry(l.to_string()).or_default() += 1;
    }
    m
}

fn split_mixed(s: &str) -> (String, String) {
    let mut off = 0;
    for line in s.split_inclusive('\n') {
        if line.trim_end() == "{" {
            return (s[..off].to_string(), s[off..].to_string());
        }
        off += line.len();
    }
    (s.to_string(), String::new())
}

fn same(cmp: Cmp, a: &str, b: &str) -> bool {
    match cmp {
        Cmp::Bytes => a == b,
        Cmp::Junit => mask_time(a) == mask_time(b),
        Cmp::Lines => lines(a) == lines(b),
        Cmp::Mixed => {
            let (pa, ja) = split_mixed(a);
            let (pb, jb) = split_mixed(b);
            lines(&pa) == lines(&pb) && ja == jb
        }
    }
}

struct Case {
    rules: String,
    data: String,
    spec: String,
    /// three variants of the data document (other values, same shape) for the multi-file modes
    variants: Vec<String>,
}

const RUNS: usize = 5;

fn check(c: &Case, modes: &[usize], evals: &mut u64) -> Result<usize, (String, String)> {
    let dir = fresh_dir("c05");
    let rp = dir.join("r.guard");
    let dp = dir.join(if c.data.trim_start().starts_with(['{', '[']) { "template.json" } else { "template.yaml" });
    let sp = dir.join("r_tests.json");
    write_file(&rp, &c.rules);
    write_file(&dp, &c.data);
    write_file(&sp, &c.spec);
    for k in 0..3 {
        let text = c.variants.get(k).cloned().unwrap_or_else(|| "{}".to_string());
        write_file(&std::path::PathBuf::from(format!("{}.v{}.json", dp.to_string_lossy(), k)), &text);
    }
    let (rps, dps, sps) = (rp.to_string_lossy().to_string(), dp.to_string_lossy().to_string(), sp.to_string_lossy().to_string());
    let mut order_sensitive = 0;
    for &m in modes {
        let a = argv(m, &rps, &dps, &sps);
        let mut first: Option<Proc> = None;
        for run in 0..RUNS {
            // irrelevant environment varies from run to run
            let env = vec![
                ("HOME".to_string(), format!("/nonexistent-home-{}", run)),
                // POSIX TZ strings: no time-zone database is needed for them to take effect
                ("TZ".to_string(), ["UTC0", "EST5EDT", "JST-9", "CET-1CEST,M3.5.0,M10.5.0/3", "XYZ-10:30"][run].to_string()),
                ("LANG".to_string(), ["C", "en_US.UTF-8", "de_DE.UTF-8", "C.UTF-8", "ja_JP.UTF-8"][run].to_string()),
                (format!("GV_IRRELEVANT_{}", run), "x".repeat(run * 7)),
            ];
            let cwd = if run % 2 == 0 { dir.clone() } else { std::path::PathBuf::from("/") };
            // the output file of the -o modes: absent, long, short, long, absent
            let out_file = if m >= 20 { Some(std::path::PathBuf::from(format!("{}.out{}", dps, m))) } else { None };
            if let Some(f) = &out_file {
                let _ = std::fs::remove_file(f);
                match run {
                    1 | 3 => write_file(f, &format!("{}\n", "# left over from an earlier, longer run\n".repeat(600))),
                    2 => write_file(f, "short"),
                    _ => {}
                }
            }
            *evals += 1;
            let mut p = spawn_tool(&a, b"", &env, Some(&cwd), 60);
            if let Some(f) = &out_file {
                // what the file holds now is this mode's output
                p.out = std::fs::read(f).unwrap_or_default();
            }
            if p.timed_out {
                return Err((format!("{}: timed out", MODES[m].name), "c05:timeout".into()));
            }
            if p.crashed() {
                return Err((format!("{}: crashed: status {:?} signal {:?} stderr {}", MODES[m].name, p.status, p.signal, p.err_s().chars().take(300).collect::<String>()), format!("c05:crash:{}", MODES[m].name)));
            }
            match &first {
                None => first = Some(p),
                Some(f) => {
                    if f.status != p.status {
                        return Err((format!("{}: exit status {:?} in run 1 and {:?} in run {}", MODES[m].name, f.status, p.status, run + 1), format!("c05:exit:{}", MODES[m].name)));
                    }
                    if !same(MODES[m].cmp, &f.out_s(), &p.out_s()) {
                        // first differing line for the message
                        let (x, y) = (f.out_s(), p.out_s());
                        let d = x.lines().zip(y.lines()).find(|(a, b)| a != b).map(|(a, b)| format!("{:?} vs {:?}", a.chars().take(160).collect::<String>(), b.chars().take(160).collect::<String>())).unwrap_or_default();
                        return Err((
                            format!("{}: output of run {} differs from run 1 ({}): {}", MODES[m].name, run + 1, match MODES[m].cmp { Cmp::Lines => "even as a multiset of lines", _ => "bytes" }, d),
                            format!("c05:output:{}", MODES[m].name),
                        ));
                    }
                }
            }
        }
        if let Some(f) = &first {
            if f.out.iter().filter(|b| **b == b'\n').count() >= 3 {
                order_sensitive += 1;
            }
        }
    }
    Ok(order_sensitive)
}

/// (b) repeated evaluation inside one process, interleaved with another case
fn check_in_process(c: &Case, other: &Case, evals: &mut u64) -> Result<(), (String, String)> {
    let mut first: Option<(String, String, String)> = None;
    for run in 0..RUNS {
        *evals += 3;
        let a = format!("{:?}", run_checks(&c.data, &c.rules, true));
        let b = format!("{:?}", run_checks(&c.data, &c.rules, false));
        let r = validate_payload(&[c.rules.clone()], &[c.data.clone()], &[], &VOpts::structured(Fmt::Sarif));
        let cur = (a, b, format!("{:?}|{}", r.code, r.out));
        // something else is evaluated in between
        let _ = run_checks(&other.data, &other.rules, true);
        match &first {
            None => first = Some(cur),
            Some(f) => {
                if *f != cur {
                    let which = if f.0 != cur.0 { "run_checks(verbose)" } else if f.1 != cur.1 { "run_checks(non-verbose)" } else { "validate --payload --structured -o sarif" };
                    return Err((format!("in-process evaluation #{} of {} differs from the first", run + 1, which), format!("c05:in-process:{}", which)));
                }
            }
        }
    }
    Ok(())
}

fn gen_case(u: &mut Choices, sz: Size) -> (Case, bool) {
    // CloudFormation-shaped template with >=2 resources; >=3 rules
    let mut doc = gen_cfn_doc(u, &sz);
    if let V::Map(m) = &mut doc {
        if let Some((_, V::Map(res))) = m.iter_mut().find(|(k, _)| k == "Resources") {
            while res.len() < 3 {
                let i = res.len();
                let props = gen_map(u, 1, &sz, 2);
                res.push((format!("extra{}", i), V::Map(vec![("Type".into(), V::s(CFN_TYPES[i % 2])), ("Properties".into(), props)])));
            }
        }
    }
    // values that are the same number in different spellings, or round to the same double, on
    // resources of one type (a sort that compares them as numbers leaves their order to chance)
    if let V::Map(m) = &mut doc {
        if let Some((_, V::Map(res))) = m.iter_mut().find(|(k, _)| k == "Resources") {
            for (i, (_, r)) in res.iter_mut().enumerate() {
                if let V::Map(rm) = r {
                    if let Some((_, V::Map(pm))) = rm.iter_mut().find(|(k, _)| k == "Properties") {
                        pm.retain(|(k, _)| k != "Sz" && k != "Big");
                        pm.push(("Sz".into(), [V::Int(50), V::Float(50.0), V::Int(500), V::Float(500.0)][i % 4].clone()));
                        pm.push(("Big".into(), V::Int([9007199254740992i64, 9007199254740993, 9007199254740994][i % 3])));
                    }
                }
            }
        }
    }
    let mut sz2 = sz;
    sz2.rules = 4;
    let mut file = gen_wide_file(u, &doc, sz2, true);
    // make sure several rules fail on several resources: a type block per type over properties
    for (i, ty) in doc_types(&doc).iter().enumerate() {
        file.rules.push(rule1(
            &format!("typed{}", i),
            Item::TypeBlock {
                ty: ty.clone(),
                when: None,
                lets: vec![],
                body: vec![
                    vec![Item::Clause(cl_un(q_key(&["Properties", "NoSuchProperty"]), UnOp::Exists, false))],
                    vec![Item::Clause(cl_bin(q_key(&["Properties", "a"]), BinOp::Eq, false, Lit::V(V::s("never"))))],
                    vec![Item::Clause(cl_un(Query { head: Head::Key("Properties".into()), parts: vec![Part::Star] }, UnOp::IsNull, false))],
                ],
            },
        ));
    }
    // a failing `query == query` clause with several differing values on both sides
    file.rules.push(rule1(
        "queries",
        Item::Clause(Clause {
            prefneg: false,
            some: false,
            q: Query { head: Head::Key("Resources".into()), parts: vec![Part::Star, Part::Key("Properties".into()), Part::Star] },
            kind: Kind::Binary { op: BinOp::Eq, opneg: false, rhs: Expr::Query { some: false, q: Query { head: Head::Key("Resources".into()), parts: vec![Part::Star, Part::Key("Type".into())] } } },
            msg: None,
        }),
    ));
    let rules = print_file(&file);
    let names: Vec<String> = file.rules.iter().map(|r| r.name.clone()).collect();
    let exps: Vec<String> = names.iter().map(|n| format!("\"{}\": \"{}\"", n, ["PASS", "FAIL", "SKIP"][u.below(3)])).collect();
    let spec = format!(
        "[{{\"name\": \"one\", \"input\": {}, \"expectations\": {{\"rules\": {{{}}}}}}}, {{\"name\": \"two\", \"input\": {}, \"expectations\": {{\"rules\": {{{}}}}}}}]",
        doc.to_json(),
        exps.join(", "),
        doc.to_json(),
        exps.join(", ")
    );
    let rich = names.len() >= 3;
    // the data file: compact JSON, or (half of the cases) a multi-line layout, so that the source
    // excerpts of the console reporter differ from resource to resource
    let data = if u.chance(1, 2) {
        doc.to_json()
    } else {
        let st = *u.pick(&[crate::docw::Style::JsonPretty, crate::docw::Style::YamlBlock, crate::docw::Style::YamlBlock]);
        crate::docw::write_doc(&doc, st, u, true).text
    };
    // variants: the same template with some resources' property values changed, so that several
    // data files fail in different places
    let variants: Vec<String> = (0..3).map(|_| super::c02::vary_doc(u, &doc, &sz).to_json()).collect();
    (Case { rules, data, spec, variants }, rich)
}

fn case_json(c: &Case, modes: &[usize]) -> J {
    json!({"rules": c.rules, "data": c.data, "spec": c.spec, "modes": modes, "variants": c.variants})
}

// ------------------------------------------------------------------------------------------------
// results do not depend on what was evaluated earlier in the process: a batch invocation
// (several rule files x several data files) reports, per pair, what the pair reports on its own

fn batch_check(rules: &[String], docs: &[String], evals: &mut u64) -> Result<Option<usize>, (String, String)> {
    let d = fresh_dir("c05b");
    let rps: Vec<String> = rules.iter().enumerate().map(|(i, t)| { let p = d.join(format!("rules/r{}.guard", i)); write_file(&p, t); p.to_string_lossy().to_string() }).collect();
    let dps: Vec<String> = docs.iter().enumerate().map(|(i, t)| { let p = d.join(format!("data/d{}.json", i)); write_file(&p, t); p.to_string_lossy().to_string() }).collect();
    let o = VOpts::structured(Fmt::Json);
    let entries = |r: &Run| -> Option<Vec<String>> {
        serde_json::from_str::<J>(&r.out).ok().and_then(|j| j.as_array().map(|a| a.iter().map(|e| e.to_string()).collect()))
    };
    let mut singles: Vec<String> = vec![];
    let mut worst = 0;
    for rp in &rps {
        for dp in &dps {
            *evals += 1;
            let r = validate_files(&[rp.clone()], &[dp.clone()], &[], &o, "");
            if let Some(p) = &r.panic {
                return Err((format!("panic {}", p), format!("panic:{}", p.split(' ').next().unwrap_or(""))));
            }
            match (&r.code, entries(&r)) {
                (Ok(c), Some(e)) => {
                    worst = worst.max(*c);
                    singles.extend(e);
                }
                // an error in one pair aborts a batch: outside this comparison
                _ => return Ok(None),
            }
        }
    }
    *evals += 1;
    let b = validate_files(&rps, &dps, &[], &o, "");
    if let Some(p) = &b.panic {
        return Err((format!("panic {}", p), format!("panic:{}", p.split(' ').next().unwrap_or(""))));
    }
    let be = match (&b.code, entries(&b)) {
        (Ok(c), Some(e)) => {
            if *c != worst {
                return Err((format!("batch invocation exits {} but the pairs on their own exit at worst {}", c, worst), "c05:batch:exit".into()));
            }
            e
        }
        _ => return Err((format!("every pair evaluates on its own but the batch invocation fails: {}", b.brief()), "c05:batch:error".into())),
    };
    let mut a = singles.clone();
    let mut bb = be.clone();
    a.sort();
    bb.sort();
    if a != bb {
        let only_b: Vec<&String> = bb.iter().filter(|x| !a.contains(x)).collect();
        let only_a: Vec<&String> = a.iter().filter(|x| !bb.contains(x)).collect();
        return Err((
            format!("batch invocation ({} rule files x {} data files) reports {} which no pair reports on its own; on their own the pairs report {}", rules.len(), docs.len(),
                only_b.first().map(|s| s.chars().take(400).collect::<String>()).unwrap_or_default(), only_a.first().map(|s| s.chars().take(400).collect::<String>()).unwrap_or_default()),
            "c05:batch:differs-from-single".into(),
        ));
    }
    // the same without --structured (one evaluation scope per rules file serves every data file there):
    // with one rules file the output of the batch is the outputs of the pairs, one after the other
    if rps.len() == 1 {
        for (what, o) in [
            ("-o json", VOpts::plain(Fmt::Json, vec![Show::All])),
            ("-o yaml", VOpts::plain(Fmt::Yaml, vec![Show::Fail])),
            ("console -p", {
                let mut o = VOpts::plain(Fmt::Single, vec![Show::All]);
                o.print_json = true;
                o
            }),
        ] {
            let mut want = String::new();
            let mut worst = 0;
            for dp in &dps {
                *evals += 1;
                let r = validate_files(&rps, &[dp.clone()], &[], &o, "");
                match &r.code {
                    Ok(c) => worst = worst.max(*c),
                    Err(_) => return Ok(None),
                }
                want.push_str(&r.out);
            }
            *evals += 1;
            let b = validate_files(&rps, &dps, &[], &o, "");
            if let Some(p) = &b.panic {
                return Err((format!("panic {}", p), format!("panic:{}", p.split(' ').next().unwrap_or(""))));
            }
            if b.code != Ok(worst) {
                return Err((format!("validate {} over {} data files exits {:?} but the files on their own exit at worst {}", what, dps.len(), b.code, worst), "c05:batch:exit".into()));
            }
            if what == "console -p" {
                // console detail lines may come in any order: compare as multisets of lines
                let ms = |t: &str| {
                    let mut m: BTreeMap<String, usize> = BTreeMap::new();
                    for l in crate::props::c07::strip_ansi(t).lines() {
                        *m.entry(l.to_string()).or_default() += 1;
                    }
                    m
                };
                if ms(&b.out) != ms(&want) {
                    return Err((format!("validate {} over {} data files does not print what the files print on their own (as multisets of lines)", what, dps.len()), "c05:batch:plain-differs-from-single".into()));
                }
            } else if b.out != want {
                let at = b.out.bytes().zip(want.bytes()).position(|(x, y)| x != y).unwrap_or(0);
                let ctx = |t: &str| t.chars().skip(at.saturating_sub(80)).take(240).collect::<String>();
                return Err((format!("validate {} over {} data files does not print the outputs of the files on their own one after the other: batch ..{:?}.. vs ..{:?}..", what, dps.len(), ctx(&b.out), ctx(&want)), "c05:batch:plain-differs-from-single".into()));
            }
        }
    }
    Ok(Some(be.len()))
}

fn batch_case(u: &mut Choices, sz: Size) -> CaseResult {
    let mut doc = gen_cfn_doc(u, &sz);
    // multi-word keys in several naming conventions, queried in yet another one
    let mut sz = sz;
    sz.alt_case = u.chance(1, 2);
    if sz.alt_case {
        add_case_families(u, &mut doc);
    }
    // one rule file: --structured merges the rules of all rule files into one report per data
    // file (judged by C09), so pairs are only comparable per rule file
    let nr = 1;
    let rules: Vec<String> = (0..nr)
        .map(|_| {
            let mut f = gen_wide_file(u, &doc, sz, false);
            if u.chance(1, 4) {
                add_capture_idiom(u, &mut f, &doc);
            }
            print_file(&f)
        })
        .collect();
    let nd = u.range(2, 3);
    let mut docs = vec![doc.to_json()];
    for _ in 1..nd {
        let mut d = super::c02::vary_doc(u, &doc, &sz);
        if sz.alt_case && u.chance(1, 2) {
            add_case_families(u, &mut d);
        }
        docs.push(d.to_json());
    }
    let rot = u.below(nd);
    docs.rotate_left(rot);
    let mut evals = 0;
    match batch_check(&rules, &docs, &mut evals) {
        Ok(Some(n)) => {
            let distinct = docs.iter().collect::<std::collections::BTreeSet<_>>().len();
            CaseResult::Pass(Info {
                nontrivial: distinct >= 2,
                key: hash_case(&[&rules.join("\n--\n"), &docs.join("\n")]),
                classes: vec![format!("batch:rule-files:{}", nr), format!("batch:data-files:{}", nd), format!("batch:entries:{}", n), format!("batch:key-conventions:{}", sz.alt_case)],
                evals,
                sample: Some(json!({"rules": rules, "docs": docs})),
            })
        }
        Ok(None) => CaseResult::Discard("a pair does not evaluate"),
        Err((msg, sig)) => CaseResult::Fail(Failure { msg, sig, case: json!({"kind": "batch", "rules": rules, "docs": docs}) }),
    }
}

// ------------------------------------------------------------------------------------------------
// functions whose result could depend on the environment (time zone, locale): same bytes and exit
// status under every environment

fn env_inputs() -> Vec<(String, String)> {
    // (rules, data)
    let mut v = vec![];
    let stamps = [
        "2024-08-21T00:00:00Z", "2024-08-21T00:00:00+02:00", "2024-08-21T00:00:00", "2024-08-21T00:00:00.5", "2024-08-21 00:00:00", "2024-08-21", "2024-03-31T02:30:00", "2024-10-27T02:30:00",
        "1970-01-01T00:00:00", "Wed, 21 Aug 2024 00:00:00 +0200", "2024-08-21T00:00:00-00:00", "20240821T000000Z",
    ];
    for t in stamps {
        v.push((format!("rule r {{\n  let e = parse_epoch(t)\n  %e > 1724000000\n}}\nrule s {{\n  let e = parse_epoch(t)\n  %e < 1724198400\n}}\n"), format!("{{\"t\": \"{}\"}}", t)));
    }
    for w in ["stra\u{df}e", "\u{130}stanbul I\u{131}", "\u{1c6}", "\u{e9}A", "TITLE i"] {
        v.push(("rule r {\n  let u = to_upper(t)\n  let l = to_lower(t)\n  %u == %l\n  %u == 'X'\n  %l == /^[a-z]+$/\n}\n".to_string(), format!("{{\"t\": \"{}\"}}", w)));
    }
    for n in ["1,5", "1.5", "1 000", "1e3", "\u{661}\u{662}", "0x10", "1_000"] {
        v.push(("rule r {\n  let f = parse_float(t)\n  %f > 1.2\n}\nrule i {\n  let n = parse_int(t)\n  %n > 1\n}\n".to_string(), format!("{{\"t\": \"{}\"}}", n)));
    }
    // diagnostics are output too: a reference to a rule that does not exist lists the known names
    v.push(("rule a {\n  x == 1\n}\nrule b {\n  x == 1\n}\nrule c {\n  x == 1\n}\nrule d {\n  x == 1\n}\nrule e {\n  x == 1\n}\nrule f when nope {\n  x == 2\n}\n".to_string(), "{\"x\": 1}".to_string()));
    v.push(("rule p1(a) {\n  %a == 1\n}\nrule p2(a) {\n  %a == 1\n}\nrule p3(a) {\n  %a == 1\n}\nrule p4(a) {\n  %a == 1\n}\nrule p5(a) {\n  %a == 1\n}\nrule d {\n  nope(x)\n}\n".to_string(), "{\"x\": 1}".to_string()));
    for (a, b) in [("a", "B"), ("\u{e4}", "z"), ("Z", "a"), ("i", "\u{131}")] {
        v.push(("rule lt {\n  a < b\n}\nrule ge {\n  a >= b\n}\nrule re {\n  a == /(?i)^[a-z\u{e4}\u{131}]$/\n}\n".to_string(), format!("{{\"a\": \"{}\", \"b\": \"{}\"}}", a, b)));
    }
    v
}

fn env_case(i: usize) -> CaseResult {
    let inputs = env_inputs();
    let (rules, data) = &inputs[i];
    let dir = fresh_dir("c05e");
    let rp = dir.join("r.guard");
    let dp = dir.join("d.json");
    write_file(&rp, rules);
    write_file(&dp, data);
    let case = json!({"kind": "environment", "index": i, "rules": rules, "data": data});
    let envs: Vec<Vec<(String, String)>> = vec![
        vec![],
        vec![("TZ".into(), "UTC0".into()), ("LANG".into(), "C".into())],
        vec![("TZ".into(), "AAA10".into()), ("LANG".into(), "de_DE.UTF-8".into()), ("LC_ALL".into(), "de_DE.UTF-8".into())],
        vec![("TZ".into(), "BBB-10".into()), ("LANG".into(), "tr_TR.UTF-8".into()), ("LC_ALL".into(), "tr_TR.UTF-8".into())],
        vec![("TZ".into(), "CET-1CEST,M3.5.0,M10.5.0/3".into()), ("LC_NUMERIC".into(), "fr_FR.UTF-8".into()), ("HOME".into(), "/nonexistent".into())],
        vec![("TZ".into(), "XYZ-5:45".into()), ("LANGUAGE".into(), "ja".into()), ("LC_CTYPE".into(), "POSIX".into())],
    ];
    let mut evals = 0;
    for (mi, argv) in [vec!["validate", "-r", "{R}", "-d", "{D}", "-S", "all"], vec!["validate", "-r", "{R}", "-d", "{D}", "--structured", "-o", "json", "-S", "none"]].iter().enumerate() {
        let a: Vec<String> = argv.iter().map(|x| x.replace("{R}", &rp.to_string_lossy()).replace("{D}", &dp.to_string_lossy())).collect();
        let mut first: Option<Proc> = None;
        for (k, env) in envs.iter().enumerate() {
            evals += 1;
            let p = spawn_tool(&a, b"", env, Some(&dir), 60);
            if p.timed_out {
                return CaseResult::Discard("watchdog");
            }
            if p.crashed() {
                return CaseResult::Fail(Failure { msg: format!("environment #{}: crashed: {:?} {:?} {}", k, p.status, p.signal, p.err_s().chars().take(200).collect::<String>()), sig: "c05:env:crash".into(), case });
            }
            match &first {
                None => first = Some(p),
                Some(f) => {
                    let same_out = if mi == 0 { lines(&f.out_s()) == lines(&p.out_s()) } else { f.out == p.out };
                    if f.status != p.status || !same_out || f.err_s() != p.err_s() {
                        return CaseResult::Fail(Failure {
                            msg: format!("{}: with the environment {:?} exit status {:?} / output differ from the run with an empty environment change (exit {:?}); data {}", if mi == 0 { "validate -S all" } else { "validate --structured -o json" }, env, p.status, f.status, data),
                            sig: "c05:env:differs".into(),
                            case,
                        });
                    }
                }
            }
        }
    }
    CaseResult::Pass(Info { nontrivial: true, key: hash_case(&[rules, data]), classes: vec!["environment".into()], evals, sample: if i % 7 == 0 { Some(case) } else { None } })
}

pub fn replay(case: &J) -> CaseResult {
    if case["kind"] == "environment" {
        let inputs = env_inputs();
        return match inputs.iter().position(|(r, d)| Some(r.as_str()) == case["rules"].as_str() && Some(d.as_str()) == case["data"].as_str()) {
            Some(i) => env_case(i),
            None => CaseResult::Discard("unknown-environment-case"),
        };
    }
    if case["kind"] == "batch" {
        let strs = |k: &str| -> Vec<String> { case[k].as_array().map(|a| a.iter().filter_map(|x| x.as_str().map(String::from)).collect()).unwrap_or_default() };
        let mut ev = 0;
        return match batch_check(&strs("rules"), &strs("docs"), &mut ev) {
            Ok(_) => CaseResult::Pass(Info::default()),
            Err((msg, sig)) => CaseResult::Fail(Failure { msg, sig, case: case.clone() }),
        };
    }
    let c = Case { rules: case["rules"].as_str().unwrap_or("").to_string(), data: case["data"].as_str().unwrap_or("").to_string(), spec: case["spec"].as_str().unwrap_or("").to_string(), variants: case["variants"].as_array().map(|a| a.iter().filter_map(|x| x.as_str().map(String::from)).collect()).unwrap_or_default() };
    let modes: Vec<usize> = case["modes"].as_array().map(|a| a.iter().map(|m| m.as_u64().unwrap_or(0) as usize).collect()).unwrap_or_else(|| (0..MODES.len()).collect());
    let mut ev = 0;
    // a nondeterminism may need several attempts to show: replay runs the comparison 6 times
    for _ in 0..6 {
        if let Err((msg, sig)) = check(&c, &modes, &mut ev) {
            return CaseResult::Fail(Failure { msg, sig, case: case.clone() });
        }
    }
    CaseResult::Pass(Info::default())
}

fn random_case(u: &mut Choices, sz: Size) -> CaseResult {
    let (c, rich) = gen_case(u, sz);
    let (other, _) = gen_case(u, sz);
    let modes: Vec<usize> = (0..MODES.len()).collect();
    let mut evals = 0;
    if let Err((msg, sig)) = check_in_process(&c, &other, &mut evals) {
        return CaseResult::Fail(Failure { msg, sig, case: case_json(&c, &modes) });
    }
    match check(&c, &modes, &mut evals) {
        Ok(os) => CaseResult::Pass(Info {
            nontrivial: rich && os >= 8,
            key: hash_case(&[&c.rules, &c.data]),
            classes: vec![format!("modes-with-multi-line-output:{}", os)],
            evals,
            sample: Some(json!({"rules": c.rules, "data": c.data})),
        }),
        Err((msg, sig)) => {
            // keep only the failing mode for the replay
            let m = MODES.iter().position(|m| sig.ends_with(m.name)).map(|i| vec![i]).unwrap_or(modes);
            CaseResult::Fail(Failure { msg, sig, case: case_json(&c, &m) })
        }
    }
}

pub fn run(tier: Tier, seed: u64) -> i32 {
    let spec = EvidenceSpec {
        rule: "Random wide programs (>=3 rules incl. one failing type block per resource type with three failing clauses, unique messages) on CloudFormation-shaped templates with >=3 resources, plus a two-case test spec. Every case is run 5 times as a fresh process of the real cfn-guard binary in each of 22 modes (validate: console -S all, -o json, -o yaml, --structured json/yaml/junit/sarif, -v, -p; test: console, json, yaml, junit; parse-tree -p / -y; rulegen; validate over the data file plus three variants of it as --structured sarif / json / junit and console; parse-tree and rulegen writing to `-o FILE`, where FILE is absent, longer or shorter than the output before the run) with HOME, TZ, LANG, the working directory and an extra variable changed between runs: equal exit status; structured outputs byte-identical (JUnit after masking time=\"..\"); console / plain-text outputs identical as multisets of lines; -p output split into the console part (multiset) and the JSON record (bytes). Additionally 5 in-process evaluations (run_checks verbose / non-verbose, validate --payload --structured sarif) interleaved with another case must be byte-identical. Stage 'environment': 30 fixed programs using functions and operators whose result could depend on the time zone or locale (parse_epoch on timestamps with and without offset, to_upper / to_lower on non-ASCII text, parse_float / parse_int on locale-formatted numbers, string ordering, case-insensitive regexes, references to rules that do not exist - the diagnostic lists the known names) run through the real binary under 6 environments (TZ as POSIX strings, LANG / LC_* / LANGUAGE, HOME): same exit status, stderr and output. Stage 'batch' (in process): a generated rule file x 2-3 documents (variants of one another) given to ONE validate --structured -o json invocation must report, as a multiset of file reports and in its exit code, exactly what the (rule file, document) pairs report when each is evaluated by an invocation of its own. Non-trivial (processes): >=3 rules and >=8 modes with multi-line output; distinct by hash of rules and data.".into(),
        assumptions: vec![
            "colour-control variables (NO_COLOR) are held fixed: a documented feature of the colored crate".into(),
            "five runs miss an order leak over n>=3 entries with probability <= (1/6)^4 per case".into(),
        ],
    };
    execute("C05", tier, seed, spec, &replay, &|run: &Session| {
        let sz = tier.pick(Size::quick(), Size::thorough());
        run.shrink_iters.store(40, std::sync::atomic::Ordering::Relaxed);
        run.run_enum("environment", env_inputs().len(), env_case);
        run.run_random("processes", tier.pick(48, 1200), 2500, |u| random_case(u, sz));
        run.shrink_iters.store(1500, std::sync::atomic::Ordering::Relaxed);
        run.run_random("batch", tier.pick(8_000, 200_000), tier.pick(2000, 3200), |u| batch_case(u, sz));
    })
}
