//! C02 — every composite status follows from its parts.
//! (i) record checker: every composite node of the verbose record is recomputed from its
//!     children's recorded statuses by the law of the property statement;
//! (ii) shape enumeration: CNF shapes with leaves forced to PASS/FAIL/SKIP planted at every call
//!     site of the combinator; expected composite status = the property's combinator.
use super::common::*;
use crate::ast::*;
use crate::choices::Choices;
use crate::drive::*;
use crate::engine::*;
use crate::gen::*;
use crate::model::St;
use crate::val::V;
use serde_json::{json, Value as J};
use std::collections::HashMap;

// ------------------------------------------------------------------------------------------------
// (i) record checker

fn kind(n: &J) -> Option<(&str, &J)> {
    match &n["container"] {
        J::Object(o) => o.iter().next().map(|(k, v)| (k.as_str(), v)),
        _ => None,
    }
}

pub fn node_status(n: &J) -> Option<St> {
    let (k, v) = kind(n)?;
    let s = |x: &J| x.as_str().and_then(St::parse);
    match k {
        "FileCheck" | "RuleCheck" | "WhenCheck" | "Disjunction" | "BlockGuardCheck" | "GuardClauseBlockCheck" => s(&v["status"]),
        "RuleCondition" | "WhenCondition" | "TypeCondition" | "Filter" | "TypeBlock" => s(v),
        "TypeCheck" => s(&v["block"]["status"]),
        "ClauseValueCheck" => match v {
            J::String(x) if x == "Success" => Some(St::Pass),
            J::Object(o) => {
                let (vk, vv) = o.iter().next()?;
                match vk.as_str() {
                    "NoValueForEmptyCheck" => Some(St::Fail),
                    "Unary" => s(&vv["value"]["status"]),
                    _ => s(&vv["status"]),
                }
            }
            _ => None,
        },
        _ => None,
    }
}

fn is_line_node(k: &str) -> bool {
    matches!(k, "GuardClauseBlockCheck" | "Disjunction" | "BlockGuardCheck" | "WhenCheck" | "TypeCheck" | "ClauseValueCheck" | "RuleCheck")
}

fn conj(sts: &[St]) -> St {
    if sts.iter().any(|s| *s == St::Fail) {
        St::Fail
    } else if sts.iter().any(|s| *s == St::Pass) {
        St::Pass
    } else {
        St::Skip
    }
}

pub struct Hints {
    /// (line, column) of a named-rule reference / parameterised call -> negated?
    pub neg_at: HashMap<(u64, u64), bool>,
    /// (line, column) of a query block -> number of lines in its body
    pub block_lines: HashMap<(u64, u64), usize>,
}

/// positions of negated rule references and block sizes, taken from the tool's own parse tree
pub fn hints_from_parse_tree(rules_text: &str) -> Option<Hints> {
    let r = parse_tree(rules_text, true);
    if r.code != Ok(0) {
        return None;
    }
    let j: J = serde_json::from_str(&r.out).ok()?;
    let mut h = Hints { neg_at: HashMap::new(), block_lines: HashMap::new() };
    fn walk(j: &J, h: &mut Hints) {
        match j {
            J::Object(o) => {
                if let (Some(dep), Some(neg), Some(loc)) = (o.get("dependent_rule"), o.get("negation"), o.get("location")) {
                    if dep.is_string() {
                        if let (Some(l), Some(c)) = (loc["line"].as_u64(), loc["column"].as_u64()) {
                            h.neg_at.insert((l, c), neg.as_bool().unwrap_or(false));
                        }
                    }
                }
                if let (Some(q), Some(b), Some(loc), Some(_ne)) = (o.get("query"), o.get("block"), o.get("location"), o.get("not_empty")) {
                    if let (Some(l), Some(c)) = (loc["line"].as_u64(), loc["column"].as_u64()) {
                        let n = b["conjunctions"].as_array().map(|a| a.len()).unwrap_or(0);
                        // a query with a filter or a variable emits evaluation records of its own
                        // inside the block's node; such blocks are not judged
                        let qs = q.to_string();
                        let clean = !qs.contains("\"Filter\"") && !qs.contains("\"MapKeyFilter\"") && !qs.contains("\"Key\":\"%");
                        if clean {
                            h.block_lines.insert((l, c), n);
                        }
                    }
                }
                for (_, v) in o {
                    walk(v, h);
                }
            }
            J::Array(a) => a.iter().for_each(|v| walk(v, h)),
            _ => {}
        }
    }
    walk(&j, &mut h);
    Some(h)
}

fn loc_in_context(ctx: &str) -> Option<(u64, u64)> {
    // "...Location[file:r.guard, line:4, column:3]..."
    let l = ctx.find("line:")?;
    let rest = &ctx[l + 5..];
    let line: u64 = rest.split(|c: char| !c.is_ascii_digit()).next()?.parse().ok()?;
    let c = rest.find("column:")?;
    let col: u64 = rest[c + 7..].split(|c: char| !c.is_ascii_digit()).next()?.parse().ok()?;
    Some((line, col))
}

pub struct Checked {
    pub composites: u64,
    pub mixed: u64, // composites with >=2 children whose statuses are not all equal
}

/// All RuleCheck statuses by rule name, in record order (pre-order).
fn collect_rule_checks(n: &J, out: &mut Vec<(String, St)>) {
    if let Some(("RuleCheck", v)) = kind(n) {
        if let (Some(name), Some(st)) = (v["name"].as_str(), node_status(n)) {
            out.push((name.to_string(), st));
        }
    }
    if let Some(ch) = n["children"].as_array() {
        for c in ch {
            collect_rule_checks(c, out);
        }
    }
}

pub fn check_record(root: &J, hints: Option<&Hints>) -> Result<Checked, String> {
    let mut all_rules = vec![];
    collect_rule_checks(root, &mut all_rules);
    let mut acc = Checked { composites: 0, mixed: 0 };
    check_node(root, hints, &all_rules, &mut acc, 0)?;
    match kind(root) {
        Some(("FileCheck", _)) => Ok(acc),
        other => Err(format!("root of the record is {:?}, not FileCheck", other.map(|x| x.0))),
    }
}

fn check_node(n: &J, hints: Option<&Hints>, all_rules: &[(String, St)], acc: &mut Checked, depth: usize) -> Result<(), String> {
    let ctx = n["context"].as_str().ok_or_else(|| "node without context".to_string())?;
    let (k, v) = kind(n).ok_or_else(|| format!("node '{}' has no container (record opened but never closed)", ctx))?;
    let children = n["children"].as_array().ok_or_else(|| format!("node '{}' has no children array", ctx))?;
    let st = node_status(n).ok_or_else(|| format!("node '{}' ({}) has no status", ctx, k))?;
    for c in children {
        check_node(c, hints, all_rules, acc, depth + 1)?;
    }
    let ck = |c: &J| kind(c).map(|x| x.0.to_string()).unwrap_or_default();
    let cst = |c: &J| node_status(c).unwrap_or(St::Skip);
    let bad = |want: St, why: &str| -> Result<(), String> {
        Err(format!(
            "{} '{}' is {} but its parts give {} ({}); children: [{}]",
            k,
            ctx,
            st.text(),
            want.text(),
            why,
            children.iter().map(|c| format!("{}={}", ck(c), cst(c).text())).collect::<Vec<_>>().join(", ")
        ))
    };
    let mut note = |sts: &[St]| {
        acc.composites += 1;
        if sts.len() >= 2 && sts.iter().any(|s| *s != sts[0]) {
            acc.mixed += 1;
        }
    };
    match k {
        "FileCheck" => {
            if depth != 0 {
                return Err("FileCheck below the root".into());
            }
            if children.iter().any(|c| ck(c) != "RuleCheck") {
                return Err("FileCheck has a child that is not a RuleCheck".into());
            }
            let sts: Vec<St> = children.iter().map(cst).collect();
            note(&sts);
            if conj(&sts) != st {
                return bad(conj(&sts), "file: FAIL iff a rule failed, PASS iff none failed and one passed");
            }
        }
        "RuleCheck" | "WhenCheck" => {
            let cond_kind = if k == "RuleCheck" { "RuleCondition" } else { "WhenCondition" };
            let (cond, body): (Option<&J>, &[J]) = match children.first() {
                Some(c) if ck(c) == cond_kind => (Some(c), &children[1..]),
                _ => (None, &children[..]),
            };
            if k == "WhenCheck" && cond.is_none() {
                return Err(format!("WhenCheck '{}' without a WhenCondition child", ctx));
            }
            if let Some(c) = cond {
                if cst(c) != St::Pass {
                    if !body.is_empty() {
                        return Err(format!("{} '{}': condition is {} but the body was evaluated ({} records)", k, ctx, cst(c).text(), body.len()));
                    }
                    if st != St::Skip {
                        return bad(St::Skip, "condition not PASS => SKIP");
                    }
                    return Ok(());
                }
            }
            for b in body {
                if !is_line_node(&ck(b)) {
                    return Err(format!("{} '{}' has a body child of kind {}", k, ctx, ck(b)));
                }
            }
            let sts: Vec<St> = body.iter().map(cst).collect();
            note(&sts);
            if conj(&sts) != st {
                return bad(conj(&sts), "body: FAIL iff a line failed, PASS iff none failed and one passed");
            }
        }
        "RuleCondition" | "WhenCondition" | "TypeCondition" | "TypeBlock" | "Filter" => {
            let sts: Vec<St> = children.iter().filter(|c| is_line_node(&ck(c))).map(cst).collect();
            note(&sts);
            if conj(&sts) != st {
                return bad(conj(&sts), "conjunction of lines");
            }
        }
        "TypeCheck" => {
            let mut i = 0;
            if let Some(c) = children.first() {
                if ck(c) == "TypeCondition" {
                    i = 1;
                    if cst(c) != St::Pass {
                        if children.len() > 1 {
                            return Err(format!("TypeCheck '{}': condition not PASS but children follow", ctx));
                        }
                        if st != St::Skip {
                            return bad(St::Skip, "type condition not PASS => SKIP");
                        }
                        return Ok(());
                    }
                }
            }
            let sts: Vec<St> = children[i..].iter().filter(|c| ck(c) == "TypeBlock").map(cst).collect();
            note(&sts);
            if conj(&sts) != st {
                return bad(conj(&sts), "type block over resources");
            }
        }
        "Disjunction" => {
            let sts: Vec<St> = children.iter().map(cst).collect();
            note(&sts);
            if sts.is_empty() {
                return Err(format!("Disjunction '{}' without alternatives", ctx));
            }
            let npass = sts.iter().filter(|s| **s == St::Pass).count();
            let want = if npass > 0 {
                if npass != 1 || *sts.last().unwrap() != St::Pass {
                    return Err(format!("Disjunction '{}': alternatives after the first PASS were evaluated: {:?}", ctx, sts.iter().map(|s| s.text()).collect::<Vec<_>>()));
                }
                St::Pass
            } else if sts.iter().any(|s| *s == St::Fail) {
                St::Fail
            } else {
                St::Skip
            };
            if want != st {
                return bad(want, "or-line: PASS iff an alternative passed, FAIL iff none passed and one failed");
            }
        }
        "BlockGuardCheck" => {
            let some = v["at_least_one_matches"].as_bool().unwrap_or(false);
            // only blocks whose query cannot leave records of its own here are judged
            let lines_known = hints.and_then(|h| loc_in_context(ctx).and_then(|l| h.block_lines.get(&l).copied()));
            if lines_known.is_none() {
                return Ok(());
            }
            let parts: Vec<&J> = children.iter().filter(|c| is_line_node(&ck(c))).collect();
            let sts: Vec<St> = parts.iter().map(|c| cst(c)).collect();
            note(&sts);
            if parts.is_empty() {
                // empty selection: SKIP, or FAIL under `!empty`
                if st == St::Pass {
                    return bad(St::Skip, "block over an empty selection");
                }
            } else if !some {
                if conj(&sts) != st {
                    return bad(conj(&sts), "block (all): FAIL iff a line failed for some value, PASS iff none failed and one passed");
                }
            } else {
                // `some` block: group the flattened line records per selected value
                let lines = hints.and_then(|h| loc_in_context(ctx).and_then(|l| h.block_lines.get(&l).copied()));
                let mut per_value: Vec<St> = vec![];
                let mut ok_grouping = false;
                if let Some(l) = lines {
                    // MissingBlockValue records are one per unresolved value
                    let mut cur: Vec<St> = vec![];
                    ok_grouping = true;
                    for p in &parts {
                        let is_missing = ck(p) == "ClauseValueCheck" && p["container"]["ClauseValueCheck"].get("MissingBlockValue").is_some();
                        if is_missing {
                            if !cur.is_empty() {
                                ok_grouping = false;
                            }
                            per_value.push(St::Fail);
                        } else {
                            cur.push(cst(p));
                            if cur.len() == l {
                                per_value.push(conj(&cur));
                                cur.clear();
                            }
                        }
                    }
                    if !cur.is_empty() {
                        ok_grouping = false;
                    }
                }
                if ok_grouping {
                    let want = if per_value.iter().any(|s| *s == St::Pass) {
                        St::Pass
                    } else if per_value.iter().any(|s| *s == St::Fail) {
                        St::Fail
                    } else {
                        St::Skip
                    };
                    if want != st {
                        return bad(want, "some-block: PASS iff the body passed for one value");
                    }
                } else {
                    // weaker necessary conditions
                    if st == St::Pass && !sts.iter().any(|s| *s == St::Pass) {
                        return bad(St::Fail, "some-block PASS without any passing line");
                    }
                    if st == St::Fail && !sts.iter().any(|s| *s == St::Fail) {
                        return bad(St::Skip, "some-block FAIL without any failing line");
                    }
                }
            }
        }
        "GuardClauseBlockCheck" => {
            let some = v["at_least_one_matches"].as_bool().unwrap_or(false);
            // the clause's own value checks carry the clause text as context; value checks recorded
            // while the query was evaluated (map-key filters) carry another context
            let own = ctx.strip_prefix("GuardAccessClause#block").unwrap_or(ctx);
            let vals: Vec<St> = children.iter().filter(|c| ck(c) == "ClauseValueCheck" && c["context"].as_str() == Some(own)).map(cst).collect();
            note(&vals);
            if vals.is_empty() {
                // nothing to explain the status with: an empty selection (SKIP) or a comparison
                // whose operands flatten to nothing (`x <= []`, vacuously PASS). The property
                // speaks about composites of clauses, not about a clause and its value checks,
                // so nothing is asserted here.
            } else {
                // the flag is recorded inconsistently (all vs !all) on the SKIP path only; here
                // it is the quantifier of the clause
                let want_all = if vals.iter().any(|s| *s == St::Fail) { St::Fail } else { St::Pass };
                let want_some = if vals.iter().any(|s| *s == St::Pass) { St::Pass } else { St::Fail };
                let want = if some { want_some } else { want_all };
                if want != st {
                    return bad(want, if some { "clause (some): PASS iff one value passed" } else { "clause (all): FAIL iff one value failed" });
                }
            }
        }
        "ClauseValueCheck" => {
            // a named-rule reference: explained by the referenced rule's status
            if ctx.starts_with("Rule(") {
                let name = ctx.trim_start_matches("Rule(").split('@').next().unwrap_or("");
                let child: Option<St> = children.iter().find(|c| ck(c) == "RuleCheck").map(cst);
                // status of the rule = first non-SKIP among the evaluations of same-named rules
                let by_name: Vec<St> = all_rules.iter().filter(|(n, _)| n == name).map(|(_, s)| *s).collect();
                let rule_st = child.filter(|s| *s != St::Skip).or_else(|| by_name.iter().copied().find(|s| *s != St::Skip)).unwrap_or(St::Skip);
                if by_name.is_empty() && child.is_none() {
                    return Err(format!("reference to rule '{}' but no RuleCheck for it anywhere in the record", name));
                }
                if let Some(neg) = hints.and_then(|h| loc_in_context(ctx).and_then(|l| h.neg_at.get(&l).copied())) {
                    let want = if (rule_st == St::Pass) != neg { St::Pass } else { St::Fail };
                    acc.composites += 1;
                    if want != st {
                        return Err(format!(
                            "rule reference '{}' (negated={}) is {} but rule {} is {}",
                            ctx,
                            neg,
                            st.text(),
                            name,
                            rule_st.text()
                        ));
                    }
                }
            }
        }
        other => return Err(format!("unknown record kind {}", other)),
    }
    Ok(())
}

// ------------------------------------------------------------------------------------------------
// consistency of the root status with what the caller gets

fn check_root_consistency(doc: &str, rules: &str, file: St, evals: &mut u64) -> Result<(), String> {
    // non-verbose library output
    *evals += 1;
    match run_checks(doc, rules, false) {
        Lib::Ok(s) => {
            // F3: the non-verbose output was truncated to the unflushed tail for reports > 8 KiB;
            // here only the status is read, and only if the text is JSON
            if let Ok(j) = serde_json::from_str::<J>(&s) {
                let got = j["status"].as_str().and_then(St::parse);
                if got != Some(file) {
                    return Err(format!("record root is {} but run_checks(verbose=false) reports status {:?}", file.text(), got.map(|s| s.text())));
                }
            } else {
                return Err(format!("run_checks(verbose=false) did not return JSON ({} bytes)", s.len()));
            }
        }
        other => return Err(format!("run_checks(verbose=false) failed where verbose succeeded: {:?}", other)),
    }
    // exit code of validate (payload, structured json)
    *evals += 1;
    let r = validate_payload(&[rules.to_string()], &[doc.to_string()], &[], &VOpts::structured(Fmt::Json));
    let want = if file == St::Fail { 19 } else { 0 };
    if r.code != Ok(want) {
        return Err(format!("record root is {} but validate --structured exits {:?}", file.text(), r.code));
    }
    Ok(())
}

fn check_program(doc: &str, rules: &str, evals: &mut u64, with_root: bool) -> Result<(Checked, Verdict), Failure> {
    let case = json!({"kind": "record", "doc": doc, "rules": rules});
    *evals += 1;
    let (v, rec) = verdict(doc, rules);
    match (&v, rec) {
        (Verdict::Ok { file, .. }, Some(rec)) => {
            let hints = hints_from_parse_tree(rules);
            let chk = check_record(&rec, hints.as_ref()).map_err(|e| Failure { msg: e, sig: "c02:record-inconsistent".into(), case: case.clone() })?;
            if with_root {
                check_root_consistency(doc, rules, *file, evals).map_err(|e| Failure {
                    sig: if e.contains("did not return JSON") { "c02:nonverbose-not-json".into() } else { "c02:root-status".into() },
                    msg: e,
                    case: case.clone(),
                })?;
            }
            Ok((chk, v))
        }
        (Verdict::Ok { .. }, None) => Ok((Checked { composites: 0, mixed: 0 }, v)),
        (Verdict::EvalErr(_), _) => Ok((Checked { composites: 0, mixed: 0 }, v)),
        (Verdict::ParseErr(e), _) => Err(Failure { msg: format!("generated program rejected by the parser: {}", e), sig: "c02:generator-invalid".into(), case }),
        (Verdict::Panic(p), _) => Err(Failure { msg: format!("panic {}", p), sig: format!("panic:{}", p.split(' ').next().unwrap_or("")), case }),
    }
}

fn random_case(u: &mut Choices, sz: Size) -> CaseResult {
    let doc = gen_cfn_doc(u, &sz);
    let with_messages = u.chance(1, 2);
    let file = gen_wide_file(u, &doc, sz, with_messages);
    let doc_text = doc.to_json();
    let text = print_file(&file);
    let mut evals = 0;
    let with_root = u.chance(1, 8);
    match check_program(&doc_text, &text, &mut evals, with_root) {
        Ok((chk, v)) => {
            let mut classes = vec![];
            if let Verdict::Ok { rules, file } = &v {
                classes.push(format!("file:{}", file.text()));
                for (_, s) in rules {
                    classes.push(format!("rule:{}", s.text()));
                }
            } else {
                classes.push("file:ERROR".into());
            }
            super::c01::feature_classes(&file, &mut classes);
            if text.contains("AWS::") {
                classes.push("has:type-block".into());
            }
            if !file.prules.is_empty() {
                classes.push("has:param-rule".into());
            }
            CaseResult::Pass(Info {
                nontrivial: chk.mixed > 0,
                key: hash_case(&[&doc_text, &text]),
                classes,
                evals,
                sample: Some(json!({"doc": doc_text, "rules": text, "composites_checked": chk.composites, "with_unequal_children": chk.mixed})),
            })
        }
        Err(f) => CaseResult::Fail(f),
    }
}

// ------------------------------------------------------------------------------------------------
// (ii) shape enumeration

const SITES: [&str; 8] = ["rule-body", "rule-when", "when-condition", "when-body", "block-body", "type-block-body", "filter", "default-rule"];

/// a leaf clause with a known status on the fixed document; `k` is the key the context offers
fn leaf(st: St) -> Clause {
    match st {
        St::Pass => cl_bin(q_key(&["a"]), BinOp::Eq, false, Lit::V(V::Int(1))),
        St::Fail => cl_bin(q_key(&["a"]), BinOp::Eq, false, Lit::V(V::Int(2))),
        // empty filtered selection => SKIP
        St::Skip => cl_bin(
            Query { head: Head::Key("items".into()), parts: vec![Part::Filter(vec![vec![Item::Clause(cl_bin(q_key(&["k"]), BinOp::Eq, false, Lit::V(V::s("none"))))]]), Part::Key("v".into())] },
            BinOp::Eq,
            false,
            Lit::V(V::Int(1)),
        ),
    }
}

fn shape_doc() -> V {
    // every context value (root, w[0], Resources.r1) offers a=1 and items=[{k:'x', v:1}]
    let ctxm = |extra: Vec<(String, V)>| {
        let mut m = vec![
            ("a".to_string(), V::Int(1)),
            ("items".to_string(), V::List(vec![V::Map(vec![("k".into(), V::s("x")), ("v".into(), V::Int(1))])])),
        ];
        m.extend(extra);
        V::Map(m)
    };
    ctxm(vec![
        ("w".into(), V::List(vec![ctxm(vec![])])),
        ("Resources".into(), V::Map(vec![("r1".into(), ctxm(vec![("Type".into(), V::s("AWS::X::Y"))]))])),
    ])
}

fn combine_line(alts: &[St]) -> St {
    // first PASS wins; FAIL iff none passed and one failed; else SKIP
    if alts.iter().any(|s| *s == St::Pass) {
        St::Pass
    } else if alts.iter().any(|s| *s == St::Fail) {
        St::Fail
    } else {
        St::Skip
    }
}

fn shape_count(max_lines: usize, max_alts: usize) -> Vec<Vec<usize>> {
    // all line-length vectors: lines in 1..=max_lines, each with 1..=max_alts alternatives
    let mut out = vec![];
    fn rec(cur: &mut Vec<usize>, max_lines: usize, max_alts: usize, out: &mut Vec<Vec<usize>>) {
        if !cur.is_empty() {
            out.push(cur.clone());
        }
        if cur.len() == max_lines {
            return;
        }
        for a in 1..=max_alts {
            cur.push(a);
            rec(cur, max_lines, max_alts, out);
            cur.pop();
        }
    }
    rec(&mut vec![], max_lines, max_alts, &mut out);
    out
}

/// decode the `idx`-th assignment of {P,F,S} to the leaves of `shape`
fn assignment(shape: &[usize], mut idx: usize) -> Vec<Vec<St>> {
    let mut out = vec![];
    for n in shape {
        let mut line = vec![];
        for _ in 0..*n {
            line.push([St::Pass, St::Fail, St::Skip][idx % 3]);
            idx /= 3;
        }
        out.push(line);
    }
    out
}

fn site_rule(site: usize, name: &str, cnf: Cnf, expected_cnf: St) -> (Vec<Rule>, Cnf, St) {
    // returns (rules, default clauses, expected status of rule `name`)
    let exists = |k: &str| vec![vec![Item::Clause(cl_un(q_key(&[k]), UnOp::Exists, false))]];
    match site {
        0 => (vec![Rule { name: name.into(), when: None, lets: vec![], body: cnf }], vec![], expected_cnf),
        1 => (
            vec![Rule { name: name.into(), when: Some(cnf), lets: vec![], body: exists("a") }],
            vec![],
            if expected_cnf == St::Pass { St::Pass } else { St::Skip },
        ),
        2 => (
            vec![Rule { name: name.into(), when: None, lets: vec![], body: vec![vec![Item::When { cond: cnf, lets: vec![], body: exists("a") }]] }],
            vec![],
            if expected_cnf == St::Pass { St::Pass } else { St::Skip },
        ),
        3 => (
            vec![Rule { name: name.into(), when: None, lets: vec![], body: vec![vec![Item::When { cond: exists("a"), lets: vec![], body: cnf }]] }],
            vec![],
            expected_cnf,
        ),
        4 => (
            vec![Rule {
                name: name.into(),
                when: None,
                lets: vec![],
                body: vec![vec![Item::Block { some: false, q: Query { head: Head::Key("w".into()), parts: vec![Part::AllIdx] }, notempty: false, lets: vec![], body: cnf }]],
            }],
            vec![],
            expected_cnf,
        ),
        5 => (
            vec![Rule { name: name.into(), when: None, lets: vec![], body: vec![vec![Item::TypeBlock { ty: "AWS::X::Y".into(), when: None, lets: vec![], body: cnf }]] }],
            vec![],
            expected_cnf,
        ),
        6 => (
            // observed through the selection: w[ cnf ] !empty
            vec![Rule {
                name: name.into(),
                when: None,
                lets: vec![],
                body: vec![vec![Item::Clause(Clause {
                    prefneg: false,
                    some: false,
                    q: Query { head: Head::Key("w".into()), parts: vec![Part::Filter(cnf)] },
                    kind: Kind::Unary { op: UnOp::Empty, opneg: true },
                    msg: None,
                })]],
            }],
            vec![],
            if expected_cnf == St::Pass { St::Pass } else { St::Fail },
        ),
        _ => (vec![], cnf, expected_cnf),
    }
}

fn shape_case(shapes: &[Vec<usize>], offsets: &[usize], i: usize) -> CaseResult {
    // i -> (shape, site); each case runs all 3^leaves assignments of that shape at that site
    let site = i % SITES.len();
    let si = i / SITES.len();
    let shape = &shapes[si];
    let leaves: usize = shape.iter().sum();
    let total = 3usize.pow(leaves as u32);
    let _ = offsets;
    let doc = shape_doc().to_json();
    let mut evals = 0u64;
    let mut mixed = 0u64;
    // batch: up to 81 assignments per file as separate rules (the default-rule site: one per file)
    let per_file = if site == 7 { 1 } else { 81 };
    let mut a = 0;
    while a < total {
        let hi = (a + per_file).min(total);
        let mut file = File::default();
        let mut wants: Vec<(String, St, Vec<Vec<St>>)> = vec![];
        for idx in a..hi {
            let asg = assignment(shape, idx);
            let line_sts: Vec<St> = asg.iter().map(|l| combine_line(l)).collect();
            let expected = conj(&line_sts);
            let cnf: Cnf = asg.iter().map(|l| l.iter().map(|s| Item::Clause(leaf(*s))).collect()).collect();
            let name = format!("s{}", idx);
            let (rules, default, want) = site_rule(site, &name, cnf, expected);
            file.rules.extend(rules);
            if !default.is_empty() {
                file.default = default;
                wants.push(("default".into(), want, asg));
            } else {
                wants.push((name, want, asg));
            }
        }
        let text = print_file(&file);
        evals += 1;
        let (v, rec) = verdict(&doc, &text);
        let fail = |msg: String, sig: &str, text: &str| CaseResult::Fail(Failure { msg, sig: sig.into(), case: json!({"kind": "shape", "doc": doc, "rules": text, "site": SITES[site]}) });
        match &v {
            Verdict::Ok { rules, .. } => {
                for (name, want, asg) in &wants {
                    let got = rules.iter().find(|(n, _)| n == name || n.ends_with(&format!("/{}", name))).map(|(_, s)| *s);
                    if got != Some(*want) {
                        // minimal reproduction: that rule alone
                        let cnf: Cnf = asg.iter().map(|l| l.iter().map(|s| Item::Clause(leaf(*s))).collect()).collect();
                        let (r1, d1, w1) = site_rule(site, name, cnf, conj(&asg.iter().map(|l| combine_line(l)).collect::<Vec<_>>()));
                        let f1 = File { rules: r1, default: d1, ..File::default() };
                        let t1 = print_file(&f1);
                        let shape_txt = asg.iter().map(|l| l.iter().map(|s| s.text()).collect::<Vec<_>>().join(" or ")).collect::<Vec<_>>().join(" AND ");
                        return CaseResult::Fail(Failure {
                            msg: format!("site {}: leaves ({}) must give {} but rule {} is {:?}", SITES[site], shape_txt, w1.text(), name, got.map(|s| s.text())),
                            sig: format!("c02:shape:{}", SITES[site]),
                            case: json!({"kind": "shape", "doc": doc, "rules": t1, "site": SITES[site], "rule": name, "want": w1.text()}),
                        });
                    }
                    if asg.iter().flatten().any(|s| *s != asg[0][0]) {
                        mixed += 1;
                    }
                }
                if let Some(rec) = rec {
                    if let Err(e) = check_record(&rec, None) {
                        return fail(e, "c02:record-inconsistent", &text);
                    }
                }
            }
            other => return fail(format!("shape file did not evaluate: {}", other.short()), "c02:shape-eval", &text),
        }
        a = hi;
    }
    CaseResult::Pass(Info {
        nontrivial: mixed > 0,
        key: hash_case(&[&format!("{:?}@{}", shape, site)]),
        classes: vec![format!("site:{}", SITES[site]), format!("assignments:{}", total)],
        evals,
        sample: Some(json!({"shape (alternatives per line)": shape, "site": SITES[site], "assignments": total})),
    })
}

// ------------------------------------------------------------------------------------------------
// (v) clauses that name a rule or call a parameterised rule, alone and as `or` alternatives

fn named_case(i: usize) -> CaseResult {
    // document {"k": 1}; R and f(p) forced to PASS / FAIL / SKIP
    let status = [St::Pass, St::Fail, St::Skip][i % 3];
    let users_first = i / 3 == 1;
    let r_body = ["k == 1", "k == 2", "when k == 2 {\n    k == 1\n  }"][i % 3];
    let f_body = ["%p == 1", "%p == 2", "when %p == 2 {\n    %p == 1\n  }"][i % 3];
    let defs = format!("rule R {{\n  {}\n}}\nrule f(p) {{\n  {}\n}}\n", r_body, f_body);
    let named = |x: &str| -> St {
        match x {
            "R" => if status == St::Pass { St::Pass } else { St::Fail },
            "not R" | "not f(k)" => if status != St::Pass { St::Pass } else { St::Fail },
            // a call takes the status of the called rule
            _ => status,
        }
    };
    let leaves = [("k == 1", St::Pass), ("k == 2", St::Fail), ("when k == 2 {\n    k == 1\n  }", St::Skip)];
    let mut users = String::new();
    let mut want: Vec<(String, St)> = vec![];
    let mut n = 0;
    for x in ["R", "not R", "f(k)", "not f(k)"] {
        n += 1;
        users.push_str(&format!("rule n{} {{\n  {}\n}}\n", n, x));
        want.push((format!("n{}", n), named(x)));
        for (lt, ls) in &leaves {
            for first in [true, false] {
                n += 1;
                // a rule reference ends its line: when it comes first the `or` follows on the same line
                let body = if first { format!("{} or\n  {}", x, lt) } else { format!("{} or\n  {}", lt, x) };
                users.push_str(&format!("rule n{} {{\n  {}\n}}\n", n, body));
                want.push((format!("n{}", n), combine_line(&[named(x), *ls])));
            }
        }
    }
    let text = if users_first { format!("{}{}", users, defs) } else { format!("{}{}", defs, users) };
    let doc = "{\"k\": 1}";
    let case = json!({"kind": "named", "index": i, "doc": doc, "rules": text});
    let (v, rec) = verdict(doc, &text);
    match &v {
        Verdict::Ok { rules, .. } => {
            for (name, w) in &want {
                let got = rules.iter().find(|(k, _)| k == name).map(|(_, s)| *s);
                if got != Some(*w) {
                    let body: String = text.split(&format!("rule {} {{\n", name)).nth(1).unwrap_or("").split("\n}\n").next().unwrap_or("").to_string();
                    return CaseResult::Fail(Failure { msg: format!("with R and f forced to {}: rule {} `{}` must be {} but is {:?}", status.text(), name, body.replace('\n', " "), w.text(), got.map(|s| s.text())), sig: "c02:named-clause".into(), case });
                }
            }
        }
        other => return CaseResult::Fail(Failure { msg: format!("did not evaluate: {}", other.short()), sig: "c02:named-clause-eval".into(), case }),
    }
    if let Some(rec) = rec {
        let hints = hints_from_parse_tree(&text);
        if let Err(e) = check_record(&rec, hints.as_ref()) {
            return CaseResult::Fail(Failure { msg: e, sig: "c02:record-inconsistent".into(), case });
        }
    }
    CaseResult::Pass(Info { nontrivial: true, key: hash_case(&[&text]), classes: vec![format!("named-clauses:{}", status.text())], evals: 1, sample: if i == 2 { Some(case) } else { None } })
}

// ------------------------------------------------------------------------------------------------
// (iv) blocks evaluated once per selected value: the block's status over all values

const VALUE_SITES: [&str; 5] = ["type-block", "file-level-type-block", "query-block", "filter-block", "some-query-block"];

/// all status vectors of 1..=3 values, each value's block forced to PASS / FAIL / SKIP by a marker
fn value_vectors() -> Vec<Vec<St>> {
    let mut out = vec![];
    for n in 1..=3usize {
        for mut idx in 0..3usize.pow(n as u32) {
            let mut v = vec![];
            for _ in 0..n {
                v.push([St::Pass, St::Fail, St::Skip][idx % 3]);
                idx /= 3;
            }
            out.push(v);
        }
    }
    out
}

fn values_case(i: usize) -> CaseResult {
    let vectors = value_vectors();
    let site = i % VALUE_SITES.len();
    let vec_ = &vectors[i / VALUE_SITES.len()];
    // every resource carries the status its block must get: the body is
    //   when Properties.st != 'skip' { Properties.st == 'pass' }
    let res: Vec<(String, V)> = vec_
        .iter()
        .enumerate()
        .map(|(k, st)| {
            (format!("r{}", k), V::Map(vec![("Type".into(), V::s("AWS::X::Y")), ("Properties".into(), V::Map(vec![("st".into(), V::s(match st { St::Pass => "pass", St::Fail => "fail", St::Skip => "skip" }))]))]))
        })
        .collect();
    let doc = V::Map(vec![("Resources".into(), V::Map(res)), ("a".into(), V::Int(1))]).to_json();
    let body = "when Properties.st != 'skip' {\n      Properties.st == 'pass'\n    }";
    let (rules, name) = match VALUE_SITES[site] {
        "type-block" => (format!("rule t {{\n  AWS::X::Y {{\n    {}\n  }}\n}}\n", body), "t"),
        "file-level-type-block" => (format!("AWS::X::Y {{\n    {}\n}}\n", body), "default"),
        "query-block" => (format!("rule t {{\n  Resources.* {{\n    {}\n  }}\n}}\n", body), "t"),
        "filter-block" => (format!("rule t {{\n  Resources.*[ Type == 'AWS::X::Y' ] {{\n    {}\n  }}\n}}\n", body), "t"),
        _ => (format!("rule t {{\n  some Resources.* {{\n    {}\n  }}\n}}\n", body), "t"),
    };
    let all = |s: St| vec_.iter().all(|x| *x == s);
    let any = |s: St| vec_.iter().any(|x| *x == s);
    // FAIL iff one value's block failed, PASS iff none failed and one passed, else SKIP; with
    // `some`: PASS iff one value's block passed, FAIL iff none passed and one failed, else SKIP
    let want = if VALUE_SITES[site] == "some-query-block" {
        if any(St::Pass) {
            St::Pass
        } else if any(St::Fail) {
            St::Fail
        } else {
            St::Skip
        }
    } else if any(St::Fail) {
        St::Fail
    } else if any(St::Pass) {
        St::Pass
    } else {
        St::Skip
    };
    let case = json!({"kind": "values", "site": VALUE_SITES[site], "doc": doc, "rules": rules, "rule": name, "want": want.text(), "vector": vec_.iter().map(|s| s.text()).collect::<Vec<_>>()});
    let (v, rec) = verdict(&doc, &rules);
    let got = match &v {
        Verdict::Ok { rules: rs, .. } => rs.iter().find(|(n, _)| strip_file_prefix(n) == name).map(|(_, s)| *s),
        _ => None,
    };
    if got != Some(want) {
        return CaseResult::Fail(Failure {
            msg: format!("{} over values whose blocks are {:?}: rule {} must be {} but the tool reports {}", VALUE_SITES[site], vec_.iter().map(|s| s.text()).collect::<Vec<_>>(), name, want.text(), v.short()),
            sig: format!("c02:values:{}", VALUE_SITES[site]),
            case,
        });
    }
    if let Some(rec) = rec {
        if let Err(e) = check_record(&rec, None) {
            return CaseResult::Fail(Failure { msg: e, sig: "c02:record-inconsistent".into(), case });
        }
    }
    CaseResult::Pass(Info { nontrivial: !all(vec_[0]), key: hash_case(&[&doc, &rules]), classes: vec![format!("values-site:{}", VALUE_SITES[site]), format!("values:{}", vec_.len())], evals: 1, sample: if i % 17 == 0 { Some(case) } else { None } })
}

// ------------------------------------------------------------------------------------------------
// (iii) several documents in one invocation: every record of the stream is checked on its own

/// a variant of `doc`: one top-level or Resources entry dropped / one scalar replaced
pub fn vary_doc(u: &mut Choices, doc: &V, sz: &Size) -> V {
    match u.below(4) {
        0 => gen_cfn_doc(u, sz),
        1 => {
            // drop one top-level key
            if let V::Map(m) = doc {
                let mut m = m.clone();
                if m.len() > 1 {
                    let i = u.below(m.len());
                    if m[i].0 != "Resources" {
                        m.remove(i);
                    }
                }
                V::Map(m)
            } else {
                doc.clone()
            }
        }
        _ => {
            // replace the values of some top-level keys by those of a fresh document
            let other = gen_cfn_doc(u, sz);
            if let (V::Map(m), V::Map(o)) = (doc, &other) {
                let mut m = m.clone();
                for (k, v) in m.iter_mut() {
                    if u.chance(1, 2) {
                        if let Some((_, nv)) = o.iter().find(|(ok, _)| ok == k) {
                            *v = nv.clone();
                        }
                    }
                }
                V::Map(m)
            } else {
                other
            }
        }
    }
}

fn records_of_stream(out: &str) -> Result<Vec<J>, String> {
    // the records are pretty-printed, one after the other, possibly with console report lines in
    // between: a record starts at a line "{" and ends at the next line "}"
    let mut v = vec![];
    let mut cur: Option<String> = None;
    for line in out.lines() {
        match cur.as_mut() {
            None if line == "{" => cur = Some(String::from("{\n")),
            None => {}
            Some(t) => {
                t.push_str(line);
                t.push('\n');
                if line == "}" {
                    let txt = cur.take().unwrap();
                    v.push(serde_json::from_str::<J>(&txt).map_err(|e| format!("a --print-json record is not JSON: {}", e))?);
                }
            }
        }
    }
    if cur.is_some() {
        return Err("the last --print-json record is not closed".into());
    }
    Ok(v)
}

fn check_multi(docs: &[String], rules: &str, as_dir: bool, evals: &mut u64) -> Result<(Checked, Vec<St>), Failure> {
    let case = json!({"kind": "multi", "docs": docs, "rules": rules, "as_dir": as_dir});
    let fail = |msg: String, sig: &str| Failure { msg, sig: sig.to_string(), case: case.clone() };
    let d = fresh_dir("c02m");
    let rp = d.join("r.guard");
    write_file(&rp, rules);
    let mut paths = vec![];
    for (i, t) in docs.iter().enumerate() {
        let p = d.join("data").join(format!("d{}.json", i));
        write_file(&p, t);
        paths.push(p.to_string_lossy().to_string());
    }
    let data_args = if as_dir { vec![d.join("data").to_string_lossy().to_string()] } else { paths.clone() };
    let mut o = VOpts::plain(Fmt::Single, vec![Show::None]);
    o.print_json = true;
    *evals += 1;
    let r = validate_files(&[rp.to_string_lossy().to_string()], &data_args, &[], &o, "");
    if let Some(p) = &r.panic {
        return Err(fail(format!("panic {}", p), &format!("panic:{}", p.split(' ').next().unwrap_or(""))));
    }
    let code = match &r.code {
        Ok(c) => *c,
        // an evaluation error in any document aborts the invocation: nothing to check
        Err(_) => return Ok((Checked { composites: 0, mixed: 0 }, vec![])),
    };
    let recs = records_of_stream(&r.out).map_err(|e| fail(e, "c02:multi:stream"))?;
    if recs.len() != docs.len() {
        return Err(fail(format!("{} documents were given but the output holds {} records", docs.len(), recs.len()), "c02:multi:stream"));
    }
    let hints = hints_from_parse_tree(rules);
    let mut acc = Checked { composites: 0, mixed: 0 };
    let mut files = vec![];
    for (i, rec) in recs.iter().enumerate() {
        let chk = check_record(rec, hints.as_ref()).map_err(|e| fail(format!("record #{} of the invocation: {}", i, e), "c02:multi:record-inconsistent"))?;
        acc.composites += chk.composites;
        acc.mixed += chk.mixed;
        let name = rec["container"]["FileCheck"]["name"].as_str().unwrap_or("");
        let k = paths.iter().position(|p| p == name || p.ends_with(name)).ok_or_else(|| fail(format!("record #{} names an unknown data file {:?}", i, name), "c02:multi:stream"))?;
        let (_, fs) = record_verdict(rec).ok_or_else(|| fail(format!("record #{} has no FileCheck root", i), "c02:multi:stream"))?;
        // the same document on its own: the record must explain the same statuses
        *evals += 1;
        if let (Verdict::Ok { rules: rs1, file: f1 }, _) = verdict(&docs[k], rules) {
            let (rsn, _) = record_verdict(rec).unwrap();
            let a: Vec<(String, St)> = rsn.iter().map(|(n, s)| (strip_file_prefix(n), *s)).collect();
            let b: Vec<(String, St)> = rs1.iter().map(|(n, s)| (strip_file_prefix(n), *s)).collect();
            if f1 != fs || a != b {
                return Err(fail(
                    format!("document #{} evaluated together with {} others: file={} rules={:?}; evaluated on its own: file={} rules={:?}", k, docs.len() - 1, fs.text(), a, f1.text(), b),
                    "c02:multi:differs-from-single",
                ));
            }
        }
        files.push(fs);
    }
    let want = if files.iter().any(|s| *s == St::Fail) { 19 } else { 0 };
    if code != want {
        return Err(fail(format!("record roots are {:?} but validate exits {}", files.iter().map(|s| s.text()).collect::<Vec<_>>(), code), "c02:multi:root-status"));
    }
    Ok((acc, files))
}

fn multi_case(u: &mut Choices, sz: Size) -> CaseResult {
    let mut doc = gen_cfn_doc(u, &sz);
    let mut sz = sz;
    sz.alt_case = u.chance(1, 2);
    if sz.alt_case {
        add_case_families(u, &mut doc);
    }
    let mut file = gen_wide_file(u, &doc, sz, false);
    if u.chance(1, 4) {
        add_capture_idiom(u, &mut file, &doc);
    }
    let text = print_file(&file);
    let n = u.range(2, 3);
    let mut docs = vec![doc.to_json()];
    for _ in 1..n {
        let mut d = vary_doc(u, &doc, &sz);
        if sz.alt_case && u.chance(1, 2) {
            add_case_families(u, &mut d);
        }
        docs.push(d.to_json());
    }
    // the generating document is not always the first one
    let rot = u.below(n);
    docs.rotate_left(rot);
    let as_dir = u.chance(1, 3);
    let mut evals = 0;
    match check_multi(&docs, &text, as_dir, &mut evals) {
        Ok((chk, files)) => {
            let mut classes = vec![format!("documents:{}", docs.len()), format!("as-directory:{}", as_dir)];
            let distinct: std::collections::BTreeSet<&str> = files.iter().map(|s| s.text()).collect();
            classes.push(format!("distinct-file-statuses:{}", distinct.len()));
            let has_ref = file.rules.iter().any(|r| format!("{:?}", r).contains("Ref {"));
            classes.push(format!("has-rule-reference:{}", has_ref));
            CaseResult::Pass(Info {
                nontrivial: distinct.len() > 1 || (chk.mixed > 0 && !files.is_empty()),
                key: hash_case(&[&docs.join("\n"), &text]),
                classes,
                evals,
                sample: Some(json!({"docs": docs, "rules": text, "composites_checked": chk.composites})),
            })
        }
        Err(f) => CaseResult::Fail(f),
    }
}

pub fn replay(case: &J) -> CaseResult {
    if case["kind"] == "named" {
        return named_case(case["index"].as_u64().unwrap_or(0) as usize);
    }
    if case["kind"] == "values" {
        let vectors = value_vectors();
        let site = VALUE_SITES.iter().position(|s| Some(*s) == case["site"].as_str()).unwrap_or(0);
        let want: Vec<St> = case["vector"].as_array().map(|a| a.iter().filter_map(|x| x.as_str().and_then(St::parse)).collect()).unwrap_or_default();
        return match vectors.iter().position(|v| *v == want) {
            Some(vi) => values_case(vi * VALUE_SITES.len() + site),
            None => CaseResult::Discard("unknown-values-case"),
        };
    }
    if case["kind"] == "multi" {
        let docs: Vec<String> = case["docs"].as_array().map(|a| a.iter().filter_map(|x| x.as_str().map(String::from)).collect()).unwrap_or_default();
        let mut evals = 0;
        return match check_multi(&docs, case["rules"].as_str().unwrap_or(""), case["as_dir"].as_bool().unwrap_or(false), &mut evals) {
            Ok(_) => CaseResult::Pass(Info::default()),
            Err(f) => CaseResult::Fail(f),
        };
    }
    let doc = case["doc"].as_str().unwrap_or("");
    let rules = case["rules"].as_str().unwrap_or("");
    if case["kind"] == "shape" {
        let (v, rec) = verdict(doc, rules);
        let want = case["want"].as_str().and_then(St::parse);
        let name = case["rule"].as_str().unwrap_or("");
        if let (Verdict::Ok { rules: rs, .. }, Some(w)) = (&v, want) {
            let got = rs.iter().find(|(n, _)| n == name || n.ends_with(&format!("/{}", name))).map(|(_, s)| *s);
            if got != Some(w) {
                return CaseResult::Fail(Failure { msg: format!("rule {} must be {} but is {:?}", name, w.text(), got.map(|s| s.text())), sig: format!("c02:shape:{}", case["site"].as_str().unwrap_or("")), case: case.clone() });
            }
        }
        if let Some(rec) = rec {
            if let Err(e) = check_record(&rec, None) {
                return CaseResult::Fail(Failure { msg: e, sig: "c02:record-inconsistent".into(), case: case.clone() });
            }
        }
        if !v.is_ok() {
            return CaseResult::Fail(Failure { msg: format!("did not evaluate: {}", v.short()), sig: "c02:shape-eval".into(), case: case.clone() });
        }
        return CaseResult::Pass(Info::default());
    }
    let mut evals = 0;
    match check_program(doc, rules, &mut evals, true) {
        Ok(_) => CaseResult::Pass(Info::default()),
        Err(f) => CaseResult::Fail(f),
    }
}

pub fn run(tier: Tier, seed: u64) -> i32 {
    let spec = EvidenceSpec {
        rule: "Stage 'shapes' enumerates CNF shapes (lines x alternatives per line) x call site of the combinator {rule body, rule when, when-block condition, when-block body, query-block body, type-block body, filter, default rule}; one case evaluates ALL 3^leaves assignments of forced PASS/FAIL/SKIP leaf clauses of that shape at that site and compares the rule's status with the property's combinator, and also runs the record checker on every record. Stage 'named-clauses': a rule R and a parameterised rule f forced to PASS / FAIL / SKIP; `R`, `not R`, `f(k)`, `not f(k)` alone and as first / second `or` alternative beside a forced PASS / FAIL / SKIP leaf (28 rules per status, definitions before and after their users): rule statuses by the statement's rule and record consistency. Stage 'values' enumerates every PASS/FAIL/SKIP vector of 1-3 selected values (resources whose block status is forced by a marker property) for the blocks that run once per value - type block in a rule and at file level, query block, filter block, `some` query block - and compares the rule's status with the statement's rule (FAIL iff one value's block failed, PASS iff none failed and one passed, else SKIP; `some`: PASS iff one passed). Stage 'random' generates wide programs (type blocks, parameterised rules, nested when/blocks, rule references) on CloudFormation-shaped documents and recomputes every composite node of the verbose record from its children's recorded statuses (rule references against the referenced RuleCheck, negation taken from the parse tree); 1 in 8 cases also checks the root status against the non-verbose library output and the validate exit code. Stage 'multi-document' gives 2-3 documents (variants of one another) to ONE `validate --print-json` invocation (file arguments or a directory), runs the record checker on every record of the stream, requires each record to explain the same statuses as the document evaluated on its own, and the exit code to follow the record roots. Non-trivial: the record contains a composite with >=2 children of unequal status (shapes: an assignment with unequal leaves); distinct by hash of the texts / (shape, site).".into(),
        assumptions: vec![
            "leaf statuses are taken from the record itself (local consistency); leaves are judged by C01".into(),
            "negation of rule references and the body size of `some` blocks are read from the tool's own parse tree (parser, not evaluator)".into(),
        ],
    };
    execute("C02", tier, seed, spec, &replay, &|run: &Session| {
        let shapes: Vec<Vec<usize>> = match tier {
            // quick: <=2 lines x <=3 alternatives and 3 lines x <=2 alternatives
            Tier::Quick => {
                let mut s = shape_count(2, 3);
                s.extend(shape_count(3, 2).into_iter().filter(|x| x.len() == 3));
                s
            }
            Tier::Thorough => shape_count(3, 3),
        };
        run.run_enum("shapes", shapes.len() * SITES.len(), |i| shape_case(&shapes, &[], i));
        run.run_enum("named-clauses", 6, named_case);
        run.run_enum("values", value_vectors().len() * VALUE_SITES.len(), values_case);
        let sz = tier.pick(Size::quick(), Size::thorough());
        run.run_random("random", tier.pick(60_000, 1_500_000), tier.pick(1200, 2400), |u| random_case(u, sz));
        run.run_random("multi-document", tier.pick(12_000, 300_000), tier.pick(1600, 2800), |u| multi_case(u, sz));
    })
}
