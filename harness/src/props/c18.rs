//! C18 — built-in functions compute what their documentation says (independent reference
//! implementations in this file; results observed through a dump of the result set).
use crate::ast::*;
use crate::choices::Choices;
use crate::drive::*;
use crate::engine::*;
use crate::val::V;
use serde_json::{json, Value as J};

#[derive(Clone, Debug, PartialEq)]
enum Exp {
    /// the result set, in order
    Values(Vec<V>),
    /// an evaluation error, never a value
    Error,
    /// the documentation does not determine the outcome: nothing asserted
    Unspecified,
}

fn pct_decode(s: &str) -> Option<Option<String>> {
    // Some(Some(x)) decoded; Some(None) decodes to invalid UTF-8 (skipped); None = malformed
    // escape (not asserted)
    let b = s.as_bytes();
    let mut out = vec![];
    let mut i = 0;
    while i < b.len() {
        if b[i] == b'%' {
            if i + 3 > b.len() {
                return None;
            }
            let h = std::str::from_utf8(&b[i + 1..i + 3]).ok()?;
            match u8::from_str_radix(h, 16) {
                Ok(x) if h.chars().all(|c| c.is_ascii_hexdigit()) => out.push(x),
                _ => return None,
            }
            i += 3;
        } else {
            out.push(b[i]);
            i += 1;
        }
    }
    Some(String::from_utf8(out).ok())
}

fn is_ascii_printable(s: &str) -> bool {
    s.chars().all(|c| c.is_ascii() && !c.is_ascii_control())
}

/// members: Some(v) resolved, None unresolved
fn expected(f: &str, members: &[Option<V>], a1: Option<&V>, a2: Option<&V>) -> Exp {
    let strings_only = |g: &dyn Fn(&str) -> Option<String>| -> Exp {
        Exp::Values(
            members
                .iter()
                .filter_map(|m| match m {
                    Some(V::Str(s)) => g(s).map(V::Str),
                    _ => None,
                })
                .collect(),
        )
    };
    match f {
        "count" => Exp::Values(vec![V::Int(members.iter().filter(|m| m.is_some()).count() as i64)]),
        "to_upper" => strings_only(&|s| Some(s.to_uppercase())),
        "to_lower" => strings_only(&|s| Some(s.to_lowercase())),
        "url_decode" => {
            let mut out = vec![];
            for m in members {
                if let Some(V::Str(s)) = m {
                    match pct_decode(s) {
                        None => return Exp::Unspecified,
                        Some(Some(d)) => out.push(V::Str(d)),
                        Some(None) => {}
                    }
                }
            }
            Exp::Values(out)
        }
        "substring" => {
            let idx = |v: Option<&V>| -> Option<i128> {
                match v {
                    Some(V::Int(i)) => Some(*i as i128),
                    // a float offset: the documentation asks for an int; only whole floats are asserted
                    Some(V::Float(f)) if f.fract() == 0.0 && f.abs() < 1e15 => Some(*f as i128),
                    _ => None,
                }
            };
            let (i, j) = match (idx(a1), idx(a2)) {
                (Some(i), Some(j)) => (i, j),
                _ => return Exp::Unspecified,
            };
            let mut out = vec![];
            for m in members {
                if let Some(V::Str(s)) = m {
                    if !s.is_ascii() {
                        return Exp::Unspecified; // the statement speaks about ASCII strings
                    }
                    let n = s.len() as i128;
                    if i >= 0 && i < j && j <= n {
                        out.push(V::Str(s[i as usize..j as usize].to_string()));
                    }
                }
            }
            Exp::Values(out)
        }
        "join" => {
            let d = match a1 {
                Some(V::Str(d)) => d.clone(),
                _ => return Exp::Unspecified,
            };
            if members.iter().any(|m| m.is_none()) {
                return Exp::Unspecified; // unresolved members: the tool refuses; not documented
            }
            let strs: Vec<String> = members
                .iter()
                .filter_map(|m| match m {
                    Some(V::Str(s)) => Some(s.clone()),
                    _ => None,
                })
                .collect();
            Exp::Values(vec![V::Str(strs.join(&d))])
        }
        "parse_int" => {
            let mut out = vec![];
            for m in members {
                match m {
                    Some(V::Int(i)) => out.push(V::Int(*i)),
                    Some(V::Float(f)) => {
                        // "floating point numbers are truncated to their integer representation";
                        // a float that has none (out of the i64 range) is not parsable
                        if !f.is_finite() || f.abs() >= 9.2e18 {
                            return Exp::Error;
                        }
                        out.push(V::Int(f.trunc() as i64))
                    }
                    Some(V::Str(s)) => {
                        let ok = !s.is_empty() && s.len() <= 18 && {
                            let t = s.strip_prefix('-').unwrap_or(s);
                            !t.is_empty() && t.chars().all(|c| c.is_ascii_digit())
                        };
                        if ok {
                            out.push(V::Int(s.parse().unwrap()))
                        } else if s.starts_with('+') || s.len() > 18 {
                            return Exp::Unspecified;
                        } else {
                            return Exp::Error;
                        }
                    }
                    _ => {}
                }
            }
            Exp::Values(out)
        }
        "parse_float" => {
            let mut out = vec![];
            for m in members {
                match m {
                    Some(V::Int(i)) => {
                        if i.unsigned_abs() > (1u64 << 52) {
                            return Exp::Unspecified;
                        }
                        out.push(V::Float(*i as f64))
                    }
                    Some(V::Float(f)) => out.push(V::Float(*f)),
                    Some(V::Str(s)) => {
                        // plain decimal notation only
                        let t = s.strip_prefix('-').unwrap_or(s);
                        let parts: Vec<&str> = t.split('.').collect();
                        let dec = !t.is_empty() && parts.len() <= 2 && parts.iter().all(|p| !p.is_empty() && p.chars().all(|c| c.is_ascii_digit())) && t.len() <= 15;
                        if dec {
                            out.push(V::Float(s.parse().unwrap()))
                        } else if matches!(t.to_lowercase().as_str(), "inf" | "nan" | "infinity") {
                            // "Strings that cannot be represented as a number will cause this
                            // function to error": not-a-number and the infinities are not numbers
                            return Exp::Error;
                        } else if t.chars().any(|c| c.is_ascii_digit()) {
                            return Exp::Unspecified; // other notations Rust may or may not accept
                        } else {
                            return Exp::Error;
                        }
                    }
                    _ => {}
                }
            }
            Exp::Values(out)
        }
        "parse_string" => {
            let mut out = vec![];
            for m in members {
                match m {
                    Some(V::Int(i)) => out.push(V::Str(i.to_string())),
                    Some(V::Bool(b)) => out.push(V::Str(b.to_string())),
                    Some(V::Str(s)) => out.push(V::Str(s.clone())),
                    Some(V::Float(f)) => {
                        if [0.5, 1.5, 10.25, 0.25].contains(f) {
                            out.push(V::Str(format!("{}", f)))
                        } else {
                            return Exp::Unspecified;
                        }
                    }
                    _ => {}
                }
            }
            Exp::Values(out)
        }
        "parse_boolean" => {
            let mut out = vec![];
            for m in members {
                match m {
                    Some(V::Bool(b)) => out.push(V::Bool(*b)),
                    Some(V::Str(s)) => match s.to_ascii_lowercase().as_str() {
                        "true" => out.push(V::Bool(true)),
                        "false" => out.push(V::Bool(false)),
                        _ => return Exp::Error,
                    },
                    _ => {}
                }
            }
            Exp::Values(out)
        }
        "parse_char" => {
            // ints 0..=9 -> the digit; one-character strings -> that character; longer strings and
            // other ints are errors; everything else is skipped (empty and non-ASCII strings: the
            // documentation speaks of "length", not asserted)
            let mut out = vec![];
            for m in members {
                match m {
                    Some(V::Int(i)) if (0..=9).contains(i) => out.push(V::Str(i.to_string())),
                    Some(V::Int(_)) => return Exp::Error,
                    Some(V::Str(s)) if !s.is_ascii() || s.is_empty() => return Exp::Unspecified,
                    Some(V::Str(s)) if s.len() == 1 => out.push(V::Str(s.clone())),
                    Some(V::Str(_)) => return Exp::Error,
                    _ => {}
                }
            }
            Exp::Values(out)
        }
        "parse_epoch" => {
            let mut out = vec![];
            for m in members {
                match m {
                    Some(V::Str(s)) => match rfc3339_epoch(s) {
                        Some(t) => out.push(V::Int(t)),
                        None => return Exp::Error,
                    },
                    _ => {}
                }
            }
            Exp::Values(out)
        }
        _ => Exp::Unspecified,
    }
}

/// strict RFC 3339 `YYYY-MM-DDTHH:MM:SS[.fff](Z|+HH:MM|-HH:MM)` -> seconds since the epoch
/// (Howard Hinnant's days-from-civil); None for anything else
fn rfc3339_epoch(s: &str) -> Option<i64> {
    let b = s.as_bytes();
    if b.len() < 20 || !s.is_ascii() {
        return None;
    }
    let num = |a: usize, n: usize| -> Option<i64> {
        let t = s.get(a..a + n)?;
        if t.bytes().all(|c| c.is_ascii_digit()) {
            t.parse::<i64>().ok()
        } else {
            None
        }
    };
    let (y, mo, d, h, mi, se) = (num(0, 4)?, num(5, 2)?, num(8, 2)?, num(11, 2)?, num(14, 2)?, num(17, 2)?);
    if b[4] != b'-' || b[7] != b'-' || b[10] != b'T' || b[13] != b':' || b[16] != b':' {
        return None;
    }
    let leap = (y % 4 == 0 && y % 100 != 0) || y % 400 == 0;
    let dim = [31, if leap { 29 } else { 28 }, 31, 30, 31, 30, 31, 31, 30, 31, 30, 31];
    if !(1..=12).contains(&mo) || d < 1 || d > dim[(mo - 1) as usize] || h > 23 || mi > 59 || se > 59 {
        return None;
    }
    let mut i = 19;
    if b[i] == b'.' {
        i += 1;
        let st = i;
        while i < b.len() && b[i].is_ascii_digit() {
            i += 1;
        }
        if i == st {
            return None;
        }
    }
    let off = match b.get(i)? {
        b'Z' if i + 1 == b.len() => 0,
        c @ (b'+' | b'-') if i + 6 == b.len() && b[i + 3] == b':' => {
            let (oh, om) = (num(i + 1, 2)?, num(i + 4, 2)?);
            if oh > 23 || om > 59 {
                return None;
            }
            (oh * 3600 + om * 60) * if *c == b'+' { 1 } else { -1 }
        }
        _ => return None,
    };
    let yy = if mo <= 2 { y - 1 } else { y };
    let era = if yy >= 0 { yy } else { yy - 399 } / 400;
    let yoe = yy - era * 400;
    let doy = (153 * (if mo > 2 { mo - 3 } else { mo + 9 }) + 2) / 5 + d - 1;
    let doe = yoe * 365 + yoe / 4 - yoe / 100 + doy;
    let days = era * 146097 + doe - 719468;
    Some(days * 86400 + h * 3600 + mi * 60 + se - off)
}

fn gen_timestamp(u: &mut Choices) -> String {
    let y = *u.pick(&[2020i64, 1970, 1969, 2000, 1900, 2024, 2038, 2100, 1999, 1600]);
    let mo = u.range(1, 12) as i64;
    let leap = (y % 4 == 0 && y % 100 != 0) || y % 400 == 0;
    let dim = [31, if leap { 29 } else { 28 }, 31, 30, 31, 30, 31, 31, 30, 31, 30, 31][(mo - 1) as usize];
    let d = if u.chance(1, 3) { dim } else { u.range(1, dim as usize) as i64 };
    let (h, mi, se) = (u.below(24), u.below(60), u.below(60));
    let frac = *u.pick(&["", "", ".5", ".123456", ".999999999"]);
    let off = *u.pick(&["Z", "Z", "+00:00", "+02:00", "-08:00", "+05:30", "-00:00", "+14:00", "-12:45"]);
    format!("{:04}-{:02}-{:02}T{:02}:{:02}:{:02}{}{}", y, mo, d, h, mi, se, frac, off)
}

const STRS: [&str; 26] = [
    "abc", "AbC", "", "a b", "x1", "Hello World", "\u{e4}\u{df}", "42", "-7", "007", "1.5", "12x", "true", "FALSE", "True", "no", "a%20b", "%41%42", "%e4", "100%", "a+b", "%E2%82%AC", "0", "9999999999", "+5", " 5",
];

fn gen_members(u: &mut Choices, bias: &str) -> Vec<Option<V>> {
    let n = u.range(0, 5);
    let mut out = vec![];
    for _ in 0..n {
        let m = match u.weighted(&[8, 2, 2, 1, 1, 1, 2]) {
            0 => {
                let pool: Vec<&str> = match bias {
                    "int" => vec!["42", "-7", "007", "0", "9999999999", "12x", "1.5", "", "+5", " 5", "abc"],
                    "float" => vec!["1.5", "42", "-7", "0.25", "12x", "abc", "1e5", ".5", "5.", "inf", "nan", "NaN", "-inf", "Infinity"],
                    "bool" => vec!["true", "FALSE", "True", "no", "abc", "false", ""],
                    "char" => vec!["1", "a", "Z", "ab", "10", "x", " ", "-", "abc", "9"],
                    "epoch" => {
                        if u.chance(2, 3) {
                            out.push(Some(V::Str(gen_timestamp(u))));
                            continue;
                        }
                        vec!["2020-01-01", "2020-01-01T00:00:00", "2020-13-01T00:00:00Z", "2021-02-29T00:00:00Z", "2020-01-01T24:00:00Z", "abc", "", "1577836800", "2020-01-01T00:00:00+0200", "01/02/2020", "2020-01-01T00:00Z", "2020-01-32T00:00:00Z", "2020-01-01T00:60:00Z"]
                    }
                    "url" => vec!["a%20b", "%41%42", "%e4", "a+b", "%E2%82%AC", "abc", "", "100%"],
                    _ => STRS.to_vec(),
                };
                Some(V::Str(pool[u.below(pool.len())].to_string()))
            }
            // (ints that are a digit modulo 2^32 / 2^8 / 2^16, and the bounds)
            1 if bias == "char" => Some(V::Int(*u.pick(&[0i64, 1, 9, 5, 10, -1, 42, 7, 4294967296, 4294967301, -4294967291, 261, 65541, 48, 57, i64::MAX, i64::MIN, 18446744073709551i64]))),
            1 => Some(V::Int(*u.pick(&[0i64, 1, -3, 42, 7, 9007199254740993, -9007199254740995, i64::MAX, i64::MIN, 4611686018427387905]))),
            2 if bias == "int" => Some(V::Float(*u.pick(&[1.5f64, -4.7, 2.0, 1e21, -1e30, 9.3e18, 0.99]))),
            2 => Some(V::Float(*u.pick(&[1.5f64, 0.5, 2.0, 10.25, -4.0]))),
            3 => Some(V::Bool(u.chance(1, 2))),
            4 => Some(V::Null),
            5 => Some(V::List(vec![V::s("in-list")])),
            _ => None,
        };
        out.push(m);
    }
    out
}

fn doc_of(members: &[Option<V>]) -> V {
    V::Map(vec![(
        "items".into(),
        V::List(
            members
                .iter()
                .map(|m| match m {
                    Some(v) => V::Map(vec![("s".into(), v.clone())]),
                    None => V::Map(vec![("t".into(), V::Int(1))]),
                })
                .collect(),
        ),
    )])
}

struct Case {
    doc: String,
    rules: String,
    exp: Exp,
    what: String,
}

const DUMP: &str = "rule dump {\n  %r !exists\n}\n";

fn build(u: &mut Choices) -> Case {
    let fns = ["count", "to_upper", "to_lower", "url_decode", "substring", "join", "parse_int", "parse_float", "parse_string", "parse_boolean", "json_parse", "compose_int", "regex_replace", "parse_char", "compose_char", "parse_epoch", "char_to_int", "char_to_float"];
    let f = fns[u.below(fns.len())];
    let bias = match f {
        "parse_int" | "compose_int" => "int",
        "parse_float" => "float",
        "parse_boolean" => "bool",
        "url_decode" => "url",
        "parse_char" | "compose_char" | "char_to_int" | "char_to_float" => "char",
        "parse_epoch" => "epoch",
        _ => "",
    };
    let mut members = gen_members(u, bias);
    if members.is_empty() {
        // `items[*].s` over an empty list is one unresolved member, not an empty selection
        members.push(None);
    }
    let form = u.below(3); // 0 query argument, 1 variable argument, 2 literal argument (single)
    let mut arg = match form {
        0 => "items[*].s".to_string(),
        1 => "%q".to_string(),
        _ => {
            // a single literal member
            let lit = members.iter().flatten().find(|v| v.is_scalar() && v_expressible(v)).cloned().unwrap_or(V::s("abc"));
            members = vec![Some(lit.clone())];
            v_text(&lit)
        }
    };
    let mut lets = String::from("let q = items[*].s\n");
    let mut doc_offsets: Option<(V, V)> = None;
    let (call, exp): (String, Exp) = match f {
        "substring" => {
            let offs: Vec<V> = vec![V::Int(0), V::Int(1), V::Int(2), V::Int(3), V::Int(5), V::Int(-1), V::Int(65536), V::Int(65538), V::Int(65535), V::Int(i64::MAX), V::Float(1.0), V::Int(11)];
            let a = offs[u.below(offs.len())].clone();
            let b = offs[u.below(offs.len())].clone();
            if u.chance(1, 8) {
                // a long string so that offsets beyond 65535 are in range
                members = vec![Some(V::Str("xy".repeat(40000)))];
                arg = "items[*].s".into();
            }
            if u.chance(1, 3) {
                // offsets taken from the document (the only way to hand over a negative or a
                // fractional float: the grammar has no negative float literal)
                let offs: Vec<V> = vec![V::Int(0), V::Int(1), V::Int(2), V::Int(3), V::Int(-1), V::Int(-2), V::Float(0.0), V::Float(1.0), V::Float(2.0), V::Float(3.0), V::Float(-1.0), V::Float(-2.0), V::Float(-0.0), V::Int(i64::MIN), V::Float(-1e300), V::Float(1e300)];
                let a = offs[u.below(offs.len())].clone();
                let b = offs[u.below(offs.len())].clone();
                doc_offsets = Some((a.clone(), b.clone()));
                let e = match (&a, &b) {
                    // beyond the whole-float range that `expected` asserts: certainly out of range
                    (V::Float(x), _) | (_, V::Float(x)) if x.abs() >= 1e15 => match expected("substring", &members, Some(&V::Int(0)), Some(&V::Int(0))) {
                        Exp::Values(_) => Exp::Values(vec![]),
                        o => o,
                    },
                    _ => expected("substring", &members, Some(&a), Some(&b)),
                };
                (format!("substring({}, off.a, off.b)", arg), e)
            } else {
                let e = expected("substring", &members, Some(&a), Some(&b));
                (format!("substring({}, {}, {})", arg, v_text(&a), v_text(&b)), e)
            }
        }
        "join" => {
            let d = *u.pick(&[",", "", "-", ", "]);
            let e = expected("join", &members, Some(&V::s(d)), None);
            (format!("join({}, {})", arg, v_text(&V::s(d))), e)
        }
        "json_parse" => {
            // the JSON text of a generated document
            let sz = crate::gen::Size::quick();
            let d = crate::gen::gen_value(u, 1, &sz);
            members = vec![Some(V::Str(d.to_json()))];
            arg = "items[*].s".into();
            (format!("json_parse({})", arg), Exp::Values(vec![d]))
        }
        "compose_int" => {
            // parse_int(parse_string(n)) = n
            let n = *u.pick(&[0i64, 1, -3, 42, 123456789012]);
            members = vec![Some(V::Int(n))];
            arg = "items[*].s".into();
            lets.push_str(&format!("let s1 = parse_string({})\n", arg));
            ("parse_int(%s1)".to_string(), Exp::Values(vec![V::Int(n)]))
        }
        "compose_char" => {
            // parse_string(parse_char(x)) is the one-character string
            let e = expected("parse_char", &members, None, None);
            lets.push_str(&format!("let s1 = parse_char({})\n", arg));
            ("parse_string(%s1)".to_string(), e)
        }
        "char_to_int" | "char_to_float" => {
            // parse_int / parse_float of a char: the digit's value, an error for any other char
            let e = match expected("parse_char", &members, None, None) {
                Exp::Values(vs) => {
                    let mut out = vec![];
                    let mut bad = false;
                    for v in &vs {
                        match v {
                            V::Str(c) if c.len() == 1 && c.as_bytes()[0].is_ascii_digit() => {
                                let d = (c.as_bytes()[0] - b'0') as i64;
                                out.push(if f == "char_to_int" { V::Int(d) } else { V::Float(d as f64) });
                            }
                            _ => bad = true,
                        }
                    }
                    if bad {
                        Exp::Error
                    } else {
                        Exp::Values(out)
                    }
                }
                other => other,
            };
            lets.push_str(&format!("let s1 = parse_char({})\n", arg));
            (if f == "char_to_int" { "parse_int(%s1)".to_string() } else { "parse_float(%s1)".to_string() }, e)
        }
        "regex_replace" => {
            // anchored pattern that matches the whole string (the documentation's example shape)
            // one to three matching strings among unresolved and non-string members
            let pool = [("arn:aws:svc:region:123", "aws/123/region-svc"), ("arn:gov:s3:east:7", "gov/7/east-s3"), ("arn:cn:ec2:north:42", "cn/42/north-ec2")];
            let n = u.range(1, 3);
            members = vec![];
            let mut want = vec![];
            for k in 0..n {
                let (a, b) = pool[(k + u.below(3)) % 3];
                members.push(Some(V::s(a)));
                want.push(V::s(b));
                if u.chance(1, 3) {
                    members.push(if u.chance(1, 2) { None } else { Some(V::Int(3)) });
                }
            }
            arg = "items[*].s".into();
            (format!("regex_replace({}, '^arn:(\\w+):(\\w+):(\\w+):(\\d+)$', '${{1}}/${{4}}/${{3}}-${{2}}')", arg), Exp::Values(want))
        }
        "to_upper" if u.chance(1, 4) => {
            // nested call
            let e = expected("to_upper", &members, None, None);
            (format!("to_upper(to_lower({}))", arg), e)
        }
        name => {
            let e = expected(name, &members, None, None);
            (format!("{}({})", name, arg), e)
        }
    };
    let mut doc = doc_of(&members);
    if let (Some((a, b)), V::Map(m)) = (doc_offsets, &mut doc) {
        m.push(("off".into(), V::Map(vec![("a".into(), a), ("b".into(), b)])));
    }
    let mut rules = format!("{}let r = {}\n{}", lets, call, DUMP);
    // a result bound to a variable behaves like any other value in later clauses
    if let Exp::Values(vs) = &exp {
        // (a char result does not compare equal to a string literal: recorded finding F20)
        if vs.len() == 1 && vs[0].is_scalar() && v_expressible(&vs[0]) && !matches!(vs[0], V::Float(_)) && f != "parse_char" {
            let l = v_text(&vs[0]);
            rules.push_str(&format!("rule same {{\n  %r == {}\n}}\nrule differs {{\n  %r != {}\n}}\nrule member {{\n  %r in [{}, 'zzz-other']\n}}\n", l, l, l));
        }
        rules.push_str(&format!("rule counted {{\n  let c = count(%r)\n  %c == {}\n}}\n", vs.len()));
    }
    Case { doc: doc.to_json(), rules, exp, what: call }
}

fn observe(doc: &str, rules: &str) -> Result<(Option<Vec<V>>, J), String> {
    // Ok((Some(result set) | None = evaluation error, report))
    let r = validate_payload(&[rules.to_string()], &[doc.to_string()], &[], &VOpts::structured(Fmt::Json));
    if let Some(p) = &r.panic {
        return Err(format!("panic {}", p));
    }
    match &r.code {
        Ok(0) | Ok(19) => {}
        Ok(5) => return Err(format!("generator-invalid: {}", r.err)),
        _ => return Ok((None, J::Null)),
    }
    let j: J = serde_json::from_str(&r.out).map_err(|e| format!("report is not JSON: {}", e))?;
    let rep = j[0].clone();
    let mut vals = vec![];
    let mut found = false;
    for e in rep["not_compliant"].as_array().cloned().unwrap_or_default() {
        if e["Rule"]["name"].as_str().map_or(false, |n| n.ends_with("dump")) {
            found = true;
            for c in e["Rule"]["checks"].as_array().cloned().unwrap_or_default() {
                vals.push(V::from_json(&c["Clause"]["Unary"]["check"]["Resolved"]["value"]["value"]));
            }
        }
    }
    if !found {
        // SKIP: the result set is empty
        let na: Vec<String> = rep["not_applicable"].as_array().cloned().unwrap_or_default().iter().map(|n| n.as_str().unwrap_or("").to_string()).collect();
        if !na.iter().any(|n| n.ends_with("dump")) {
            return Err(format!("the dump rule is neither FAIL nor SKIP: {}", rep));
        }
    }
    Ok((Some(vals), rep))
}

fn status_of(rep: &J, name: &str) -> &'static str {
    let has = |k: &str| rep[k].as_array().map_or(false, |a| a.iter().any(|n| n.as_str().map_or(false, |s| s.ends_with(name))));
    if has("compliant") {
        "PASS"
    } else if has("not_applicable") {
        "SKIP"
    } else {
        "FAIL"
    }
}

fn check(doc: &str, rules: &str, exp: &Exp, what: &str) -> Result<bool, (String, String)> {
    let fname = what.split('(').next().unwrap_or("");
    let (got, rep) = observe(doc, rules).map_err(|e| {
        let sig = if e.starts_with("panic") { format!("panic:{}", e.split(' ').nth(1).unwrap_or("")) } else if e.starts_with("generator") { "c18:generator-invalid".into() } else { format!("c18:{}:observe", fname) };
        (format!("{}: {}", what, e), sig)
    })?;
    match (exp, &got) {
        (Exp::Unspecified, _) => Ok(false),
        (Exp::Error, None) => Ok(true),
        (Exp::Error, Some(v)) => Err((format!("{}: unparsable input must raise an error, but the result set is {:?}", what, v.iter().map(|x| x.to_json()).collect::<Vec<_>>()), format!("c18:{}:no-error", fname))),
        (Exp::Values(e), None) => Err((format!("{}: evaluation error, expected the result set {:?}", what, e.iter().map(|x| x.to_json()).collect::<Vec<_>>()), format!("c18:{}:unexpected-error", fname))),
        (Exp::Values(e), Some(g)) => {
            if e != g {
                return Err((
                    format!("{}: result set {:?}, documented result {:?}", what, g.iter().map(|x| x.to_json()).collect::<Vec<_>>(), e.iter().map(|x| x.to_json()).collect::<Vec<_>>()),
                    format!("c18:{}:wrong-result", fname),
                ));
            }
            // later use of the bound result
            if rules.contains("rule same") {
                for (r, want) in [("same", "PASS"), ("differs", "FAIL"), ("member", "PASS")] {
                    if status_of(&rep, r) != want {
                        return Err((format!("{}: result {:?} used in rule `{}` gives {}, expected {}", what, e[0].to_json(), r, status_of(&rep, r), want), format!("c18:{}:later-use", fname)));
                    }
                }
            }
            if rules.contains("rule counted") && status_of(&rep, "counted") != "PASS" {
                return Err((format!("{}: count(%r) is not {}", what, e.len()), format!("c18:{}:count-of-result", fname)));
            }
            Ok(true)
        }
    }
}

fn exp_json(e: &Exp) -> J {
    match e {
        Exp::Values(v) => json!({"values": v.iter().map(|x| x.to_serde()).collect::<Vec<_>>()}),
        Exp::Error => json!("error"),
        Exp::Unspecified => json!("unspecified"),
    }
}
fn exp_from(j: &J) -> Exp {
    match j {
        J::String(s) if s == "error" => Exp::Error,
        J::Object(o) => Exp::Values(o["values"].as_array().map(|a| a.iter().map(V::from_json).collect()).unwrap_or_default()),
        _ => Exp::Unspecified,
    }
}

pub fn replay(case: &J) -> CaseResult {
    if case["kind"] == "doc-example" {
        return match doc_example_check(case["name"].as_str().unwrap_or(""), case["rules"].as_str().unwrap_or("")) {
            Ok(()) => CaseResult::Pass(Info::default()),
            Err((msg, sig)) => CaseResult::Fail(Failure { msg, sig, case: case.clone() }),
        };
    }
    match check(case["doc"].as_str().unwrap_or(""), case["rules"].as_str().unwrap_or(""), &exp_from(&case["expected"]), case["what"].as_str().unwrap_or("")) {
        Ok(_) => CaseResult::Pass(Info::default()),
        Err((msg, sig)) => CaseResult::Fail(Failure { msg, sig, case: case.clone() }),
    }
}

fn random_case(u: &mut Choices) -> CaseResult {
    let c = build(u);
    match check(&c.doc, &c.rules, &c.exp, &c.what) {
        Ok(asserted) => {
            let fname = c.what.split('(').next().unwrap_or("").to_string();
            let kind = match &c.exp {
                Exp::Values(v) => format!("values:{}", v.len().min(3)),
                Exp::Error => "error".into(),
                Exp::Unspecified => "unspecified".into(),
            };
            CaseResult::Pass(Info {
                nontrivial: asserted,
                key: hash_case(&[&c.doc, &c.rules]),
                classes: vec![format!("fn:{}", fname), format!("expect:{}", kind), format!("fn:{}:{}", fname, kind)],
                evals: 1,
                sample: Some(json!({"doc": c.doc, "rules": c.rules, "expected": exp_json(&c.exp)})),
            })
        }
        Err((msg, sig)) => CaseResult::Fail(Failure { msg, sig, case: json!({"doc": c.doc, "rules": c.rules, "expected": exp_json(&c.exp), "what": c.what}) }),
    }
}

// ------------------------------------------------------------------------------------------------
// the documentation's own examples (docs/FUNCTIONS.md), on its own template

const DOC_TEMPLATE: &str = r#"Resources:
  newServer:
    Type: AWS::New::Service
    Properties:
      Arn: arn:aws:newservice:us-west-2:123456789012:Table/extracted
      Encoded: This%20string%20will%20be%20URL%20encoded
    Collection:
      - a
      - b
      - c
  SecurityGroup:
    Type: AWS::EC2::SecurityGroup
    Properties:
      SecurityGroupIngress:
        String: "true"
        Char: "1"
        Int: 1
        Float: 1.5
      Char: "1"
"#;

const DOC_EXAMPLES: [(&str, &str); 7] = [
    ("to_upper", "let type = Resources.newServer.Type\nrule check when %type !empty {\n  let upper = to_upper(%type)\n  %upper == \"AWS::NEW::SERVICE\"\n}\n"),
    ("to_lower", "let type = Resources.newServer.Type\nrule check when %type !empty {\n  let lower = to_lower(%type)\n  %lower == /aws::new::service/\n}\n"),
    ("substring", "let template = Resources.*[ Type == 'AWS::New::Service']\nrule check when %template !empty {\n  let arn = %template.Properties.Arn\n  let res = substring(%arn, 0, 3)\n  %res == \"arn\"\n}\n"),
    ("url_decode", "let template = Resources.*[ Type == 'AWS::New::Service']\nrule check when %template !empty {\n  let encoded = %template.Properties.Encoded\n  let res = url_decode(%encoded)\n  %res == \"This string will be URL encoded\"\n}\n"),
    ("join", "let template = Resources.*[ Type == 'AWS::New::Service']\nrule check when %template !empty {\n  let collection = %template.Collection.*\n  let res = join(%collection, \",\")\n  %res == \"a,b,c\"\n}\n"),
    ("regex_replace", "let template = Resources.*[ Type == 'AWS::New::Service']\nrule check when %template !empty {\n  let arn = %template.Properties.Arn\n  let arn_partition_regex = \"^arn:(\\w+):(\\w+):([\\w0-9-]+):(\\d+):(.+)$\"\n  let capture_group_reordering = \"${1}/${4}/${3}/${2}-${5}\"\n  let res = regex_replace(%arn, %arn_partition_regex, %capture_group_reordering)\n  %res == \"aws/123456789012/us-west-2/newservice-Table/extracted\"\n}\n"),
    ("parse_char", "let security_group = Resources.*[ Type == \"AWS::EC2::SecurityGroup\" ]\nrule check when %security_group !EMPTY {\n  let converted = parse_char(%security_group.Properties.Char)\n  %converted == '1'\n}\n"),
];

fn doc_example_check(name: &str, rules: &str) -> Result<(), (String, String)> {
    let r = validate_payload(&[rules.to_string()], &[DOC_TEMPLATE.to_string()], &[], &VOpts::structured(Fmt::Json));
    if let Some(p) = &r.panic {
        return Err((format!("panic {}", p), format!("panic:{}", p.split(' ').next().unwrap_or(""))));
    }
    let ok = r.code == Ok(0) && serde_json::from_str::<J>(&r.out).map_or(false, |j| j[0]["compliant"].as_array().map_or(false, |a| a.len() == 1));
    if ok {
        Ok(())
    } else {
        Err((format!("FUNCTIONS.md example for {} does not PASS on the documentation's template: {}", name, r.brief()), format!("c18:doc-example:{}", name)))
    }
}

fn doc_example_case(i: usize) -> CaseResult {
    let (name, rules) = DOC_EXAMPLES[i];
    match doc_example_check(name, rules) {
        Ok(()) => CaseResult::Pass(Info { nontrivial: true, key: hash_case(&[name]), classes: vec![format!("doc-example:{}", name)], evals: 1, sample: Some(json!({"example": name, "rules": rules})) }),
        Err((msg, sig)) => CaseResult::Fail(Failure { msg, sig, case: json!({"kind": "doc-example", "name": name, "rules": rules}) }),
    }
}

pub fn run(tier: Tier, seed: u64) -> i32 {
    let spec = EvidenceSpec {
        rule: "Random calls of count, to_upper, to_lower, url_decode, substring, join, parse_int, parse_float, parse_string, parse_boolean, json_parse, regex_replace (anchored matching pattern), parse_char (ints 0-9 / one-character strings; longer strings and other ints must be errors), parse_epoch (strict RFC 3339 timestamps incl. fractions, offsets, month ends, leap days, pre-1970 against a days-from-civil implementation; malformed timestamps must be errors) and the composites parse_int(parse_string(n)), parse_string(parse_char(c)), parse_int / parse_float of a parse_char result (digit value, or an error for any other character) on argument lists of 0-5 members drawn from unicode / numeric / padded / signed / percent-encoded strings, ints, floats, bools, null, lists and unresolved members; argument forms query, variable, literal and nested call; substring offsets from {-1,0..5,11,65535,65536,65538,i64::MAX,1.0} incl. an 80 000-character string. The result set is read from the structured report of `%r !exists` (one failing check per member, in order; SKIP = empty) and compared with an independent implementation in the harness; unparsable converter input must be an evaluation error; a single scalar result is then used in `%r == lit`, `%r != lit`, `%r in [..]` and count(%r). Outcomes the documentation does not determine (malformed percent escapes, non-ASCII substring, exotic float notations, join over unresolved members) are generated but not asserted. Non-trivial: an asserted case; distinct by hash of the texts.".into(),
        assumptions: vec!["Rust's to_uppercase/to_lowercase, str::parse and string slicing are part of the trusted base of the reference implementation".into()],
    };
    execute("C18", tier, seed, spec, &replay, &|run: &Session| {
        run.run_enum("doc-examples", DOC_EXAMPLES.len(), doc_example_case);
        run.run_random("functions", tier.pick(40_000, 800_000), 200, random_case);
    })
}
