//! C08 — no input crashes the tool; bad input is reported as an error.
use crate::ast::*;
use crate::choices::Choices;
use crate::docw::{write_doc, Style};
use crate::drive::*;
use crate::engine::*;
use crate::gen::*;
use crate::val::V;
use serde_json::{json, Value as J};

const DICT: [&str; 38] = [
    "{", "}", "[", "]", "(", ")", "<<", ">>", "%", "|", " or ", " when ", "rule ", "let ", " some ", "not ", "!", "==", "!=", " in ", "r[", "/", "'", "\"", "*", ".", ",", ":", "#", "\n", " ", "\u{e9}", "\u{1F600}", "@@", "1e+999", "-9223372036854775809", "99999999999999999999", "0.0e-999",
];

/// token / byte level mutations (DESIGN 3.4)
pub fn mutate(u: &mut Choices, text: &str, other: &str) -> String {
    let chars: Vec<char> = text.chars().collect();
    let n = chars.len();
    if n == 0 {
        return DICT[u.below(DICT.len())].to_string();
    }
    let pos = |u: &mut Choices| u.below(n + 1);
    let s = |cs: &[char]| cs.iter().collect::<String>();
    match u.below(9) {
        0 => s(&chars[..pos(u)]), // truncate
        1 => {
            // delete a span
            let a = pos(u);
            let b = (a + u.range(1, 12)).min(n);
            format!("{}{}", s(&chars[..a]), s(&chars[b..]))
        }
        2 => {
            // duplicate a span
            let a = pos(u);
            let b = (a + u.range(1, 20)).min(n);
            format!("{}{}{}", s(&chars[..b]), s(&chars[a..b]), s(&chars[b..]))
        }
        3 => {
            // swap two tokens (whitespace separated)
            let mut toks: Vec<&str> = text.split(' ').collect();
            if toks.len() >= 2 {
                let i = u.below(toks.len());
                let j = u.below(toks.len());
                toks.swap(i, j);
            }
            toks.join(" ")
        }
        4 => {
            // splice with another program
            let o: Vec<char> = other.chars().collect();
            let a = pos(u);
            let b = if o.is_empty() { 0 } else { u.below(o.len()) };
            format!("{}{}", s(&chars[..a]), s(&o[b..]))
        }
        5 | 6 => {
            // insert from the dictionary
            let a = pos(u);
            format!("{}{}{}", s(&chars[..a]), DICT[u.below(DICT.len())], s(&chars[a..]))
        }
        7 => {
            // flip quote kinds / brackets
            let a = u.below(n);
            let mut c2 = chars.clone();
            c2[a] = match c2[a] {
                '\'' => '"',
                '"' => '\'',
                '{' => '[',
                '}' => ']',
                '[' => '{',
                ']' => '}',
                _ => *u.pick(&['{', '}', '"', '\'', '<', '%', '\u{0}', '\u{e4}']),
            };
            s(&c2)
        }
        _ => {
            // deepen nesting (bounded)
            let a = pos(u);
            let d = u.range(1, 48);
            let (o, c) = *u.pick(&[("[", "]"), ("{", "}"), ("(", ")"), ("a[ ", " ]")]);
            format!("{}{}{}{}", s(&chars[..a]), o.repeat(d), c.repeat(d), s(&chars[a..]))
        }
    }
}

fn site(p: &str) -> String {
    format!("panic:{}", p.split(' ').next().unwrap_or(""))
}

struct Input {
    rules: String,
    data: String,
}

/// Every entry point must end in a normal result. Returns the number of executions.
fn exercise(inp: &Input, with_files: bool) -> Result<(u64, bool), (String, String)> {
    let mut n = 0u64;
    let chk = |what: &str, r: &Run| -> Result<(), (String, String)> {
        if let Some(p) = &r.panic {
            return Err((format!("{}: panic {}", what, p), site(p)));
        }
        Ok(())
    };
    // library
    for verbose in [false, true] {
        n += 1;
        if let Lib::Panic(p) = run_checks(&inp.data, &inp.rules, verbose) {
            return Err((format!("run_checks(verbose={}): panic {}", verbose, p), site(&p)));
        }
    }
    // parse-tree
    n += 1;
    let pt = parse_tree(&inp.rules, true);
    chk("parse-tree", &pt)?;
    let accepted = pt.code == Ok(0);
    n += 1;
    chk("parse-tree -y", &parse_tree(&inp.rules, false))?;
    // validate, payload
    n += 1;
    let plain = validate_payload(&[inp.rules.clone()], &[inp.data.clone()], &[], &VOpts::plain(Fmt::Single, vec![Show::All]));
    chk("validate --payload", &plain)?;
    for (what, o) in [
        ("validate --payload --structured -o json", VOpts::structured(Fmt::Json)),
        ("validate --payload --structured -o sarif", VOpts::structured(Fmt::Sarif)),
        ("validate --payload --structured -o junit", VOpts::structured(Fmt::Junit)),
        ("validate --payload -o yaml", VOpts::plain(Fmt::Yaml, vec![Show::Fail])),
        ("validate --payload -v -p", {
            let mut o = VOpts::plain(Fmt::Single, vec![Show::All]);
            o.verbose = true;
            o.print_json = true;
            o
        }),
    ] {
        n += 1;
        chk(what, &validate_payload(&[inp.rules.clone()], &[inp.data.clone()], &[], &o))?;
    }
    // grammar: a rules file that does not conform is rejected as a whole, with line and column,
    // and none of its rules is evaluated (judged where the data is loadable: otherwise the data
    // error comes first)
    // (parse-tree can also fail after parsing: a float literal that overflows to infinity cannot be
    // written as JSON / YAML - that is not a rejection by the grammar)
    let pt_msg = format!("{} {}", pt.err, pt.code.as_ref().err().cloned().unwrap_or_default());
    let rejected = !accepted && (pt_msg.contains("Parser Error") || pt_msg.contains("Parsing Error"));
    if rejected && !inp.rules.trim().is_empty() {
        let data_ok = serde_yaml::from_str::<serde_yaml::Value>(&inp.data).is_ok() && !inp.data.trim().is_empty();
        if data_ok && plain.code.is_ok() {
            if plain.code != Ok(5) {
                return Err((format!("rules rejected by parse-tree but validate exits {:?}: {}", plain.code, plain.brief()), "c08:rejected-rules-exit-code".into()));
            }
            let e = &plain.err;
            let has_pos = e.contains(" at line ") && e.contains(" at column ");
            if !has_pos {
                return Err((format!("parse error without line and column: {}", e.chars().take(300).collect::<String>()), "c08:parse-error-without-position".into()));
            }
            if plain.out.contains(" Status = ") {
                return Err((format!("rules of a rejected file were evaluated: {}", plain.out.chars().take(300).collect::<String>()), "c08:rejected-rules-evaluated".into()));
            }
        }
    }
    if with_files {
        let dir = fresh_dir("c08");
        let rp = dir.join("r.guard");
        let dp = dir.join("d.yaml");
        let tp = dir.join("r_tests.yaml");
        let ip = dir.join("params.yaml");
        write_file(&rp, &inp.rules);
        write_file(&dp, &inp.data);
        // the data text doubles as a test spec and as an input-parameter file
        write_file(&tp, &inp.data);
        write_file(&ip, &inp.data);
        let (rps, dps, ips) = (vec![rp.to_string_lossy().to_string()], vec![dp.to_string_lossy().to_string()], vec![ip.to_string_lossy().to_string()]);
        n += 1;
        chk("validate -r -d", &validate_files(&rps, &dps, &[], &VOpts::plain(Fmt::Single, vec![Show::All]), ""))?;
        n += 1;
        chk("validate -r (stdin data)", &validate_files(&rps, &[], &[], &VOpts::structured(Fmt::Json), &inp.data))?;
        n += 1;
        chk("validate -i", &validate_files(&rps, &dps, &ips, &VOpts::structured(Fmt::Yaml), ""))?;
        for fmt in [Fmt::Single, Fmt::Json, Fmt::Junit] {
            n += 1;
            chk("test", &test_files(&rps[0], &tp.to_string_lossy(), &TOpts { fmt, verbose: fmt == Fmt::Single, alphabetical: false, last_modified: false }))?;
        }
    }
    Ok((n, accepted))
}

fn input_json(kind: &str, i: &Input, with_files: bool) -> J {
    json!({"kind": kind, "rules": i.rules, "data": i.data, "with_files": with_files})
}

// ------------------------------------------------------------------------------------------------
// stage: mutants

fn mutant_case(u: &mut Choices, sz: Size) -> CaseResult {
    let doc = gen_cfn_doc(u, &sz);
    let msgs = u.chance(1, 3);
    let file = gen_wide_file(u, &doc, sz, msgs);
    let doc2 = gen_doc(u, &sz);
    let other = print_file(&gen_core_file(u, &doc2, sz, true, true));
    let mut rules = print_file(&file);
    let style = *u.pick(&[Style::JsonCompact, Style::YamlBlock, Style::YamlFlow, Style::JsonPretty]);
    let mut data = write_doc(&doc, style, u, true).text;
    let nm = u.range(1, 3);
    let mut edits = 0;
    for _ in 0..nm {
        if u.chance(2, 3) {
            rules = mutate(u, &rules, &other);
        } else {
            let d2 = data.clone();
            data = mutate(u, &data, &d2);
        }
        edits += 1;
    }
    let with_files = u.chance(1, 4);
    let inp = Input { rules, data };
    match exercise(&inp, with_files) {
        Ok((n, accepted)) => CaseResult::Pass(Info {
            nontrivial: accepted || edits <= 3,
            key: hash_case(&[&inp.rules, &inp.data]),
            classes: vec![format!("mutant-rules-accepted:{}", accepted), format!("entry:{}", if with_files { "files+payload" } else { "payload" })],
            evals: n,
            sample: Some(input_json("mutant", &inp, with_files)),
        }),
        Err((msg, sig)) => CaseResult::Fail(Failure { msg, sig, case: input_json("mutant", &inp, with_files) }),
    }
}

// ------------------------------------------------------------------------------------------------
// stage: parser-accepted but ill-typed programs x awkward documents

const ILL_TYPED: [&str; 65] = [
    "rule r { this[ a == 1 ] exists }",
    "rule r { a[0][ k == 1 ] exists }",
    "rule r { a.*[ k == 1 ][ k == 1 ] !empty }",
    "rule r { a[ k == 1 ][ j exists ].k == 1 }",
    "rule r { this[*][ k == 1 ] empty }",
    "rule r { a[ keys == 'k' ] exists }",
    "rule r { a[ keys in ['k', 'j'] ] !empty }",
    "rule r { a[ keys == /k/ ].j == 1 }",
    "rule r { a[ keys == b ] exists }",
    "rule r { this[ keys == 'a' ] exists }",
    "let x = 5\nrule r { %x is_string }",
    "let x = 5\nrule r { %x empty }",
    "let x = [1, 2]\nrule r { %x[0] == 1\n %x.k exists }",
    "let x = 'abc'\nrule r { %x[ k == 1 ] exists }",
    "let e = a[ zz == 1 ]\nrule r { let j = join(a, %e)\n %j == 'x' }",
    "let e = a[ zz == 1 ]\nrule r { let s = substring('abcdef', %e, 1)\n %s exists }",
    "let e = a[ zz == 1 ]\nrule r { let s = regex_replace('abc', %e, '')\n %s exists }",
    "rule r { let s = substring(a, 'x', 'y')\n %s exists }",
    "rule r { let s = substring('a\u{e9}b', 0, 2)\n %s exists }",
    "rule r { let s = join(a, 5)\n %s exists }",
    "rule r { let c = count(nosuch)\n %c == 0 }",
    "rule r { let p = parse_int(a)\n %p == 1 }",
    "rule r { let p = parse_char(a)\n %p == '1' }",
    "rule r { let p = parse_epoch(a)\n %p > 0 }",
    "rule r { let p = json_parse(a)\n %p exists }",
    "rule r { let p = json_parse('{\"a\": [1, 2')\n %p exists }",
    "rule r { let p = regex_replace(a, '(', 'x')\n %p exists }",
    "rule r { let p = url_decode('%ff%fe')\n %p exists }",
    "rule r { a == /(a)\\1{20}(?=b)/ }",
    "rule r { a == /^(a+)+$/ }",
    "rule r { a == /^(a+)+\\1$/\n b == /^(a+)+\\1$/ }",
    "rule r { a == /(?<!x)a(?!y)/ }",
    "rule r { a[99999999] exists\n a[-1] exists\n a.-5 exists }",
    "rule r { a.%nosuchvar exists }",
    "let k = a\nrule r { b.%k exists }",
    "let k = [1, 2]\nrule r { a.%k exists }",
    "let k = items[*]\nrule r { c.%k[0] exists\n c.%k[1] exists\n c.%k[2] exists\n c.%k[3] exists\n c.%k[-2] exists }",
    "let k = items[*]\nrule r { c.%k[*] exists\n c.%k.a exists\n some c.%k.* == 1 }",
    "rule f(p) { %p == 1 }\nrule r { f(a, b) }",
    "rule f(p, q) { %p == %q }\nrule r { f(a) }",
    "rule r { nosuchrule }",
    "rule r { nosuchfn(a) }",
    "rule r { a in r[5, 1]\n a in r(1.5, 0.5) }",
    "rule r { Resources.*[ Type == 'AWS::S3::Bucket' ] { Properties.a == 1 } }\nAWS::S3::Bucket { Properties exists }",
    "rule r { AWS::S3::Bucket when Properties exists { Properties.a.b.c == 1 <<msg>> } }",
    "rule r { some a[*].k IN [1, /x/, r[1,2]] or\n a !empty <<\nmulti\nline\n>> }",
    "rule r when a exists { a { this == this } }",
    "rule r { a[2147483648] exists\n a[4294967297] exists\n a[-2147483648] exists\n a[-2147483649] exists\n a[9223372036854775807] exists\n b.2147483648 exists }",
    "rule r { Resources.*.Properties.*.a == 12345\n Resources.*.*.a == 12345\n Resources.*.Properties.* == 12345 }\nAWS::S3::Bucket { this.*.a == 12345 }",
    "rule r { a in [/^(a+)+\\1$/, \"z\"]\n b in [/^(a+)+\\1$/]\n a not in [/^(a+)+\\1$/, /x/] }",
    "rule r { b == [/^(a+)+\\1$/]\n some b[*] in [/^(a+)+\\1$/, 1] }",
    "rule r { Resources.*.Properties.a == 12345 << >>\n a == 12345 << >> }",
    "rule r { Resources.*.Properties.a == 12345 << ; >>\n a == 12345 <<;>> }",
    "rule r { Resources.*.Properties.a == 12345 <<\n\n>>\n a == 12345 <<\n;\n;\n>> }",
    "let e = a[ zz == 1 ]\nrule r { c[ keys in %e ] exists\n c[ keys == %e ] empty\n c[ keys not in %e ] exists }",
    "let e = Resources.*[ Type == 'AWS::No::Such' ].Properties.a\nrule r { Resources[ keys in %e ] empty\n Resources[ keys != %e ] exists\n Resources.*[ keys == %e ] empty }",
    "let e = items[*]\nlet u = nosuch.x\nrule r { c[ keys in %e ] exists\n c[ keys == %e ] exists\n c[ keys not in %e ] exists\n c[ keys == %u ] exists }",
    "rule r { c[ keys in items ] exists\n c[ keys == nosuch ] exists\n c[ keys in a[ zz == 1 ] ] exists\n a[*][ keys == b ] exists }",
    "rule r { resource_changes[*].change.after.a == 12345\n resource_changes[*].change.after.a in [12345, 7]\n resource_changes[*].change.after.a !exists }",
    "rule r { resource_changes[*].change.before.a == 12345\n resource_changes[*].change.before.a in [1]\n resource_changes[*].change.before !exists\n resource_changes[*].address in ['x']\n resource_changes[*].type == a }",
    "rule r { some resource_changes[*].change.after.* in ['x']\n resource_changes[*].change.after.a in a\n resource_changes[*].change.after in [{a: 1}]\n resource_changes[*] { change.after.a not in [2]\n change.after.a in r(5, 9) } }",
    "rule r { a == 1e+999\n a in [2.0e+400, 1]\n a < 1.0e+310\n a in r(0.5, 1e+999)\n a == {k: 1e+999} }",
    "let big = 1e+999\nlet l = [1, 1e+999]\nrule r { a == %big\n a in %l\n a[ keys == 1e+999 ] exists }",
    "rule r { let s = substring('abc', 1e+999, 2.0e+400)\n %s exists\n let p = parse_int(1e+999)\n %p exists\n let q = parse_string(1.0e+310)\n %q exists }",
    "rule r { Resources.*.Properties { a == 12345 <<\t>> } }\nAWS::S3::Bucket { Properties.a == 12345 << >> }",
];

fn awkward_docs() -> Vec<String> {
    let pad = "x".repeat(96);
    vec![
        "{\"a\": [{\"k\": 1}, {\"j\": 2}], \"b\": \"k\"}".into(),
        "{\"a\": \"1\", \"b\": [1, 2]}".into(),
        "{\"a\": {\"k\": {\"k\": 1}}, \"b\": null}".into(),
        "{\"a\": 1}".into(),
        "{\"c\": {\"a\": 1, \"k\": {\"a\": 2}}, \"items\": [\"a\", \"k\"], \"a\": \"x\"}".into(),
        "{\"c\": {\"a\": 1}, \"items\": [\"a\", \"k\", \"zz\"]}".into(),
        "{\"a\": \"aaaaaaaaaaaaaaaaaaaaaaaaaaaa!\", \"b\": [\"aaaaaaaaaaaaaaaaaaaaaaaaaaaa!\"]}".into(),
        "{}".into(),
        "[]".into(),
        "null".into(),
        "\"just a string\"".into(),
        "{\"Resources\": {\"r1\": {\"Properties\": {\"a\": 1}}}}".into(),
        "{\"Resources\": {\"r1\": {\"Type\": 5, \"Properties\": {\"a\": 2}}}}".into(),
        "{\"Resources\": {\"r1\": {\"Type\": \"AWS::S3::Bucket\", \"Properties\": {\"a\": 2}}, \"r2\": {\"Type\": \"AWS::S3::Bucket\"}}, \"a\": [[1, 2], 3]}".into(),
        "{\"Resources\": [1, 2], \"a\": 1}".into(),
        "{\"Resources\": \"none\", \"a\": 1}".into(),
        "{\"Resources\": {\"r/1\": {\"Type\": \"AWS::S3::Bucket\", \"Properties\": {\"a\": {\"b\": 1}}}}}".into(),
        "{\"Resources\": {\"r1\": {\"Type\": \"AWS::S3::Bucket\", \"/Resources/x\": {\"a\": 2}, \"Properties\": {\"/p/q\": {\"a\": 2}, \"a\": 2, \"\": 3}}}, \"/\": {\"a\": 1}}".into(),
        "{\"Resources\": {\"/x/y\": {\"Other\": {\"b\": {\"c\": 1}}}, \"r1\": {\"Type\": \"AWS::S3::Bucket\", \"Properties\": {\"a\": 2}}}}".into(),
        "{\"Resources\": {\"\": {\"Type\": \"AWS::S3::Bucket\", \"Properties\": {\"a\": 2}}, \"r2\": {\"\": 1}}}".into(),
        "{\"resource_changes\": [{\"address\": \"nodot\", \"type\": \"t\", \"change\": {\"after\": {\"a\": 2}}}], \"a\": 2}".into(),
        "{\"resource_changes\": [{\"address\": \"a.b\", \"type\": \"t\", \"change\": {\"before\": {\"a\": 2}}}], \"a\": {\"k\": 2}}".into(),
        "{\"resource_changes\": \"x\", \"a\": 2}".into(),
        "{\"resource_changes\": [{\"address\": \"aws_s3_bucket.b\", \"type\": \"aws_s3_bucket\", \"change\": {\"after\": {\"a\": 2, \"tags\": {\"k\": \"v\"}}, \"before\": {\"a\": 3}}}, {\"address\": \"module.m.aws_s3_bucket.c\", \"type\": \"aws_s3_bucket\", \"change\": {\"after\": {\"a\": 12345}, \"before\": {\"a\": 3}}}], \"a\": [7]}".into(),
        format!("{{\"a\": \"{}\u{e9}\u{e9}\u{e9}\", \"b\": [1,", pad),
        format!("# {}\u{e9}\u{4e2d}\u{1F600}\na: [1, 2\n", pad),
        // a value longer than the 16 KiB chunks in which the YAML emitter hands its output on
        format!("{{\"a\": \"xy{}\", \"b\": [1]}}", "\u{e9}".repeat(9000)),
        format!("{{\"a\": \"{}z\", \"b\": \"k\"}}", "\u{65e5}\u{672c}".repeat(6000)),
        "# only a comment\n".into(),
        "---\na: 1\n---\nb: 2\n".into(),
        "a: !Ref x\nb: !Join [',', [1, !GetAtt a.b]]\nc: !Unknown y\n".into(),
        // every short-form tag on the kind of node it is not meant for
        "a: !Base64\n  - x\n  - y\nb:\n  - !Ref [SgA, SgB]\n  - !GetAZs [r]\nc: !ImportValue [v]\nd: !Condition\n  - c\ne: !Join plain\nf: !Sub\n  k: v\ng: !Ref {k: v}\nh: !GetAtt\n  k: v\n".into(),
        "!Ref [a, b]\n".into(),
        "!Base64\n- a\n- b\n".into(),
        "!Join scalar\n".into(),
        "a: !Select\nb: !Ref\nc: !Split []\nd: !If {}\ne: !FindInMap x\nf: !Equals {a: [!Ref [x]]}\n".into(),
        "a: &anchor 1\nb: *anchor\n".into(),
        "? [complex, key]\n: 1\n".into(),
        "a: 1e999\nb: -1e999\nc: .nan\nd: 0x1F\ne: 0o17\nf: 1_000\n".into(),
        "a: 99999999999999999999\nb: -99999999999999999999\n".into(),
        "\u{feff}a: 1\n".into(),
        "a:\t1\n".into(),
    ]
}

fn ill_typed_case(i: usize) -> CaseResult {
    let docs = awkward_docs();
    // the templates are written on one line; give every `{` / `}` its own line break so that rule
    // references are followed by a newline as the grammar wants
    let rules = format!("{}\n", ILL_TYPED[i % ILL_TYPED.len()].replace("{ ", "{\n  ").replace(" }", "\n}"));
    let data = docs[(i / ILL_TYPED.len()) % docs.len()].clone();
    let inp = Input { rules, data };
    match exercise(&inp, true) {
        Ok((n, accepted)) => CaseResult::Pass(Info {
            nontrivial: true,
            key: hash_case(&[&inp.rules, &inp.data]),
            classes: vec![format!("ill-typed-rules-accepted:{}", accepted)],
            evals: n,
            sample: if i % 97 == 0 { Some(input_json("ill-typed", &inp, true)) } else { None },
        }),
        Err((msg, sig)) => CaseResult::Fail(Failure { msg, sig, case: input_json("ill-typed", &inp, true) }),
    }
}

// ------------------------------------------------------------------------------------------------
// stage: comments and blank lines around a rules text do not decide whether it conforms to the
// grammar (a malformed file is rejected "as a whole", however long its comment header is)

fn framing_case(u: &mut Choices, sz: Size) -> CaseResult {
    let doc = gen_doc(u, &sz);
    let mut rules = print_file(&gen_core_file(u, &doc, sz, true, true));
    // half of the texts get a malformed tail or a mutation
    let kind = u.below(4);
    match kind {
        0 => {}
        1 => rules.push_str(*u.pick(&["}\n", "}", ")\n", "]\n", "==\n", "<<\n", "rule\n", "let x\n", "rule r {\n", "%\n", "or\n", "when\n"])),
        2 => {
            let other = rules.clone();
            rules = mutate(u, &rules, &other);
        }
        _ => {
            // a stray token in front
            rules = format!("{}{}", *u.pick(&["}\n", "]\n", "== 1\n", "or\n"]), rules);
        }
    }
    let n = *u.pick(&[1usize, 2, 5, 20, 60]);
    let header: String = (0..n).map(|i| if i % 3 == 2 { "\n".to_string() } else { format!("# header line {} of a licence text: rule r {{ }}\n", i) }).collect();
    let trailer = *u.pick(&["\n# trailing comment\n", "\n\n\n", "\n  # end", "\n# }\n"]);
    let base = parses(&rules);
    let mut evals = 1;
    for (what, text) in [("a comment header", format!("{}{}", header, rules)), ("a trailing comment", format!("{}{}", rules, trailer)), ("both", format!("{}{}{}", header, rules, trailer))] {
        evals += 1;
        let p = parses(&text);
        if p != base {
            // a text whose last token is a keyword that is also a legal name (`let v = some`): the
            // parser reads it as a name at the very end of the input and as the keyword when
            // anything follows (recorded finding F56); every other case keeps the plain signature
            let last = rules.trim_end().rsplit(|c: char| c.is_whitespace() || c == '.' || c == '[').next().unwrap_or("").to_lowercase();
            let kw = ["some", "this", "keys", "not", "when", "or", "in", "exists", "empty", "let", "rule"].contains(&last.as_str());
            return CaseResult::Fail(Failure {
                msg: format!("the rules text is {} by the parser, but with {} ({} lines) it is {}", if base { "accepted" } else { "rejected" }, what, n, if p { "accepted" } else { "rejected" }),
                sig: if kw { "c08:comment-framing-changes-acceptance:text-ends-in-keyword".into() } else { "c08:comment-framing-changes-acceptance".into() },
                case: json!({"kind": "framing", "rules": rules, "framed": text}),
            });
        }
    }
    CaseResult::Pass(Info { nontrivial: !base, key: hash_case(&[&rules]), classes: vec![format!("framing:accepted:{}", base), format!("framing:kind:{}", kind)], evals, sample: None })
}

// ------------------------------------------------------------------------------------------------
// stage: several test files for one rules file, good and bad ones in every order

const SPEC_KINDS: [(&str, &str); 7] = [
    ("good", "- name: g\n  input: {a: 1}\n  expectations:\n    rules:\n      r: PASS\n"),
    ("mismatch", "- name: m\n  input: {a: 2}\n  expectations:\n    rules:\n      r: PASS\n"),
    ("truncated", "- name: t\n  input: {a: 1\n  expectations: [\n"),
    ("not-a-list", "name: x\ninput: {a: 1}\n"),
    ("empty", ""),
    ("unknown-status", "- name: u\n  input: {a: 1}\n  expectations:\n    rules:\n      r: MAYBE\n"),
    ("no-input", "- name: n\n  expectations:\n    rules:\n      r: PASS\n"),
];

fn specs_case(i: usize) -> CaseResult {
    // i -> (kind of file a, kind of file b, kind of file c or none, format)
    let k = SPEC_KINDS.len();
    let fmts = [Fmt::Single, Fmt::Json, Fmt::Yaml, Fmt::Junit];
    let fmt = fmts[i % 4];
    let mut j = i / 4;
    let a = j % k;
    j /= k;
    let b = j % k;
    j /= k;
    let c = j % (k + 1);
    let dir = fresh_dir("c08t");
    let rp = dir.join("r.guard");
    write_file(&rp, "rule r {\n  a == 1\n}\n");
    let mut kinds = vec![SPEC_KINDS[a].0, SPEC_KINDS[b].0];
    write_file(&dir.join("tests/r_a_tests.yaml"), SPEC_KINDS[a].1);
    write_file(&dir.join("tests/r_b_tests.yaml"), SPEC_KINDS[b].1);
    if c < k {
        write_file(&dir.join("tests/r_c_tests.yaml"), SPEC_KINDS[c].1);
        kinds.push(SPEC_KINDS[c].0);
    }
    let case = json!({"kind": "specs", "index": i, "files": kinds, "format": fmt.flag()});
    let o = TOpts { fmt, verbose: false, alphabetical: i % 2 == 0, last_modified: false };
    let mut n = 0;
    for (what, r) in [("test -r -t <directory>", test_files(&rp.to_string_lossy(), &dir.join("tests").to_string_lossy(), &o)), ("test --dir", test_dir(&dir.to_string_lossy(), &TOpts { alphabetical: false, ..o.clone() }))] {
        n += 1;
        if let Some(p) = &r.panic {
            return CaseResult::Fail(Failure { msg: format!("{} -o {} with test files {:?}: panic {}", what, fmt.flag(), kinds, p), sig: site(p), case });
        }
    }
    CaseResult::Pass(Info { nontrivial: kinds.iter().any(|x| *x != "good"), key: hash_case(&[&format!("{:?}{}", kinds, fmt.flag())]), classes: vec![format!("specs:{}", fmt.flag())], evals: n, sample: if i % 211 == 0 { Some(case) } else { None } })
}

// ------------------------------------------------------------------------------------------------
// stage: raw text (every file role gets arbitrary text)

fn raw_case(u: &mut Choices) -> CaseResult {
    let gen = |u: &mut Choices| -> String {
        let n = u.range(0, 60);
        let mut s = String::new();
        for _ in 0..n {
            if u.chance(2, 3) {
                s.push_str(DICT[u.below(DICT.len())]);
            } else {
                s.push_str(*u.pick(&["a", "b1", "Resources", "Type", "exists", "empty", "keys", "this", "1", "-5", "1.5", "true", "null", "AWS::S3::Bucket", "count(", "join(", "\t", "\r\n", "\\", "\u{0}"]));
            }
        }
        s
    };
    let inp = Input { rules: gen(u), data: gen(u) };
    match exercise(&inp, true) {
        Ok((n, accepted)) => CaseResult::Pass(Info { nontrivial: !inp.rules.is_empty(), key: hash_case(&[&inp.rules, &inp.data]), classes: vec![format!("raw-rules-accepted:{}", accepted)], evals: n, sample: None }),
        Err((msg, sig)) => CaseResult::Fail(Failure { msg, sig, case: input_json("raw", &inp, true) }),
    }
}

// ------------------------------------------------------------------------------------------------
// stage: process level (recursion, deep nesting, rulegen): the real binary must not die

fn process_inputs() -> &'static Vec<(&'static str, Vec<String>, String, String)> {
    static CACHE: std::sync::OnceLock<Vec<(&'static str, Vec<String>, String, String)>> = std::sync::OnceLock::new();
    CACHE.get_or_init(build_process_inputs)
}

fn build_process_inputs() -> Vec<(&'static str, Vec<String>, String, String)> {
    // (what, argv template with {R} {D}, rules text, data text)
    let deep = |o: &str, c: &str, d: usize| format!("{}1{}", o.repeat(d), c.repeat(d));
    let v = |xs: &[&str]| xs.iter().map(|x| x.to_string()).collect::<Vec<String>>();
    let val = v(&["validate", "-r", "{R}", "-d", "{D}"]);
    let vals = v(&["validate", "-r", "{R}", "-d", "{D}", "--structured", "-o", "json", "-S", "none"]);
    let mut out = vec![
        ("self-recursive rule", val.clone(), "rule a {\n  a\n}\n".to_string(), "{\"x\": 1}".to_string()),
        ("mutually recursive rules", vals.clone(), "rule a {\n  b\n}\nrule b {\n  not a\n}\n".to_string(), "{\"x\": 1}".to_string()),
        ("recursive rule in a when condition", val.clone(), "rule a when a {\n  x == 1\n}\n".to_string(), "{\"x\": 1}".to_string()),
        ("self-referential variable (function)", val.clone(), "let x = to_upper(%x)\nrule r {\n  %x exists\n}\n".to_string(), "{\"x\": \"s\"}".to_string()),
        ("mutually referential variables", vals.clone(), "let a = %b\nlet b = %a\nrule r {\n  %a exists\n}\n".to_string(), "{\"x\": 1}".to_string()),
        ("self-referential variable (query)", val.clone(), "let a = %a.c\nrule r {\n  %a exists\n}\n".to_string(), "{\"a\": {\"c\": 1}}".to_string()),
        ("self-referential rule-level variable", val.clone(), "rule r {\n  let a = %a\n  %a exists\n}\n".to_string(), "{\"a\": 1}".to_string()),
        ("self-referential block-level variable", val.clone(), "rule r {\n  x {\n    let a = %a.b\n    %a exists\n  }\n}\n".to_string(), "{\"x\": {\"b\": 1}}".to_string()),
        ("recursive parameterised rule", val.clone(), "rule f(p) {\n  f(%p)\n}\nrule r {\n  f(x)\n}\n".to_string(), "{\"x\": 1}".to_string()),
        ("list literal nested 64 deep", vals.clone(), format!("rule r {{\n  x == {}\n}}\n", deep("[", "]", 64)), "{\"x\": 1}".to_string()),
        ("map literal nested 64 deep", val.clone(), format!("rule r {{\n  x == {}\n}}\n", deep("{\"k\": ", "}", 64)), "{\"x\": 1}".to_string()),
        ("filter nested 12 deep", val.clone(), format!("rule r {{\n  x{}{} exists\n}}\n", "[ x".repeat(12), " exists ]".repeat(12)), "{\"x\": [{\"x\": [1]}]}".to_string()),
        // recorded finding F33: parse time doubles with every level of filter nesting
        ("filter nested 26 deep (10 s)", v(&["parse-tree", "-r", "{R}", "-p"]), format!("rule r {{\n  x{}{} exists\n}}\n", "[ x".repeat(26), " exists ]".repeat(26)), "{}".to_string()),
        ("blocks nested 64 deep", vals.clone(), format!("rule r {{\n  {}x == 1{}\n}}\n", "x { ".repeat(64), " }".repeat(64)), "{\"x\": 1}".to_string()),
        ("when nested 64 deep", val.clone(), format!("rule r {{\n  {}x == 1{}\n}}\n", "when x exists { ".repeat(64), " }".repeat(64)), "{\"x\": 1}".to_string()),
        ("document nested 64 deep (json)", vals.clone(), "rule r {\n  x exists\n}\n".to_string(), format!("{{\"x\": {}}}", deep("[", "]", 64))),
        ("document nested 64 deep (yaml flow)", val.clone(), "rule r {\n  x exists\n}\n".to_string(), format!("x: {}\n", deep("{k: ", "}", 64))),
        ("rulegen: resource without Type", v(&["rulegen", "-t", "{D}"]), String::new(), "{\"Resources\": {\"a\": {\"Properties\": {\"x\": 1}}}}".to_string()),
        ("rulegen: Type is not a string", v(&["rulegen", "-t", "{D}"]), String::new(), "{\"Resources\": {\"a\": {\"Type\": 5, \"Properties\": {\"x\": 1}}}}".to_string()),
        ("rulegen: Resources is a list", v(&["rulegen", "-t", "{D}"]), String::new(), "{\"Resources\": [1, 2]}".to_string()),
        ("rulegen: not a template", v(&["rulegen", "-t", "{D}"]), String::new(), "[1, 2".to_string()),
        ("rulegen: Properties is a list", v(&["rulegen", "-t", "{D}"]), String::new(), "{\"Resources\": {\"a\": {\"Type\": \"T::A::B\", \"Properties\": [1]}}}".to_string()),
        ("rulegen: odd type and property names", v(&["rulegen", "-t", "{D}"]), String::new(), "{\"Resources\": {\"a\": {\"Type\": \"my type!\", \"Properties\": {\"a b\": 1, \"c.d\": \"x\", \"1\": 2}}}}".to_string()),
        ("rulegen: nested strings with escaped quotes and backslashes", v(&["rulegen", "-t", "{D}"]), String::new(), "{\"Resources\": {\"a\": {\"Type\": \"AWS::S3::Bucket\", \"Properties\": {\"Tags\": [{\"Key\": \"note\", \"Value\": \"say \\\"hi\\\" e\"}], \"M\": {\"k\": \"a\\\\\", \"e\": true, \"q\": \"\\\"\"}, \"L\": [\"\\\\\\\"e\", 1e22, \"x\\\\\"]}}}}".to_string()),
        ("rulegen: value text ending inside a string", v(&["rulegen", "-t", "{D}"]), String::new(), "{\"Resources\": {\"a\": {\"Type\": \"AWS::S3::Bucket\", \"Properties\": {\"L\": [\"e\\\"\"], \"N\": [1e5, \"1e5\", \"\\\\\"], \"E\": [\"\", \"\\\"\\\"\", true]}}}}".to_string()),
        ("parse-tree of garbage", v(&["parse-tree", "-r", "{R}", "-p"]), "rule { { [ ((( << %".to_string(), "{}".to_string()),
        ("test with a directory without tests", v(&["test", "-d", "{DIR}"]), "rule r {\n  x exists\n}\n".to_string(), "{}".to_string()),
        ("validate with an empty rules file and stdin data", v(&["validate", "-r", "{R}"]), "".to_string(), "{\"x\": 1}".to_string()),
        ("payload that is not JSON", v(&["validate", "--payload"]), String::new(), "{\"rules\": [".to_string()),
        ("payload with wrong field types", v(&["validate", "--payload"]), String::new(), "{\"rules\": [1], \"data\": [2]}".to_string()),
    ];
    // long values without a line break made of multi-byte characters, through every output path of
    // the real binary (stdout takes long lines in partial writes: in-process buffers never do)
    for (cname, ch) in [("2-byte", "\u{e9}"), ("3-byte", "\u{65e5}"), ("4-byte", "\u{1F600}")] {
        for n in [3000usize, 9000, 40000] {
            let long = format!("xy{}", ch.repeat(n));
            let rules = "rule r1 {\n  a == \"x\"\n}\nrule r2 {\n  b == 1\n}\n".to_string();
            let data = format!("{{\"a\": \"{}\", \"b\": 1, \"Resources\": {{\"r\": {{\"Type\": \"AWS::S3::Bucket\", \"Properties\": {{\"Name\": \"{}\"}}}}}}}}", long, long);
            let modes: Vec<(&str, Vec<String>)> = vec![
                ("console", val.clone()),
                ("-o json", v(&["validate", "-r", "{R}", "-d", "{D}", "-o", "json"])),
                ("-o yaml", v(&["validate", "-r", "{R}", "-d", "{D}", "-o", "yaml"])),
                ("-v -p", v(&["validate", "-r", "{R}", "-d", "{D}", "-v", "-p"])),
                ("--structured json", vals.clone()),
                ("--structured yaml", v(&["validate", "-r", "{R}", "-d", "{D}", "--structured", "-o", "yaml", "-S", "none"])),
                ("--structured junit", v(&["validate", "-r", "{R}", "-d", "{D}", "--structured", "-o", "junit", "-S", "none"])),
                ("--structured sarif", v(&["validate", "-r", "{R}", "-d", "{D}", "--structured", "-o", "sarif", "-S", "none"])),
                ("rulegen", v(&["rulegen", "-t", "{D}"])),
            ];
            for (m, argv) in modes {
                let name: &'static str = Box::leak(format!("long {} value x{} {}", cname, n, m).into_boxed_str());
                out.push((name, argv, rules.clone(), data.clone()));
            }
            for (m, argv) in [("parse-tree yaml", v(&["parse-tree", "-r", "{R}"])), ("parse-tree json", v(&["parse-tree", "-r", "{R}", "-j"]))] {
                let name: &'static str = Box::leak(format!("long {} literal x{} {}", cname, n, m).into_boxed_str());
                out.push((name, argv, format!("rule r1 {{\n  a == \"{}\"\n}}\n", long), "{}".to_string()));
            }
        }
    }
    // generated: cycles among variables (scope x definition kind x cycle length x use) and among
    // rules (link kind x cycle length); names are leaked once per process (static table)
    for (name, argv, rules, data) in cycle_inputs() {
        out.push((Box::leak(name.into_boxed_str()), if argv { vals.clone() } else { val.clone() }, rules, data));
    }
    out
}

fn cycle_inputs() -> Vec<(String, bool, String, String)> {
    let doc = "{\"x\": {\"b\": \"s\", \"x\": {\"b\": \"t\"}}, \"Resources\": {\"r\": {\"Type\": \"AWS::S3::Bucket\", \"Properties\": {\"b\": \"s\"}}}}";
    let mut out = vec![];
    let kinds = ["%{}", "%{}.b", "to_upper(%{})", "join(%{}, \",\")", "x.%{}", "x[ b == %{} ]"];
    let uses = ["%v0 exists", "x.b == %v0", "%v0 {\n b exists\n }", "some %v0[*] == 1", "x.%v0 exists", "x[ b == %v0 ] exists"];
    let scopes = ["file", "rule", "block", "type-block", "when-block", "mixed"];
    for (si, scope) in scopes.iter().enumerate() {
        for ki in 0..kinds.len() + 1 {
            for len in 1..=3usize {
                for (ui, usage) in uses.iter().enumerate() {
                    // keep the product affordable: every (scope, kind, len) with two uses
                    if (si + ki + len + ui) % 3 != 0 {
                        continue;
                    }
                    let lets: Vec<String> = (0..len)
                        .map(|i| {
                            let k = if ki == kinds.len() { kinds[(i + ui) % kinds.len()] } else { kinds[ki] };
                            format!("let v{} = {}", i, k.replace("{}", &format!("v{}", (i + 1) % len)))
                        })
                        .collect();
                    let inner = lets.join("\n  ");
                    let rules = match *scope {
                        "file" => format!("{}\nrule r {{\n  {}\n}}\n", lets.join("\n"), usage),
                        "rule" => format!("rule r {{\n  {}\n  {}\n}}\n", inner, usage),
                        "block" => format!("rule r {{\n  x {{\n  {}\n  {}\n  }}\n}}\n", inner, usage),
                        "type-block" => format!("AWS::S3::Bucket {{\n  {}\n  {}\n}}\n", inner, usage.replace("x.b", "Properties.b")),
                        "when-block" => format!("rule r {{\n  when x exists {{\n  {}\n  {}\n  }}\n}}\n", inner, usage),
                        // the first variable in a block, the rest at file level
                        _ => format!("{}\nrule r {{\n  x {{\n  {}\n  {}\n  }}\n}}\n", lets[1..].join("\n"), lets[0], usage),
                    };
                    out.push((format!("variable cycle: scope={} kind={} len={} use={}", scope, ki, len, ui), (si + ui) % 2 == 0, rules, doc.to_string()));
                }
            }
        }
    }
    // rules: a -> b -> .. -> a through references, negated references, when conditions, calls
    let links = ["{}", "not {}", "when {}", "call", "x {\n {}\n }", "when x exists {\n {}\n }"];
    for (li, link) in links.iter().enumerate() {
        for len in 1..=3usize {
            let mut rules = String::new();
            for i in 0..len {
                let next = format!("r{}", (i + 1) % len);
                match *link {
                    "when {}" => rules.push_str(&format!("rule r{} when {} {{\n  x exists\n}}\n", i, next)),
                    "call" => rules.push_str(&format!("rule r{}(p) {{\n  {}(%p)\n}}\n", i, next)),
                    l => rules.push_str(&format!("rule r{} {{\n  x exists\n  {}\n}}\n", i, l.replace("{}", &next))),
                }
            }
            if *link == "call" {
                rules.push_str("rule top {\n  r0(x)\n}\n");
            }
            out.push((format!("rule cycle: link={} len={}", li, len), li % 2 == 0, rules, doc.to_string()));
        }
    }
    out
}

fn process_case(i: usize) -> CaseResult {
    let inputs = process_inputs();
    let (what, argv_t, rules, data) = &inputs[i];
    let dir = fresh_dir("c08p");
    let rp = dir.join("r.guard");
    let dp = dir.join("d.json");
    write_file(&rp, rules);
    write_file(&dp, data);
    let argv: Vec<String> = argv_t.iter().map(|a| a.replace("{R}", &rp.to_string_lossy()).replace("{D}", &dp.to_string_lossy()).replace("{DIR}", &dir.to_string_lossy())).collect();
    let probe = what.ends_with("(10 s)");
    let p = spawn_tool(&argv, data.as_bytes(), &[], None, if probe { 10 } else { 90 });
    let case = json!({"kind": "process", "what": what, "argv": argv_t, "rules": rules, "data": data});
    if p.timed_out {
        if probe {
            // the designated probe of a recorded finding: a 600-byte rules file that does not
            // finish parsing in 10 s (time doubles per nesting level: 0.2 s at depth 14)
            return CaseResult::Fail(Failure { msg: format!("{}: parsing did not terminate within 10 s", what), sig: "c08:hang:nested-filters".into(), case });
        }
        // the process computed for 30 s or more of CPU time on an input of a few hundred bytes: a hang
        // of its own, whatever the load of the machine (CPU time, not wall time, decides)
        if p.cpu_s >= 30.0 {
            return CaseResult::Fail(Failure { msg: format!("{}: the process was still computing after {:.0} CPU seconds (killed at 90 s)", what, p.cpu_s), sig: format!("c08:hang:{}", what), case });
        }
        // a watchdog hit without that much CPU time (waiting, starved) is inconclusive, never a violation
        return CaseResult::Discard("watchdog");
    }
    if p.crashed() {
        return CaseResult::Fail(Failure {
            msg: format!("{}: the process died: status {:?} signal {:?} stderr: {}", what, p.status, p.signal, p.err_s().chars().take(400).collect::<String>()),
            sig: format!("c08:process-died:{}", what),
            case,
        });
    }
    CaseResult::Pass(Info { nontrivial: true, key: hash_case(&[what]), classes: vec![format!("process:{}:exit{}", what, p.status.unwrap_or(-1))], evals: 1, sample: Some(json!({"what": what, "exit": p.status})) })
}

pub fn replay(case: &J) -> CaseResult {
    if case["kind"] == "specs" {
        return specs_case(case["index"].as_u64().unwrap_or(0) as usize);
    }
    if case["kind"] == "framing" {
        let (a, b) = (parses(case["rules"].as_str().unwrap_or("")), parses(case["framed"].as_str().unwrap_or("")));
        return if a == b { CaseResult::Pass(Info::default()) } else { CaseResult::Fail(Failure { msg: format!("the rules text is accepted={} but framed by comments accepted={}", a, b), sig: "c08:comment-framing-changes-acceptance".into(), case: case.clone() }) };
    }
    if case["kind"] == "process" {
        let what = case["what"].as_str().unwrap_or("");
        let inputs = process_inputs();
        return match inputs.iter().position(|x| x.0 == what) {
            Some(i) => process_case(i),
            None => CaseResult::Discard("unknown-process-case"),
        };
    }
    let inp = Input { rules: case["rules"].as_str().unwrap_or("").to_string(), data: case["data"].as_str().unwrap_or("").to_string() };
    match exercise(&inp, case["with_files"].as_bool().unwrap_or(true)) {
        Ok(_) => CaseResult::Pass(Info::default()),
        Err((msg, sig)) => CaseResult::Fail(Failure { msg, sig, case: case.clone() }),
    }
}

pub fn run(tier: Tier, seed: u64) -> i32 {
    let spec = EvidenceSpec {
        rule: "Stage 'test-specs': every combination of 2-3 test files of 7 kinds (good, mismatching, truncated, not a list, empty, unknown status word, without input) for one rules file x 4 output formats, through `test -r -t <directory>` and `test --dir`. Stage 'framing': generated rule texts (valid, with a malformed tail, mutated, with a stray leading token) are accepted or rejected by the parser alike with and without a comment header of 1-60 lines and / or trailing comments. Stage 'ill-typed': 55 parser-accepted but ill-typed program shapes (filters after this / an index / another filter, map-key filters, unary checks on literal variables, function arguments of the wrong type or from empty selections, look-around / back-reference regexes, huge and negative indices, interpolation of non-strings, wrong arity, unknown rules and functions, reversed ranges) x 31 awkward documents (scalars and lists at the root, CloudFormation- and Terraform-plan-shaped documents that are slightly wrong, multi-byte text around byte 100 in malformed data, comment-only, multi-document, tags, aliases, complex keys, overflowing numbers, BOM, tabs). Stage 'mutants': generated wide programs and documents with 1-3 token/byte mutations (truncate, delete, duplicate, swap, splice, dictionary insert, bracket/quote flip, nesting up to 48). Stage 'raw': token soup for every file role. Each input goes through run_checks (verbose and not), parse-tree (json, yaml), validate --payload in six output modes, and for a share also -r/-d files, stdin data, -i, and `test` in three formats (the data text doubling as spec and parameter file): any panic is a violation; a rules text rejected by parse-tree must make validate exit 5 with `line .. column ..` and no evaluated rule. Stage 'process': recursion, 48-64-deep nesting and rulegen / payload edge cases through the real binary: the process must terminate normally. Non-trivial: the rules text is accepted by the parser or within 3 edits of an accepted one; distinct by hash of the texts.".into(),
        assumptions: vec!["nesting depth is bounded by 64 as the statement allows".into(), "in-process calls are wrapped in catch_unwind; inputs that may exhaust the stack (recursion, deep nesting) go through the real binary".into()],
    };
    execute("C08", tier, seed, spec, &replay, &|run: &Session| {
        let sz = tier.pick(Size::quick(), Size::thorough());
        run.shrink_iters.store(400, std::sync::atomic::Ordering::Relaxed);
        run.run_enum("process", process_inputs().len(), process_case);
        run.run_enum("ill-typed", ILL_TYPED.len() * awkward_docs().len(), ill_typed_case);
        run.run_random("mutants", tier.pick(12_000, 400_000), tier.pick(2000, 3000), |u| mutant_case(u, sz));
        run.run_enum("test-specs", SPEC_KINDS.len() * SPEC_KINDS.len() * (SPEC_KINDS.len() + 1) * 4, specs_case);
        run.run_random("framing", tier.pick(8_000, 200_000), tier.pick(1400, 2600), |u| framing_case(u, sz));
        run.run_random("raw", tier.pick(6_000, 200_000), 200, raw_case);
        let wd = run.stats.lock().unwrap().discards.get("watchdog").copied().unwrap_or(0);
        if wd > 0 {
            run.inconclusive(format!("{} process-level case(s) hit the 90 s watchdog", wd));
        }
    })
}

/// entry for the libFuzzer text targets: Err(description) on a violation
pub fn fuzz_exercise(rules: &str, data: &str, with_files: bool) -> Result<(), String> {
    // recorded finding F33 (exponential parse time of nested filters) is excluded by construction
    let mut depth = 0i32;
    let mut max_depth = 0i32;
    for c in rules.chars() {
        match c {
            '[' => {
                depth += 1;
                max_depth = max_depth.max(depth)
            }
            ']' => depth -= 1,
            _ => {}
        }
    }
    if max_depth > 9 || rules.matches('[').count() > 40 {
        return Ok(());
    }
    let inp = Input { rules: rules.to_string(), data: data.to_string() };
    exercise(&inp, with_files).map(|_| ()).map_err(|(m, s)| format!("{} [{}]", m, s))
}
