//! C10 — reported paths, values and source positions point into the input document.
use crate::ast::*;
use crate::choices::Choices;
use crate::docw::*;
use crate::drive::*;
use crate::engine::*;
use crate::gen::*;
use crate::val::V;
use serde_json::{json, Value as J};
use std::collections::BTreeMap;

/// all (path, value) pairs of the report, with the key they were found under
fn collect_pairs(j: &J, key: &str, out: &mut Vec<(String, String, J)>) {
    match j {
        J::Object(o) => {
            if o.len() == 2 && o.get("path").map_or(false, |p| p.is_string()) && o.contains_key("value") {
                out.push((key.to_string(), o["path"].as_str().unwrap().to_string(), o["value"].clone()));
                return;
            }
            for (k, v) in o {
                collect_pairs(v, k, out);
            }
        }
        J::Array(a) => a.iter().for_each(|x| collect_pairs(x, key, out)),
        _ => {}
    }
}

/// (key, path, value) pairs of every check; the `to` side only when the clause (found through its
/// custom message) compares with a query into the data - a literal's members carry paths relative
/// to the literal ("/0"), which are not pointers into the document
fn collect_checks(j: &J, clauses: &BTreeMap<String, Clause>, out: &mut Vec<(String, String, J)>) {
    match j {
        J::Object(o) => {
            if let (Some(check), Some(msgs)) = (o.get("check"), o.get("messages")) {
                let m = msgs["custom_message"].as_str().unwrap_or("");
                let to_from_data = match clauses.get(m) {
                    Some(Clause { kind: Kind::Binary { rhs: Expr::Query { q: Query { head: Head::Key(_), .. }, .. }, .. }, .. }) => true,
                    _ => false,
                };
                // the left-hand side of a clause whose query starts at a key is data, never a literal
                let from_is_data = matches!(clauses.get(m), Some(Clause { q: Query { head: Head::Key(_), .. }, .. }));
                let mut all = vec![];
                collect_pairs(check, "", &mut all);
                for mut p in all {
                    if p.0 == "to" && !to_from_data {
                        continue;
                    }
                    if (p.0 == "from" || p.0 == "value") && from_is_data && p.1.is_empty() {
                        // marked: an empty path is not a pointer to a selected value
                        p.0 = format!("{} (left-hand side of <<{}>>)", p.0, m);
                        p.1 = "\u{0}literal".into();
                    }
                    out.push(p);
                }
                return;
            }
            for (_, v) in o {
                collect_checks(v, clauses, out);
            }
        }
        J::Array(a) => a.iter().for_each(|x| collect_checks(x, clauses, out)),
        _ => {}
    }
}

/// unresolved checks: (custom message, traversed_to path)
fn collect_unresolved(j: &J, out: &mut Vec<(String, String)>) {
    match j {
        J::Object(o) => {
            if let (Some(check), Some(msgs)) = (o.get("check"), o.get("messages")) {
                if let Some(ur) = check.get("UnResolved") {
                    let p = ur["value"]["traversed_to"]["path"].as_str().unwrap_or("\u{0}").to_string();
                    out.push((msgs["custom_message"].as_str().unwrap_or("").to_string(), p));
                }
            }
            for (_, v) in o {
                collect_unresolved(v, out);
            }
        }
        J::Array(a) => a.iter().for_each(|x| collect_unresolved(x, out)),
        _ => {}
    }
}

fn collect_strings(j: &J, out: &mut Vec<String>) {
    match j {
        J::String(s) => out.push(s.clone()),
        J::Object(o) => o.values().for_each(|v| collect_strings(v, out)),
        J::Array(a) => a.iter().for_each(|v| collect_strings(v, out)),
        _ => {}
    }
}

/// `Path=<p>[L:l,C:c]` occurrences
fn positions_in(text: &str) -> Vec<(String, usize, usize)> {
    let mut out = vec![];
    let mut rest = text;
    while let Some(i) = rest.find("Path=") {
        let after = &rest[i + 5..];
        if let Some(b) = after.find("[L:") {
            let path = &after[..b];
            let tail = &after[b + 3..];
            if let Some(c) = tail.find(",C:") {
                let l = tail[..c].parse::<usize>();
                let t2 = &tail[c + 3..];
                if let Some(e) = t2.find(']') {
                    let col = t2[..e].parse::<usize>();
                    if let (Ok(l), Ok(col)) = (l, col) {
                        if !path.contains(' ') && !path.contains('\n') {
                            out.push((path.to_string(), l, col));
                        }
                    }
                }
            }
        }
        rest = &rest[i + 5..];
    }
    out
}

/// The entry of map `v` that the query key `k` names: the key as written if the map has it, else
/// the entry whose name is the same words in another naming convention (the tool's key-case
/// converters: `service_config` finds `ServiceConfig`)
fn key_child<'a>(v: &'a V, k: &str) -> Option<(&'a str, &'a V)> {
    let m = match v {
        V::Map(m) => m,
        _ => return None,
    };
    if let Some((kk, x)) = m.iter().find(|(kk, _)| kk == k) {
        return Some((kk.as_str(), x));
    }
    let sk = |t: &str| t.chars().filter(|c| c.is_ascii_alphanumeric()).map(|c| c.to_ascii_lowercase()).collect::<String>();
    let want = sk(k);
    if want.is_empty() || !k.chars().any(|c| c == '_' || c == '-' || c.is_ascii_uppercase()) {
        return None;
    }
    m.iter().find(|(kk, _)| sk(kk) == want && !kk.is_empty()).map(|(kk, x)| (kk.as_str(), x))
}

/// Can the pointer segments `segs` (from value `v`) be produced by following a prefix of `parts`,
/// such that the first unconsumed part does not exist under the reached value?
fn reaches_gap(v: &V, parts: &[Part], segs: &[&str]) -> bool {
    if segs.is_empty() {
        return match parts.first() {
            None => false, // the whole query resolved: it is not unresolved here
            Some(Part::Key(k)) => key_child(v, k).is_none(),
            Some(Part::Idx(i)) => !matches!(v, V::List(l) if (i.unsigned_abs() as usize) < l.len()),
            Some(Part::Star) => matches!(v, V::List(l) if l.is_empty()) || matches!(v, V::Map(m) if m.is_empty()),
            Some(Part::AllIdx) => matches!(v, V::List(l) if l.is_empty()),
            // a filter on something that cannot be filtered
            Some(Part::Filter(_)) | Some(Part::CapFilter(..)) | Some(Part::KeysFilter { .. }) | Some(Part::KeysFilterVar { .. }) => v.is_scalar(),
            Some(Part::VarKey(_)) => true,
        } || {
            // wildcards and filters may also consume nothing (single value in place of a list)
            match parts.first() {
                Some(Part::Star) | Some(Part::AllIdx) | Some(Part::Filter(_)) => reaches_gap(v, &parts[1..], segs),
                _ => false,
            }
        };
    }
    let (p, rest) = match parts.split_first() {
        Some(x) => x,
        None => return false,
    };
    let step = |seg: &str| -> Option<&V> {
        match v {
            V::Map(_) => v.get(seg),
            V::List(l) => seg.parse::<usize>().ok().and_then(|i| l.get(i)),
            _ => None,
        }
    };
    match p {
        // the entry the key names (as written first, through case conversion second) - no other
        Part::Key(k) => match v {
            V::Map(_) => key_child(v, k).map_or(false, |(actual, n)| actual == segs[0] && reaches_gap(n, rest, &segs[1..])),
            _ => segs[0] == k && step(segs[0]).map_or(false, |n| reaches_gap(n, rest, &segs[1..])),
        },
        Part::Idx(i) => segs[0].parse::<i64>().ok() == Some((*i as i64).abs()) && step(segs[0]).map_or(false, |n| reaches_gap(n, rest, &segs[1..])),
        Part::VarKey(_) => step(segs[0]).map_or(false, |n| reaches_gap(n, rest, &segs[1..])),
        Part::Star | Part::AllIdx | Part::Filter(_) | Part::CapFilter(..) | Part::KeysFilter { .. } | Part::KeysFilterVar { .. } => {
            // consume one segment (element / value) or none
            step(segs[0]).map_or(false, |n| reaches_gap(n, rest, &segs[1..])) || reaches_gap(v, rest, segs)
        }
    }
}

fn clause_by_message(f: &File) -> BTreeMap<String, Clause> {
    let mut out = BTreeMap::new();
    let mut g = f.clone();
    visit_cnfs(&mut g, &mut |c| {
        for line in c.iter() {
            for it in line {
                if let Item::Clause(cl) = it {
                    if let Some(m) = &cl.msg {
                        out.insert(m.clone(), cl.clone());
                    }
                }
            }
        }
    });
    out
}

struct Counts {
    resolved: usize,
    unresolved: usize,
    positions: usize,
    deep: bool,
}

fn check_report(doc: &V, w: &Written, report: &J, clauses: &BTreeMap<String, Clause>, check_positions: bool) -> Result<Counts, (String, String)> {
    let mut c = Counts { resolved: 0, unresolved: 0, positions: 0, deep: false };
    let mut pairs = vec![];
    collect_checks(report, clauses, &mut pairs);
    for (key, path, value) in &pairs {
        if path.is_empty() {
            continue; // literals and the root carry an empty path
        }
        if path == "\u{0}literal" && V::from_json(value) == *doc {
            continue; // the root itself (`this` at rule level) has the empty path
        }
        if path == "\u{0}literal" {
            return Err((format!("{} is reported with an empty path and the value {}: the left-hand side of the clause is a query into the data", key, value), "c10:from-not-in-document".into()));
        }
        let got = V::from_json(value);
        match doc.pointer(path) {
            None => return Err((format!("{} path {:?} does not resolve in the input document (reported value {})", key, path, value), "c10:pointer-dangling".into())),
            Some(v) => {
                if *v != got {
                    return Err((format!("{} path {:?} resolves to {} in the input but the report shows {}", key, path, v.to_json(), value), "c10:pointer-value".into()));
                }
            }
        }
        c.resolved += 1;
        if path.matches('/').count() >= 2 {
            c.deep = true;
        }
    }
    let mut unres = vec![];
    collect_unresolved(report, &mut unres);
    for (msg, path) in &unres {
        if path == "\u{0}" {
            return Err(("unresolved check without a traversed_to path".into(), "c10:unresolved-shape".into()));
        }
        let reached = match doc.pointer(path) {
            Some(v) => v,
            None => return Err((format!("traversed_to {:?} does not exist in the input document", path), "c10:pointer-dangling".into())),
        };
        let _ = reached;
        if let Some(cl) = clauses.get(msg) {
            // the unresolved side is the left-hand query or a query on the right-hand side
            let mut queries: Vec<&Query> = vec![&cl.q];
            if let Kind::Binary { rhs: Expr::Query { q, .. }, .. } = &cl.kind {
                queries.push(q);
            }
            if queries.iter().all(|q| matches!(q.head, Head::Key(_))) {
                let segs: Vec<&str> = if path.is_empty() { vec![] } else { path[1..].split('/').collect() };
                // the query may be relative to a block / type-block / filter context: try every
                // context prefix of the pointer
                let mut ok = false;
                for q in &queries {
                    let k = match &q.head {
                        Head::Key(k) => k.clone(),
                        _ => unreachable!(),
                    };
                    let mut parts = vec![Part::Key(k)];
                    parts.extend(q.parts.iter().cloned());
                    // (the clauses of the rules `zbig` / `zcase` stand directly in a rule body: their
                    // context is the root and nothing else)
                    let root_only = msg.starts_with("cc") || msg.starts_with("big");
                    for cut in 0..=(if root_only { 0 } else { segs.len() }) {
                        let ctx_ptr = if cut == 0 { String::new() } else { format!("/{}", segs[..cut].join("/")) };
                        if let Some(ctx) = doc.pointer(&ctx_ptr) {
                            if reaches_gap(ctx, &parts, &segs[cut..]) {
                                ok = true;
                                break;
                            }
                        }
                    }
                }
                if !ok {
                    return Err((
                        format!("unresolved check <<{}>> on query `{}`: reported as reached {:?}, which is not a point on the queried path after which the next segment is missing", msg, query_text(&cl.q), path),
                        "c10:traversed-to-off-path".into(),
                    ));
                }
                c.unresolved += 1;
            }
        }
    }
    if check_positions {
        let mut strings = vec![];
        collect_strings(report, &mut strings);
        for s in &strings {
            for (p, l, col) in positions_in(s) {
                if p.is_empty() {
                    continue;
                }
                if let Some(v) = doc.pointer(&p) {
                    if v.is_scalar() {
                        match w.pos.get(&p) {
                            Some((wl, wc)) => {
                                if (*wl, *wc) != (l, col) {
                                    return Err((format!("scalar at {:?} starts at line {} column {} of the data text but the report says [L:{},C:{}]", p, wl, wc, l, col), "c10:position".into()));
                                }
                                c.positions += 1;
                            }
                            None => {}
                        }
                    }
                }
            }
        }
    }
    Ok(c)
}

fn run_case(doc: &V, w: &Written, style: Style, rules: &str, clauses: &BTreeMap<String, Clause>, via_file: bool, evals: &mut u64) -> Result<Option<Counts>, (String, String)> {
    *evals += 1;
    let r = if via_file {
        let dir = fresh_dir("c10");
        let rp = dir.join("r.guard");
        let dp = dir.join(format!("d.{}", style.ext()));
        write_file(&rp, rules);
        write_file(&dp, &w.text);
        validate_files(&[rp.to_string_lossy().to_string()], &[dp.to_string_lossy().to_string()], &[], &VOpts::structured(Fmt::Json), "")
    } else {
        validate_payload(&[rules.to_string()], &[w.text.clone()], &[], &VOpts::structured(Fmt::Json))
    };
    if let Some(p) = &r.panic {
        return Err((format!("panic {}", p), format!("panic:{}", p.split(' ').next().unwrap_or(""))));
    }
    match &r.code {
        Ok(0) | Ok(19) => {}
        Ok(5) => return Err((format!("generated rules rejected: {}", r.err), "c10:generator-invalid".into())),
        _ => return Ok(None), // evaluation error
    }
    let j: J = serde_json::from_str(&r.out).map_err(|e| (format!("report is not JSON: {}", e), "c10:json".to_string()))?;
    check_report(doc, w, &j[0], clauses, true).map(Some)
}

pub fn replay(case: &J) -> CaseResult {
    let doc = match V::parse_json(case["doc"].as_str().unwrap_or("")) {
        Some(d) => d,
        None => return CaseResult::Discard("bad-replay"),
    };
    let pos: BTreeMap<String, (usize, usize)> = case["positions"]
        .as_object()
        .map(|o| o.iter().map(|(k, v)| (k.clone(), (v[0].as_u64().unwrap_or(0) as usize, v[1].as_u64().unwrap_or(0) as usize))).collect())
        .unwrap_or_default();
    let w = Written { text: case["text"].as_str().unwrap_or("").to_string(), pos, plain_strings: 0, quoted_strings: 0, block_scalars: 0, empty_nulls: 0 };
    let style = STYLES.iter().find(|s| s.text() == case["style"].as_str().unwrap_or("")).copied().unwrap_or(Style::JsonPretty);
    // the clause table is not available in replay: pointer and position checks only
    let mut ev = 0;
    match run_case(&doc, &w, style, case["rules"].as_str().unwrap_or(""), &BTreeMap::new(), case["via_file"].as_bool().unwrap_or(false), &mut ev) {
        Ok(_) => CaseResult::Pass(Info::default()),
        Err((msg, sig)) => CaseResult::Fail(Failure { msg, sig, case: case.clone() }),
    }
}

/// An entry under the empty-string key (its pointer segment is empty: `/a//b`), holding a map with
/// the name of a sibling key, so that a dropped or doubled `/` lands on another value.
fn add_empty_key(u: &mut Choices, v: &mut V, depth: usize) -> bool {
    if let V::Map(m) = v {
        if !m.is_empty() && !m.iter().any(|(k, _)| k.is_empty()) && (depth > 0 || u.chance(1, 2)) && u.chance(1, 2) {
            let (k, val) = m[u.below(m.len())].clone();
            let inner = V::Map(vec![(k, [V::Int(77), V::s("under the empty key"), val][u.below(3)].clone()), ("port".into(), V::Int(9))]);
            let at = u.below(m.len() + 1);
            m.insert(at, (String::new(), inner));
            return true;
        }
        for (_, x) in m.iter_mut() {
            if add_empty_key(u, x, depth + 1) {
                return true;
            }
        }
    }
    false
}

fn random_case(u: &mut Choices, sz: Size) -> CaseResult {
    let mut doc = gen_cfn_doc(u, &sz);
    let empty_key = u.chance(1, 5) && add_empty_key(u, &mut doc, 0);
    let mut file = gen_wide_file(u, &doc, sz, true);
    // no parameterised rules (their clauses are reported relative to the call): calls are replaced
    // by a plain clause, the rest is kept
    file.prules.clear();
    // function-free, and no map-key filters: a key selected by `[ keys == .. ]` is reported with
    // the path of its map, it is not a value of the document (outside the statement)
    fn strip_q(q: &mut Query) {
        q.parts.retain(|p| !matches!(p, Part::KeysFilter { .. } | Part::KeysFilterVar { .. }));
    }
    fn strip_lets(ls: &mut Vec<Let>) {
        for l in ls.iter_mut() {
            match &mut l.value {
                Expr::Call(_) => l.value = Expr::Query { some: false, q: q_key(&["Resources", "nosuch"]) },
                Expr::Query { q, .. } => strip_q(q),
                _ => {}
            }
        }
    }
    strip_lets(&mut file.lets);
    for r in file.rules.iter_mut() {
        strip_lets(&mut r.lets);
    }
    visit_cnfs(&mut file, &mut |c| {
        for l in c.iter_mut() {
            for it in l.iter_mut() {
                match it {
                    Item::Clause(cl) => {
                        strip_q(&mut cl.q);
                        if let Kind::Binary { rhs: Expr::Query { q, .. }, .. } = &mut cl.kind {
                            strip_q(q);
                        }
                    }
                    Item::Block { q, lets, .. } => {
                        strip_q(q);
                        strip_lets(lets);
                    }
                    Item::When { lets, .. } | Item::TypeBlock { lets, .. } => strip_lets(lets),
                    _ => {}
                }
            }
        }
    });
    let mut n = 0;
    visit_cnfs(&mut file, &mut |c| {
        for l in c.iter_mut() {
            for it in l.iter_mut() {
                if matches!(it, Item::PCall { .. }) {
                    n += 1;
                    let mut cl = cl_un(q_key(&["Resources", "nosuch"]), UnOp::Exists, false);
                    cl.msg = Some(format!("pc{}", n));
                    *it = Item::Clause(cl);
                }
            }
        }
    });
    // a fifth of the documents hold a list of 11-130 entries (multi-digit indices in the pointers)
    // with rules that fail on, or do not resolve below, single entries of it
    if u.chance(1, 5) {
        let n = *u.pick(&[11usize, 13, 21, 32, 101, 130]);
        let items: Vec<V> = (0..n).map(|i| if i % 3 == 2 { V::Map(vec![("k".into(), V::Int(i as i64))]) } else { V::Map(vec![("k".into(), V::Int(i as i64)), ("j".into(), V::s("x"))]) }).collect();
        if let V::Map(m) = &mut doc {
            m.retain(|(k, _)| k != "biglist");
            m.push(("biglist".into(), V::List(items)));
        }
        let big = |parts: Vec<Part>| Query { head: Head::Key("biglist".into()), parts };
        let mut c1 = cl_bin(big(vec![Part::AllIdx, Part::Key("k".into())]), BinOp::Lt, false, Lit::V(V::Int(10)));
        c1.msg = Some("big1".into());
        let mut c2 = cl_un(big(vec![Part::AllIdx, Part::Key("j".into())]), UnOp::Exists, false);
        c2.msg = Some("big2".into());
        let mut c3 = cl_bin(big(vec![Part::Idx((n - 1) as i32), Part::Key("k".into())]), BinOp::Eq, false, Lit::V(V::Int(-1)));
        c3.msg = Some("big3".into());
        let mut c4 = cl_un(big(vec![Part::Idx(12), Part::Key("nosuch".into()), Part::Key("deeper".into())]), UnOp::Exists, false);
        c4.msg = Some("big4".into());
        file.rules.push(Rule { name: "zbig".into(), when: None, lets: vec![], body: vec![vec![Item::Clause(c1)], vec![Item::Clause(c2)], vec![Item::Clause(c3)], vec![Item::Clause(c4)]] });
    }
    // a fifth of the documents hold a map reached through key-case conversion that has an entry both
    // under the spelling the rules use and under another spelling of the same words
    if u.chance(1, 5) {
        let inner = |k: i64| V::Map(vec![("k".into(), V::Int(k)), ("targets".into(), V::List(vec![V::Int(k), V::Int(k + 1)]))]);
        let mut entries = vec![("log_level".to_string(), inner(1)), ("LogLevel".to_string(), inner(2)), ("sizeLimit".to_string(), V::Int(3))];
        if u.chance(1, 2) {
            entries.swap(0, 1);
        }
        if let V::Map(m) = &mut doc {
            m.retain(|(k, _)| k != "ServiceConfig");
            m.push(("ServiceConfig".into(), V::Map(entries)));
        }
        let q = |keys: &[&str], tail: Vec<Part>| {
            let mut parts: Vec<Part> = keys[1..].iter().map(|k| Part::Key(k.to_string())).collect();
            parts.extend(tail);
            Query { head: Head::Key(keys[0].to_string()), parts }
        };
        let mut c1 = cl_un(q(&["service_config", "log_level", "targets"], vec![Part::Idx(5)]), UnOp::Exists, false);
        c1.msg = Some("cc1".into());
        let mut c2 = cl_un(q(&["service_config", "log_level", "nosuch", "deeper"], vec![]), UnOp::Exists, false);
        c2.msg = Some("cc2".into());
        let mut c3 = cl_bin(q(&["service_config", "log_level", "k"], vec![]), BinOp::Eq, false, Lit::V(V::Int(77)));
        c3.msg = Some("cc3".into());
        // (a later segment that needs *another* conversion than the first one is not found by the
        // tool - the converter that matched first is kept; not part of this idiom)
        file.rules.push(Rule { name: "zcase".into(), when: None, lets: vec![], body: vec![vec![Item::Clause(c1)], vec![Item::Clause(c2)], vec![Item::Clause(c3)]] });
    }
    let style = *u.pick(&[Style::YamlBlock, Style::JsonPretty, Style::YamlFlow, Style::YamlBlock, Style::JsonCompact]);
    let w = write_doc(&doc, style, u, true);
    let rules = print_file(&file);
    let clauses = clause_by_message(&file);
    let via_file = u.chance(1, 4);
    let mut evals = 0;
    match run_case(&doc, &w, style, &rules, &clauses, via_file, &mut evals) {
        Ok(None) => CaseResult::Discard("evaluation-error"),
        Ok(Some(c)) => CaseResult::Pass(Info {
            nontrivial: c.resolved >= 1 && c.unresolved >= 1 && c.deep && w.text.lines().count() > 1,
            key: hash_case(&[&w.text, &rules]),
            classes: vec![
                format!("style:{}", style.text()),
                format!("resolved:{}", c.resolved.min(3)),
                format!("unresolved-on-path:{}", c.unresolved.min(3)),
                format!("positions:{}", c.positions.min(3)),
                format!("via:{}", if via_file { "file" } else { "payload" }),
                format!("empty-string-key:{}", empty_key),
            ],
            evals,
            sample: Some(json!({"data": w.text, "rules": rules, "pointers_checked": c.resolved, "unresolved_checked": c.unresolved, "positions_checked": c.positions})),
        }),
        Err((msg, sig)) => CaseResult::Fail(Failure {
            msg,
            sig,
            case: json!({"doc": doc.to_json(), "text": w.text, "style": style.text(), "rules": rules, "via_file": via_file,
                          "positions": w.pos.iter().map(|(k, v)| (k.clone(), json!([v.0, v.1]))).collect::<serde_json::Map<String, J>>()}),
        }),
    }
}

pub fn run(tier: Tier, seed: u64) -> i32 {
    let spec = EvidenceSpec {
        rule: "Random wide programs without parameterised calls, a unique custom message on every clause, on CloudFormation-shaped documents written as block YAML / pretty JSON / flow YAML / compact JSON with random layout (indentation, blank lines, comments, `---`), a fifth of them with an entry under the empty-string key; evaluated by `validate --structured -o json` through --payload and through a data file. For every {path,value} pair of the report (from, to, traversed_to, unary value) with a non-empty path: the slash pointer resolves in the harness's copy of the document to exactly that value. For every unresolved check whose clause (found through its message) has a key-headed query: the reached point is an instance of a prefix of the query (under some context prefix of the pointer) and the next queried segment does not exist under it. For every `Path=<p>[L:l,C:c]` in a message whose p addresses a scalar: (l,c) equals the position at which the writer put that scalar's first character (0-based, columns in characters). Non-trivial: >=1 resolved and >=1 unresolved check, a pointer of depth >=2, multi-line text; distinct by hash of data text and rules.".into(),
        assumptions: vec![
            "only scalar positions are judged (the statement's wording)".into(),
            "`remaining_query` text is not judged; the reached point is (DESIGN 5/C10)".into(),
        ],
    };
    execute("C10", tier, seed, spec, &replay, &|run: &Session| {
        let sz = tier.pick(Size::quick(), Size::thorough());
        run.run_random("reports", tier.pick(40_000, 800_000), tier.pick(1500, 2600), |u| random_case(u, sz));
    })
}
