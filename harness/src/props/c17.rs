//! C17 — input parameters are merged into the data without loss or silent override.
use crate::ast::*;
use crate::choices::Choices;
use crate::drive::*;
use crate::engine::*;
use crate::gen::*;
use crate::props::c07::{obs_from_report, parse_table, Obs};
use crate::val::V;
use serde_json::{json, Value as J};
use std::collections::BTreeSet;

#[derive(Clone, Copy, PartialEq, Debug)]
enum Mode {
    PlainFiles,
    StructuredFiles,
    PlainPayload,
    StructuredPayload,
    /// the data file and a copy of it under another name in one run: both get the parameters
    StructuredTwoDataFiles,
    /// the other structured renderings (each reporter is handed the merged data on its own)
    StructuredYaml,
    StructuredJunit,
    StructuredSarif,
}
const MODES: [Mode; 8] = [Mode::PlainFiles, Mode::StructuredFiles, Mode::PlainPayload, Mode::StructuredPayload, Mode::StructuredTwoDataFiles, Mode::StructuredYaml, Mode::StructuredJunit, Mode::StructuredSarif];

fn run_mode(mode: Mode, rules_path: &str, rules_text: &str, data_path: &str, data_text: &str, params: &[String]) -> Run {
    match mode {
        Mode::PlainFiles => validate_files(&[rules_path.to_string()], &[data_path.to_string()], params, &VOpts::plain(Fmt::Single, vec![Show::All]), ""),
        Mode::StructuredFiles => validate_files(&[rules_path.to_string()], &[data_path.to_string()], params, &VOpts::structured(Fmt::Json), ""),
        Mode::PlainPayload => validate_payload(&[rules_text.to_string()], &[data_text.to_string()], params, &VOpts::plain(Fmt::Single, vec![Show::All])),
        Mode::StructuredPayload => validate_payload(&[rules_text.to_string()], &[data_text.to_string()], params, &VOpts::structured(Fmt::Json)),
        Mode::StructuredYaml => validate_files(&[rules_path.to_string()], &[data_path.to_string()], params, &VOpts::structured(Fmt::Yaml), ""),
        Mode::StructuredJunit => validate_files(&[rules_path.to_string()], &[data_path.to_string()], params, &VOpts::structured(Fmt::Junit), ""),
        Mode::StructuredSarif => validate_files(&[rules_path.to_string()], &[data_path.to_string()], params, &VOpts::structured(Fmt::Sarif), ""),
        Mode::StructuredTwoDataFiles => {
            // the copy lives next to the data file
            let copy = format!("{}.copy.json", data_path);
            write_file(std::path::Path::new(&copy), data_text);
            validate_files(&[rules_path.to_string()], &[data_path.to_string(), copy], params, &VOpts::structured(Fmt::Json), "")
        }
    }
}

fn observe(mode: Mode, r: &Run) -> Result<Obs, String> {
    match mode {
        Mode::PlainFiles | Mode::PlainPayload => parse_table(&r.out, &[Show::All]),
        Mode::StructuredTwoDataFiles => {
            let j: J = serde_json::from_str(&r.out).map_err(|e| format!("structured output is not JSON: {}", e))?;
            let (a, b) = (obs_from_report(&j[0])?, obs_from_report(&j[1])?);
            if a != b {
                return Err(format!("the data file and its copy get different verdicts in one run: {:?} vs {:?}", a, b));
            }
            Ok(a)
        }
        Mode::StructuredYaml => {
            let j: J = serde_yaml::from_str(&r.out).map_err(|e| format!("structured output is not YAML: {}", e))?;
            obs_from_report(&j[0])
        }
        Mode::StructuredJunit => {
            // one test case per rules file: its mark, and the names in the failure messages
            let ju = crate::props::c07::parse_junit(&r.out)?;
            let set = |m: &str| -> BTreeSet<String> { ju.cases.iter().filter(|c| c.1 == m).map(|c| c.0.clone()).collect() };
            Ok(Obs { pass: Some(set("pass")), fail: Some(set("fail")), skip: Some(set("skip")), file: None })
        }
        Mode::StructuredSarif => {
            // the failing checks by rule id (data file names differ between the split and the merged run)
            let j: J = serde_json::from_str(&r.out).map_err(|e| format!("SARIF output is not JSON: {}", e))?;
            let mut ids = BTreeSet::new();
            let mut n = 0;
            for res in j["runs"][0]["results"].as_array().cloned().unwrap_or_default() {
                ids.insert(format!("{}#{}", res["ruleId"].as_str().unwrap_or(""), n));
                n += 1;
            }
            let ids: BTreeSet<String> = ids.into_iter().map(|s| s.split('#').next().unwrap_or("").to_string()).collect();
            Ok(Obs { pass: None, fail: Some(ids), skip: Some([format!("results:{}", n)].into_iter().collect()), file: None })
        }
        _ => {
            let j: J = serde_json::from_str(&r.out).map_err(|e| format!("structured output is not JSON: {}", e))?;
            obs_from_report(&j[0])
        }
    }
}

struct Split {
    data: V,
    params: Vec<V>,
}

/// the predicate, on texts
fn check_split(rules: &str, merged: &V, data: &V, params: &[V], orders: &[Vec<usize>], overlap_key: Option<&str>, layout: u64, evals: &mut u64) -> Result<usize, (String, String)> {
    let dir = fresh_dir("c17");
    let rp = dir.join("r.guard");
    write_file(&rp, rules);
    let dp = dir.join("data.json");
    write_file(&dp, &data.to_json());
    let mp = dir.join("merged.json");
    write_file(&mp, &merged.to_json());
    let mut ppaths = vec![];
    // layout bit 0: parameter files are block YAML (.yaml / .yml) instead of JSON;
    // bit 1: -i names the directory that holds them (next to a file without a data extension,
    //        which the documentation says is not used)
    let as_dir = layout & 2 != 0;
    for (i, p) in params.iter().enumerate() {
        let ext = if layout & 1 != 0 { ["yaml", "yml", "json"][i % 3] } else { "json" };
        // half of the cases: every parameter file has the same base name, in its own directory
        let pp = if merged.nodes() % 2 == 0 { dir.join(format!("params/env{}/params.{}", i, ext)) } else { dir.join(format!("params/p{}.{}", i, ext)) };
        let text = if ext == "json" {
            p.to_json()
        } else {
            let zeros = [0u32; 4];
            let mut c = Choices::new(&zeros);
            crate::docw::write_doc(p, crate::docw::Style::YamlBlock, &mut c, false).text
        };
        // layout bit 2: the last parameter file is a symbolic link to a file kept elsewhere under
        // a versioned name (ConfigMap mounts, store links)
        if layout & 4 != 0 && i + 1 == params.len() {
            let target = dir.join(format!("store/p{}.v2", i));
            write_file(&target, &text);
            let _ = std::fs::create_dir_all(pp.parent().unwrap());
            let _ = std::fs::remove_file(&pp);
            std::os::unix::fs::symlink(&target, &pp).expect("symlink");
        } else {
            write_file(&pp, &text);
        }
        ppaths.push(pp.to_string_lossy().to_string());
    }
    if as_dir {
        let k = overlap_key.map(String::from).or_else(|| match merged { V::Map(m) => m.first().map(|(k, _)| k.clone()), _ => None }).unwrap_or_else(|| "a".into());
        write_file(&dir.join("params/README.txt"), &format!("{{\"{}\": \"not a parameter file\"}}", k));
    }
    let one_order = vec![(0..params.len()).collect::<Vec<usize>>()];
    let orders: &[Vec<usize>] = if as_dir { &one_order } else { orders };
    let rps = rp.to_string_lossy().to_string();
    let mut checked = 0;
    for mode in MODES {
        // reference: the pre-merged document through the same mode, no -i
        *evals += 1;
        let reference = run_mode(mode, &rps, rules, &mp.to_string_lossy(), &merged.to_json(), &[]);
        if let Some(p) = &reference.panic {
            return Err((format!("{:?} on the merged document: panic {}", mode, p), format!("panic:{}", p.split(' ').next().unwrap_or(""))));
        }
        if reference.code == Ok(5) {
            return Err((format!("generated rules rejected: {}", reference.err), "c17:generator-invalid".into()));
        }
        for order in orders {
            let ps: Vec<String> = if as_dir { vec![dir.join("params").to_string_lossy().to_string()] } else { order.iter().map(|i| ppaths[*i].clone()).collect() };
            *evals += 1;
            let r = run_mode(mode, &rps, rules, &dp.to_string_lossy(), &data.to_json(), &ps);
            let what = format!("{:?} with -i {:?}{}{}", mode, order, if as_dir { " (as a directory)" } else { "" }, if layout & 1 != 0 { " (YAML parameter files)" } else { "" }.to_string() + if layout & 4 != 0 { " (last parameter file is a symbolic link)" } else { "" });
            if let Some(p) = &r.panic {
                return Err((format!("{}: panic {}", what, p), format!("panic:{}", p.split(' ').next().unwrap_or(""))));
            }
            match overlap_key {
                Some(k) => {
                    // two sources define the same top-level key: an error, no verdict
                    let ok_code = !matches!(r.code, Ok(0) | Ok(19));
                    let diag = format!("{}{}", r.err, r.code.clone().err().unwrap_or_default());
                    if !ok_code {
                        return Err((format!("{}: key {:?} is defined by two sources but the run exits {:?} with a verdict instead of failing", what, k, r.code), format!("c17:overlap-accepted:{:?}", mode)));
                    }
                    if !diag.contains(k) {
                        return Err((format!("{}: the error for the duplicated key {:?} does not name it: {}", what, k, diag), "c17:overlap-diagnostic".into()));
                    }
                    if r.out.contains("Status = ") || r.out.contains("\"compliant\"") {
                        return Err((format!("{}: a verdict was printed although the merge failed: {}", what, r.brief()), "c17:overlap-verdict-printed".into()));
                    }
                }
                None => {
                    // error texts carry source positions, which legitimately differ between the
                    // split and the merged text: only the kind of outcome is compared for errors
                    let same = match (&r.code, &reference.code) {
                        (Ok(a), Ok(b)) => a == b,
                        (Err(_), Err(_)) => true,
                        _ => false,
                    };
                    if !same {
                        return Err((format!("{}: exit {:?}, but validating the merged document exits {:?}", what, r.code, reference.code), format!("c17:exit-code:{:?}", mode)));
                    }
                    if matches!(r.code, Ok(0) | Ok(19)) {
                        let a = observe(mode, &reference).map_err(|e| (format!("{:?} (merged): {}", mode, e), "c17:parse".to_string()))?;
                        let b = observe(mode, &r).map_err(|e| (format!("{}: {}", what, e), "c17:parse".to_string()))?;
                        if a != b {
                            return Err((format!("{}: verdicts {:?} differ from those of the merged document {:?}", what, b, a), format!("c17:verdict:{:?}", mode)));
                        }
                    }
                }
            }
            checked += 1;
        }
    }
    Ok(checked)
}

// ------------------------------------------------------------------------------------------------
// the same scalar text means the same in a parameter file and in the data: the merged document is
// the concatenation of the texts (block YAML top-level maps), whatever the scalars look like

const RAW_SCALARS: [&str; 26] = [
    "True", "TRUE", "False", "0x1F", "0o17", "010", ".inf", "-.inf", ".nan", "~", "Yes", "No", "on", "1_000", "9223372036854775808", "18446744073709551615", "1e3", "+5", "null", "Null", "2024-01-01",
    "\"quoted\"", "'single'", "12:30", "1.0", "-0",
];

fn raw_case(i: usize) -> CaseResult {
    let a = RAW_SCALARS[i % RAW_SCALARS.len()];
    let b = RAW_SCALARS[(i / RAW_SCALARS.len() + i + 1) % RAW_SCALARS.len()];
    let params = format!("pk: {}\npl:\n- {}\n- {}\npm:\n  x: {}\n", a, a, b, b);
    let data = format!("dk: {}\ndl:\n- {}\n- {}\ndm:\n  x: {}\nother: 1\n", a, a, b, b);
    let merged = format!("{}{}", params, data);
    let mut rules = String::from("rule same_scalar {\n  pk == dk\n}\nrule same_list {\n  pl == dl\n}\nrule same_map {\n  pm == dm\n}\nrule same_first {\n  pl[0] == dk\n}\n");
    for t in ["is_string", "is_int", "is_float", "is_bool", "is_null"] {
        rules.push_str(&format!("rule pk_{} {{\n  pk {}\n}}\nrule pmx_{} {{\n  pm.x {}\n}}\n", t, t, t, t));
    }
    let dir = fresh_dir("c17r");
    let (rp, pp, dp, mp) = (dir.join("r.guard"), dir.join("params.yaml"), dir.join("data.yaml"), dir.join("merged.yaml"));
    write_file(&rp, &rules);
    write_file(&pp, &params);
    write_file(&dp, &data);
    write_file(&mp, &merged);
    let case = json!({"kind": "raw", "index": i, "params": params, "data": data});
    let s = |p: &std::path::Path| p.to_string_lossy().to_string();
    let mut evals = 0;
    for (what, o) in [("plain", VOpts::plain(Fmt::Single, vec![Show::All])), ("--structured", VOpts::structured(Fmt::Json))] {
        evals += 2;
        let m = validate_files(&[s(&rp)], &[s(&mp)], &[], &o, "");
        let r = validate_files(&[s(&rp)], &[s(&dp)], &[s(&pp)], &o, "");
        for x in [&m, &r] {
            if let Some(p) = &x.panic {
                return CaseResult::Fail(Failure { msg: format!("panic {}", p), sig: format!("panic:{}", p.split(' ').next().unwrap_or("")), case });
            }
        }
        let mode = if what == "plain" { Mode::PlainFiles } else { Mode::StructuredFiles };
        let same = match (&m.code, &r.code) {
            (Ok(a), Ok(b)) if a == b && matches!(a, 0 | 19) => observe(mode, &m).ok() == observe(mode, &r).ok(),
            (Ok(a), Ok(b)) => a == b,
            (Err(_), Err(_)) => true,
            _ => false,
        };
        if !same {
            return CaseResult::Fail(Failure {
                msg: format!("{}: scalars `{}` / `{}` in a parameter file and in the data: -i gives exit {:?} {:?}, the concatenated document gives exit {:?} {:?}", what, a, b, r.code, observe(mode, &r).ok(), m.code, observe(mode, &m).ok()),
                sig: "c17:raw-scalar-differs".into(),
                case,
            });
        }
    }
    CaseResult::Pass(Info { nontrivial: true, key: hash_case(&[&params, &data]), classes: vec!["raw-scalars".into()], evals, sample: if i % 9 == 0 { Some(case) } else { None } })
}

pub fn replay(case: &J) -> CaseResult {
    if case["kind"] == "raw" {
        return raw_case(case["index"].as_u64().unwrap_or(0) as usize);
    }
    let pv = |k: &str| V::parse_json(case[k].as_str().unwrap_or("null")).unwrap_or(V::Null);
    let params: Vec<V> = case["params"].as_array().map(|a| a.iter().map(|p| V::parse_json(p.as_str().unwrap_or("null")).unwrap_or(V::Null)).collect()).unwrap_or_default();
    let orders: Vec<Vec<usize>> = case["orders"].as_array().map(|a| a.iter().map(|o| o.as_array().map(|x| x.iter().map(|i| i.as_u64().unwrap_or(0) as usize).collect()).unwrap_or_default()).collect()).unwrap_or_default();
    let mut ev = 0;
    match check_split(case["rules"].as_str().unwrap_or(""), &pv("merged"), &pv("data"), &params, &orders, case["overlap_key"].as_str(), case["layout"].as_u64().unwrap_or(0), &mut ev) {
        Ok(_) => CaseResult::Pass(Info::default()),
        Err((msg, sig)) => CaseResult::Fail(Failure { msg, sig, case: case.clone() }),
    }
}

fn random_case(u: &mut Choices, sz: Size) -> CaseResult {
    // a top-level map with enough keys to split
    let mut doc = match gen_doc(u, &sz) {
        V::Map(m) => m,
        _ => unreachable!(),
    };
    for k in ["name", "port", "tags", "items"] {
        if doc.len() < 4 && !doc.iter().any(|(kk, _)| kk == k) {
            doc.push((k.to_string(), gen_value(u, 1, &sz)));
        }
    }
    let docv = V::Map(doc.clone());
    let file = gen_core_file(u, &docv, sz, true, false);
    let mut rules = print_file(&file);
    // rules that walk the merged top-level map as a whole (`this.*`, keys filters, count): the
    // merged map must hold every key of every source exactly once
    for (i, (k, v)) in doc.iter().enumerate().take(6) {
        if v.is_scalar() && v_expressible(v) && !matches!(v, V::Float(_)) {
            rules.push_str(&format!("rule c17_value_{} {{\n  some this.* == {}\n}}\n", i, v_text(v)));
        }
        if guard_str(k, false).is_some() {
            rules.push_str(&format!("rule c17_key_{} {{\n  this[ keys == {} ] !empty\n}}\n", i, v_text(&V::s(k))));
        }
    }
    rules.push_str(&format!("rule c17_count {{\n  let n = count(this.*)\n  %n == {}\n}}\nrule c17_structs {{\n  this.* !is_struct\n}}\n", doc.len()));
    // split: each key goes to the data or to one of 1..3 parameter files
    let np = u.range(1, 3);
    let mut parts: Vec<Vec<(String, V)>> = vec![vec![]; np + 1];
    for (k, v) in &doc {
        let t = u.below(np + 1);
        parts[t].push((k.clone(), v.clone()));
    }
    let overlap = u.chance(1, 4);
    let mut overlap_key = None;
    if overlap {
        // the same key in two sources (parameter/parameter or parameter/data)
        let (k, mut v) = doc[u.below(doc.len())].clone();
        // the second definition has another value in half of the cases
        if u.chance(1, 2) {
            v = V::s("second definition");
        }
        let holder = parts.iter().position(|p| p.iter().any(|(kk, _)| *kk == k)).unwrap();
        let mut other = u.below(np + 1);
        if other == holder {
            other = (other + 1) % (np + 1);
        }
        // at least one of the two must be a parameter file (index >= 1)
        if holder == 0 || other == 0 || np >= 2 {
            parts[other].push((k.clone(), v));
            overlap_key = Some(k);
        }
    }
    let split = Split { data: V::Map(parts[0].clone()), params: parts[1..].iter().map(|p| V::Map(p.clone())).collect() };
    // merged document in the tool's merge order: parameter files (as walked) then data
    let mut merged = vec![];
    for p in &parts[1..] {
        merged.extend(p.clone());
    }
    merged.extend(parts[0].clone());
    let merged = V::Map(merged);
    let orders = if np <= 2 { super::c04::permutations(np) } else { super::c04::permutations(np).into_iter().take(4).collect() };
    let layout = u.below(8) as u64;
    let mut evals = 0;
    let case = || {
        json!({"layout": layout, "rules": rules, "merged": merged.to_json(), "data": split.data.to_json(), "params": split.params.iter().map(|p| p.to_json()).collect::<Vec<_>>(),
               "orders": orders, "overlap_key": overlap_key})
    };
    match check_split(&rules, &merged, &split.data, &split.params, &orders, overlap_key.as_deref(), layout, &mut evals) {
        Ok(n) => {
            let from_param = split.params.iter().any(|p| matches!(p, V::Map(m) if !m.is_empty()));
            let from_data = matches!(&split.data, V::Map(m) if !m.is_empty());
            CaseResult::Pass(Info {
                nontrivial: from_param && from_data && np >= 2,
                key: hash_case(&[&rules, &merged.to_json(), &format!("{:?}", overlap_key)]),
                classes: vec![format!("layout:{}{}{}", if layout & 1 != 0 { "yaml" } else { "json" }, if layout & 2 != 0 { "+directory" } else { "" }, if layout & 4 != 0 { "+symlink" } else { "" }), format!("param-files:{}", np), format!("overlap:{}", overlap_key.is_some()), format!("runs:{}", n)],
                evals,
                sample: Some(case()),
            })
        }
        Err((msg, sig)) => CaseResult::Fail(Failure { msg, sig, case: case() }),
    }
}

pub fn run(tier: Tier, seed: u64) -> i32 {
    let spec = EvidenceSpec {
        rule: "A generated top-level map and a document-directed core rules file plus rules that walk the top-level map as a whole (`some this.* == v` and `this[ keys == 'k' ] !empty` per key, `count(this.*)`, `this.* !is_struct`); the map's keys are distributed at random over the data file and 1-3 parameter files; validate is run with -i in every order (<=2 files) or 4 orders (3 files) in five modes (plain and --structured, with -r/-d files and with --payload; --structured over the data file and a copy of it in one run) and compared with validating the pre-merged document through the same mode: same exit code, same PASS/FAIL/SKIP sets and file status. Parameter files are JSON or block YAML (.yaml/.yml), given one by one or as the directory that holds them (beside a .txt file that must not be used). In a quarter of the cases one key is put into two sources, with the same or another value (parameter/parameter or parameter/data): the run must exit with an error (not 0, not 19), the diagnostic must name the key, and no verdict may be printed. Stage 'raw-scalars': 26 YAML scalar spellings on which YAML versions and loaders disagree (`True`, `0x1F`, `.inf`, `010`, `~`, `Yes`, 2^63, ..) written both into a parameter file and into the data: `-i params` must give the verdicts (equality of the two sides, is_* tests) of the concatenated text. Non-trivial: keys come both from parameter files and from data, and there are >=2 parameter files; distinct by hash of rules, merged document and the overlapping key.".into(),
        assumptions: vec!["verdict comparison is by rule status sets (the merge order of keys is not part of the property)".into()],
    };
    execute("C17", tier, seed, spec, &replay, &|run: &Session| {
        let sz = tier.pick(Size::quick(), Size::thorough());
        run.run_enum("raw-scalars", RAW_SCALARS.len() * 3, raw_case);
        run.run_random("splits", tier.pick(30_000, 600_000), 1200, |u| random_case(u, sz));
    })
}
