//! C19 — generated rules describe the template they were generated from (rulegen round trip).
use crate::choices::Choices;
use crate::docw::{write_doc, Style};
use crate::drive::*;
use crate::engine::*;
use crate::model::St;
use crate::val::V;
use serde_json::{json, Value as J};
use std::collections::BTreeMap;

const TYPES: [&str; 3] = ["AWS::S3::Bucket", "AWS::EC2::Volume", "AWS::IAM::Role"];
const PROPS: [&str; 6] = ["Name", "Size", "Encrypted", "Tags", "Config", "Zone"];
const STRS: [&str; 18] = ["abc", "a-b", "with space", "007", "true", "it's", "x/y", "AWS::S3::Bucket", "\u{fc}n\u{ef}", "", "us-west-2b", "a,b", "[x]", "CORP\\build-agents", "tab\there", " padded ", "quo\"te", "back\\"];

fn gen_scalar(u: &mut Choices, hard: bool) -> V {
    match u.weighted(&[10, 6, 4, 3]) {
        0 => {
            let n = if hard { STRS.len() } else { 15 };
            V::Str(STRS[u.below(n)].to_string())
        }
        // floats: plain, with an exponent either way (serde_json prints `1e22`, `1e-7`), negative
        // (the grammar has no negative float literal: rulegen may only answer with a diagnostic)
        3 => V::Float(*u.pick(&[2.5f64, 1.0, 0.1, 1e22, 2.5e16, 1e-7, 6.25e-5, 1.5e300, -1.5, -1e22])),
        1 => V::Int(*u.pick(&[0i64, 1, 50, 500, -1, 65536, 9007199254740993, -9007199254740993, i64::MAX, 4611686018427387905])),
        _ => V::Bool(u.chance(1, 2)),
    }
}
fn gen_prop_value(u: &mut Choices, hard: bool) -> V {
    match u.weighted(&[6, 1, 1]) {
        0 => gen_scalar(u, hard),
        1 => V::List((0..u.range(0, 3)).map(|_| gen_scalar(u, false)).collect()),
        _ => V::Map(vec![("k".into(), gen_scalar(u, false)), ("n".into(), V::List(vec![V::Int(1)]))]),
    }
}

struct Tmpl {
    doc: V,
    /// (resource name, type, property, value) of every scalar property occurrence
    scalars: Vec<(String, String, String, V)>,
    types_with_props: Vec<String>,
    hard_strings: bool,
}

fn gen_template(u: &mut Choices) -> Tmpl {
    let nt = u.range(1, 3);
    let hard = u.chance(1, 6);
    let mut res = vec![];
    let mut scalars = vec![];
    let mut types_with_props = vec![];
    let mut idx = 0;
    for t in 0..nt {
        let ty = TYPES[t];
        // all resources of a type share one property key set (finding F22 otherwise)
        let np = u.range(0, 3);
        let mut keys: Vec<&str> = vec![];
        for _ in 0..np {
            let k = PROPS[u.below(PROPS.len())];
            if !keys.contains(&k) {
                keys.push(k);
            }
        }
        let nr = u.range(1, 3);
        for _ in 0..nr {
            // logical ids in no relation to the types: resources of one type are neither adjacent
            // in the order of the ids nor (half of the time) in the document
            let name = format!("{}{}", *u.pick(&["res", "Alpha", "zeta", "M", "b", "Res"]), idx);
            idx += 1;
            let mut r = vec![("Type".to_string(), V::s(ty))];
            if !keys.is_empty() {
                let mut props = vec![];
                for k in &keys {
                    // repeated and distinct values across resources of a type
                    let v = if u.chance(1, 3) { V::s("shared") } else { gen_prop_value(u, hard) };
                    if v.is_scalar() {
                        scalars.push((name.clone(), ty.to_string(), k.to_string(), v.clone()));
                    }
                    props.push((k.to_string(), v));
                }
                r.push(("Properties".to_string(), V::Map(props)));
            }
            res.push((name, V::Map(r)));
        }
        if !keys.is_empty() {
            types_with_props.push(ty.to_string());
        }
    }
    if u.chance(1, 2) {
        for i in (1..res.len()).rev() {
            let j = u.below(i + 1);
            res.swap(i, j);
        }
    }
    let hard_strings = scalars.iter().any(|(_, _, _, v)| matches!(v, V::Str(s) if s.trim() != s || s.contains('"') || s.ends_with('\\')));
    Tmpl { doc: V::Map(vec![("Resources".to_string(), V::Map(res))]), scalars, types_with_props, hard_strings }
}

fn rule_names(rules_text: &str) -> Vec<String> {
    rules_text.lines().filter(|l| l.starts_with("rule ")).map(|l| l[5..].split(|c: char| c == ' ' || c == '{').next().unwrap_or("").to_string()).collect()
}
fn rule_of_type(ty: &str) -> String {
    ty.replace("::", "_").to_lowercase()
}

fn statuses(doc: &V, rules: &str) -> Result<BTreeMap<String, St>, String> {
    match verdict(&doc.to_json(), rules).0 {
        Verdict::Ok { rules, .. } => Ok(rules.into_iter().collect()),
        other => Err(other.short()),
    }
}

/// recorded limitations of rulegen that a template may touch (they become part of the failure
/// signature, so that only exactly these classes are excluded as known findings)
fn hazards(doc: &V) -> String {
    let mut by: BTreeMap<(String, String), Vec<V>> = BTreeMap::new();
    let mut hard = false;
    if let Some(V::Map(rs)) = doc.get("Resources") {
        for (_, r) in rs {
            let ty = match r.get("Type") {
                Some(V::Str(t)) => t.clone(),
                _ => continue,
            };
            if let Some(V::Map(ps)) = r.get("Properties") {
                for (k, v) in ps {
                    if let V::Str(s) = v {
                        if s.trim() != s || s.contains('"') || s.ends_with('\\') {
                            hard = true;
                        }
                    }
                    let e = by.entry((ty.clone(), k.clone())).or_default();
                    if !e.contains(v) {
                        e.push(v.clone());
                    }
                }
            }
        }
    }
    let mut h = vec![];
    // a property present on only some resources of a type
    let mut keysets: BTreeMap<String, Vec<Vec<String>>> = BTreeMap::new();
    if let Some(V::Map(rs)) = doc.get("Resources") {
        for (_, r) in rs {
            if let Some(V::Str(t)) = r.get("Type") {
                let mut ks: Vec<String> = match r.get("Properties") {
                    Some(V::Map(ps)) => ps.iter().map(|(k, _)| k.clone()).collect(),
                    _ => vec![],
                };
                ks.sort();
                keysets.entry(t.clone()).or_default().push(ks);
            }
        }
    }
    if keysets.values().any(|v| v.iter().any(|k| *k != v[0])) {
        h.push("partial-property");
    }
    if hard {
        h.push("string-trim-or-escape");
    }
    // strings nested in list / map property values are emitted as JSON text: a backslash or a
    // control character comes out escaped, which Guard's string literal does not undo
    fn nested_escape(v: &V, top: bool) -> bool {
        match v {
            V::Str(s) => !top && s.chars().any(|c| c == '\\' || (c as u32) < 0x20),
            V::List(l) => l.iter().any(|x| nested_escape(x, false)),
            V::Map(m) => m.iter().any(|(k, x)| k.contains('\\') || nested_escape(x, false)),
            _ => false,
        }
    }
    if let Some(V::Map(rs)) = doc.get("Resources") {
        if rs.iter().any(|(_, r)| matches!(r.get("Properties"), Some(V::Map(ps)) if ps.iter().any(|(_, v)| nested_escape(v, true)))) {
            h.push("nested-json-escape");
        }
    }
    if by.values().any(|vs| vs.len() >= 2 && vs.iter().any(|v| matches!(v, V::List(_)))) {
        h.push("list-valued-in");
    }
    h.join("+")
}

/// the predicate: given the template (text + value) and what rulegen printed
fn check_output(t_doc: &V, types_with_props: &[String], scalars: &[(String, String, String, V)], out: &str, err: &str, status: Option<i32>, hard: bool) -> Result<usize, (String, String)> {
    let _ = hard;
    let hz = hazards(t_doc);
    let sig = |s: &str| if hz.is_empty() { format!("c19:{}", s) } else { format!("c19:{}:{}", s, hz) };
    if status.is_none() || status == Some(101) || err.contains("panicked at") {
        return Err((format!("rulegen crashed: status {:?}, stderr {}", status, err.chars().take(300).collect::<String>()), "c19:crash".into()));
    }
    if out.trim().is_empty() {
        // a diagnostic instead of rules: allowed when something was said, or when there is
        // nothing to generate
        if types_with_props.is_empty() || !err.trim().is_empty() {
            return Ok(0);
        }
        return Err(("rulegen printed neither rules nor a diagnostic".into(), sig("silent")));
    }
    // (a) parses
    if !parses(out) {
        return Err((format!("the emitted rules do not parse:\n{}", out), sig("emitted-rules-do-not-parse")));
    }
    // (b) one rule per type that has properties
    let mut names = rule_names(out);
    names.sort();
    let mut want: Vec<String> = types_with_props.iter().map(|t| rule_of_type(t)).collect();
    want.sort();
    if names != want {
        return Err((format!("rules {:?} emitted, one per type with properties expected: {:?}", names, want), sig("rule-set")));
    }
    // (c) the source template passes every emitted rule
    let base = statuses(t_doc, out).map_err(|e| (format!("validating the template against its own rules: {}", e), sig("self-validate-error")))?;
    for (n, s) in &base {
        if *s != St::Pass {
            return Err((format!("rule {} generated from the template is {} on that same template:\n{}", n, s.text(), out), sig("own-template-not-pass")));
        }
    }
    // (d) a fresh value for one scalar property occurrence makes exactly that type's rule FAIL
    let mut mutated = 0;
    for (k, (res, ty, prop, v)) in scalars.iter().enumerate() {
        // the new value: one that occurs nowhere in the template, or (every other occurrence) a
        // scalar that the template holds for ANOTHER property of the same type but not for this one
        let borrowed = scalars
            .iter()
            .filter(|(_, t2, p2, v2)| t2 == ty && p2 != prop && !scalars.iter().any(|(_, t3, p3, v3)| t3 == ty && p3 == prop && v3 == v2))
            .map(|(_, _, _, v2)| v2.clone())
            .next();
        let fresh = match (k % 2 == 1, borrowed) {
            (true, Some(b)) => b,
            _ => match v {
                V::Str(_) => V::s("zz-fresh-value"),
                V::Int(_) => V::Int(987654),
                V::Float(_) => V::Float(987.25),
                V::Bool(_) => V::s("zz-not-a-bool"),
                _ => continue,
            },
        };
        let fresh_text = fresh.to_json();
        let mut d2 = t_doc.clone();
        if let V::Map(top) = &mut d2 {
            if let Some((_, V::Map(rs))) = top.iter_mut().find(|(k, _)| k == "Resources") {
                if let Some((_, V::Map(r))) = rs.iter_mut().find(|(k, _)| k == res) {
                    if let Some((_, V::Map(ps))) = r.iter_mut().find(|(k, _)| k == "Properties") {
                        if let Some((_, pv)) = ps.iter_mut().find(|(k, _)| k == prop) {
                            *pv = fresh.clone();
                        }
                    }
                }
            }
        }
        let st = statuses(&d2, out).map_err(|e| (format!("validating a mutated template: {}", e), sig("mutant-validate-error")))?;
        let rn = rule_of_type(ty);
        for (n, s) in &st {
            let want = if *n == rn { St::Fail } else { St::Pass };
            if *s != want {
                return Err((
                    format!("after changing {}.Properties.{} from {} to {} (not a value of that property of that type in the template), rule {} is {} (expected {}):\n{}", res, prop, v.to_json(), fresh_text, n, s.text(), want.text(), out),
                    sig("mutation-not-detected"),
                ));
            }
        }
        mutated += 1;
    }
    Ok(mutated)
}

fn run_rulegen(text: &str, ext: &str) -> Proc {
    let dir = fresh_dir("c19");
    let p = dir.join(format!("template.{}", ext));
    write_file(&p, text);
    spawn_tool(&["rulegen".to_string(), "-t".to_string(), p.to_string_lossy().to_string()], b"", &[], None, 30)
}

pub fn replay(case: &J) -> CaseResult {
    let doc = match V::parse_json(case["doc"].as_str().unwrap_or("")) {
        Some(d) => d,
        None => return CaseResult::Discard("bad-replay"),
    };
    let p = run_rulegen(case["text"].as_str().unwrap_or(""), case["ext"].as_str().unwrap_or("json"));
    let types: Vec<String> = case["types_with_props"].as_array().map(|a| a.iter().map(|x| x.as_str().unwrap_or("").to_string()).collect()).unwrap_or_default();
    let scalars: Vec<(String, String, String, V)> = case["scalars"]
        .as_array()
        .map(|a| a.iter().map(|s| (s[0].as_str().unwrap_or("").to_string(), s[1].as_str().unwrap_or("").to_string(), s[2].as_str().unwrap_or("").to_string(), V::from_json(&s[3]))).collect())
        .unwrap_or_default();
    match check_output(&doc, &types, &scalars, &p.out_s(), &p.err_s(), p.status, case["hard_strings"].as_bool().unwrap_or(false)) {
        Ok(_) => CaseResult::Pass(Info::default()),
        Err((msg, sig)) => CaseResult::Fail(Failure { msg, sig, case: case.clone() }),
    }
}

fn random_case(u: &mut Choices) -> CaseResult {
    let t = gen_template(u);
    let yaml = u.chance(1, 2);
    let (text, ext) = if yaml { (write_doc(&t.doc, Style::YamlBlock, u, true).text, "yaml") } else { (t.doc.to_json(), "json") };
    let p = run_rulegen(&text, ext);
    let case = || {
        json!({"doc": t.doc.to_json(), "text": text, "ext": ext, "types_with_props": t.types_with_props, "hard_strings": t.hard_strings,
               "scalars": t.scalars.iter().map(|(a, b, c, v)| json!([a, b, c, v.to_serde()])).collect::<Vec<_>>()})
    };
    match check_output(&t.doc, &t.types_with_props, &t.scalars, &p.out_s(), &p.err_s(), p.status, t.hard_strings) {
        Ok(mutated) => {
            // >=2 resources of one type with different values for a property, and a nested value
            let mut by: BTreeMap<(String, String), Vec<String>> = BTreeMap::new();
            for (_, ty, prop, v) in &t.scalars {
                by.entry((ty.clone(), prop.clone())).or_default().push(v.to_json());
            }
            let distinct = by.values().any(|vs| {
                let mut s = vs.clone();
                s.sort();
                s.dedup();
                s.len() >= 2
            });
            let nested = t.doc.depth() >= 4;
            CaseResult::Pass(Info {
                nontrivial: distinct && nested && mutated > 0,
                key: hash_case(&[&text]),
                classes: vec![format!("format:{}", ext), format!("types-with-props:{}", t.types_with_props.len()), format!("mutations-checked:{}", mutated.min(4)), format!("hard-strings:{}", t.hard_strings)],
                evals: 2 + mutated as u64,
                sample: Some(json!({"template": text, "rules": p.out_s()})),
            })
        }
        Err((msg, sig)) => CaseResult::Fail(Failure { msg, sig, case: case() }),
    }
}

pub fn run(tier: Tier, seed: u64) -> i32 {
    let spec = EvidenceSpec {
        rule: "Generated CloudFormation-shaped templates: 1-3 resource types x 1-3 resources each, 0-3 properties per type (all resources of a type share the key set), values: strings (dashes, blanks, digits-only, quotes, unicode, empty; one case in six also blank-padded / quote / backslash strings), ints, bools, lists and maps; a third of the values shared across resources; written as JSON or block YAML with random layout. `cfn-guard rulegen` (real binary) must either print a diagnostic and no rules, or rules that (a) parse (parse-tree), (b) are exactly one rule per type with properties, (c) all PASS on the source template (run_checks), and (d) for every scalar property occurrence, replacing the value by one not present in the template, or by a value the template holds only for another property of that type, makes exactly that type's rule FAIL. Non-trivial: two resources of a type differ in a property, a nested value is present, and at least one mutation was checked; distinct by template text.".into(),
        assumptions: vec!["properties present on only some resources of a type are excluded by construction (recorded finding F22: rulegen emits a clause every resource of the type must satisfy)".into()],
    };
    execute("C19", tier, seed, spec, &replay, &|run: &Session| {
        run.shrink_iters.store(120, std::sync::atomic::Ordering::Relaxed);
        run.run_random("templates", tier.pick(12_000, 200_000), 300, random_case);
    })
}
