//! Harness-side document values (independent of the crate's PathAwareValue / serde types).
use std::fmt::Write;

#[derive(Clone, Debug)]
pub enum V {
    Null,
    Bool(bool),
    Int(i64),
    Float(f64),
    Str(String),
    List(Vec<V>),
    Map(Vec<(String, V)>),
}

impl PartialEq for V {
    fn eq(&self, o: &V) -> bool {
        match (self, o) {
            (V::Null, V::Null) => true,
            (V::Bool(a), V::Bool(b)) => a == b,
            (V::Int(a), V::Int(b)) => a == b,
            (V::Float(a), V::Float(b)) => a.to_bits() == b.to_bits() || a == b,
            (V::Str(a), V::Str(b)) => a == b,
            (V::List(a), V::List(b)) => a == b,
            // ordered, exact
            (V::Map(a), V::Map(b)) => a == b,
            _ => false,
        }
    }
}

#[derive(Clone, Copy, Debug, PartialEq, Eq, Hash, PartialOrd, Ord)]
pub enum Ty {
    Null,
    Bool,
    Int,
    Float,
    Str,
    List,
    Map,
}

impl V {
    pub fn ty(&self) -> Ty {
        match self {
            V::Null => Ty::Null,
            V::Bool(_) => Ty::Bool,
            V::Int(_) => Ty::Int,
            V::Float(_) => Ty::Float,
            V::Str(_) => Ty::Str,
            V::List(_) => Ty::List,
            V::Map(_) => Ty::Map,
        }
    }
    pub fn s(x: &str) -> V {
        V::Str(x.to_string())
    }
    pub fn get(&self, k: &str) -> Option<&V> {
        match self {
            V::Map(m) => m.iter().find(|(kk, _)| kk == k).map(|(_, v)| v),
            _ => None,
        }
    }
    pub fn is_scalar(&self) -> bool {
        !matches!(self, V::List(_) | V::Map(_))
    }
    pub fn depth(&self) -> usize {
        match self {
            V::List(l) => 1 + l.iter().map(|x| x.depth()).max().unwrap_or(0),
            V::Map(m) => 1 + m.iter().map(|(_, x)| x.depth()).max().unwrap_or(0),
            _ => 0,
        }
    }
    pub fn nodes(&self) -> usize {
        match self {
            V::List(l) => 1 + l.iter().map(|x| x.nodes()).sum::<usize>(),
            V::Map(m) => 1 + m.iter().map(|(_, x)| x.nodes()).sum::<usize>(),
            _ => 1,
        }
    }
    /// Equality of loaded values irrespective of map key order (used when comparing dumps whose key
    /// order is not under test).
    pub fn eq_unordered(&self, o: &V) -> bool {
        match (self, o) {
            (V::Map(a), V::Map(b)) => {
                a.len() == b.len()
                    && a.iter().all(|(k, v)| b.iter().any(|(k2, v2)| k == k2 && v.eq_unordered(v2)))
            }
            (V::List(a), V::List(b)) => a.len() == b.len() && a.iter().zip(b).all(|(x, y)| x.eq_unordered(y)),
            _ => self == o,
        }
    }

    /// Compact JSON text. Floats are printed so that they re-parse to the same f64 and are always
    /// recognisably floats (contain '.' or 'e').
    pub fn to_json(&self) -> String {
        let mut s = String::new();
        self.write_json(&mut s);
        s
    }
    pub fn write_json(&self, s: &mut String) {
        match self {
            V::Null => s.push_str("null"),
            V::Bool(b) => {
                let _ = write!(s, "{}", b);
            }
            V::Int(i) => {
                let _ = write!(s, "{}", i);
            }
            V::Float(f) => s.push_str(&fmt_float(*f)),
            V::Str(x) => write_json_str(s, x),
            V::List(l) => {
                s.push('[');
                for (i, x) in l.iter().enumerate() {
                    if i > 0 {
                        s.push(',');
                    }
                    x.write_json(s);
                }
                s.push(']');
            }
            V::Map(m) => {
                s.push('{');
                for (i, (k, x)) in m.iter().enumerate() {
                    if i > 0 {
                        s.push(',');
                    }
                    write_json_str(s, k);
                    s.push(':');
                    x.write_json(s);
                }
                s.push('}');
            }
        }
    }

    pub fn from_json(j: &serde_json::Value) -> V {
        use serde_json::Value as J;
        match j {
            J::Null => V::Null,
            J::Bool(b) => V::Bool(*b),
            J::Number(n) => {
                if let Some(i) = n.as_i64() {
                    V::Int(i)
                } else if let Some(u) = n.as_u64() {
                    V::Float(u as f64)
                } else {
                    V::Float(n.as_f64().unwrap_or(f64::NAN))
                }
            }
            J::String(s) => V::Str(s.clone()),
            J::Array(a) => V::List(a.iter().map(V::from_json).collect()),
            J::Object(o) => V::Map(o.iter().map(|(k, v)| (k.clone(), V::from_json(v))).collect()),
        }
    }
    pub fn parse_json(text: &str) -> Option<V> {
        serde_json::from_str::<serde_json::Value>(text).ok().map(|j| V::from_json(&j))
    }
    pub fn to_serde(&self) -> serde_json::Value {
        serde_json::from_str(&self.to_json()).expect("own json")
    }

    /// All paths into the value (as segment lists), including the root path.
    pub fn paths(&self) -> Vec<Vec<Seg>> {
        let mut out = vec![];
        fn rec(v: &V, pre: &mut Vec<Seg>, out: &mut Vec<Vec<Seg>>) {
            out.push(pre.clone());
            match v {
                V::Map(m) => {
                    for (k, x) in m {
                        pre.push(Seg::K(k.clone()));
                        rec(x, pre, out);
                        pre.pop();
                    }
                }
                V::List(l) => {
                    for (i, x) in l.iter().enumerate() {
                        pre.push(Seg::I(i));
                        rec(x, pre, out);
                        pre.pop();
                    }
                }
                _ => {}
            }
        }
        rec(self, &mut vec![], &mut out);
        out
    }
    pub fn at(&self, p: &[Seg]) -> Option<&V> {
        let mut v = self;
        for s in p {
            v = match (s, v) {
                (Seg::K(k), V::Map(_)) => v.get(k)?,
                (Seg::I(i), V::List(l)) => l.get(*i)?,
                _ => return None,
            };
        }
        Some(v)
    }
    /// Resolve a slash-separated pointer as the tool prints them ("" or "/a/0/b").
    pub fn pointer(&self, p: &str) -> Option<&V> {
        if p.is_empty() {
            return Some(self);
        }
        let mut v = self;
        for seg in p.strip_prefix('/')?.split('/') {
            v = match v {
                V::Map(_) => v.get(seg)?,
                V::List(l) => l.get(seg.parse::<usize>().ok()?)?,
                _ => return None,
            };
        }
        Some(v)
    }
    pub fn scalars(&self, out: &mut Vec<V>) {
        match self {
            V::List(l) => l.iter().for_each(|x| x.scalars(out)),
            V::Map(m) => m.iter().for_each(|(_, x)| x.scalars(out)),
            x => out.push(x.clone()),
        }
    }
}

#[derive(Clone, Debug, PartialEq, Eq)]
pub enum Seg {
    K(String),
    I(usize),
}

pub fn fmt_float(f: f64) -> String {
    // Rust's Debug prints the shortest representation that round-trips, with ".0" for integral
    // values and exponent form for very large/small ones ("1e308", "5e-324").
    let s = format!("{:?}", f);
    s
}

pub fn write_json_str(s: &mut String, x: &str) {
    s.push('"');
    for c in x.chars() {
        match c {
            '"' => s.push_str("\\\""),
            '\\' => s.push_str("\\\\"),
            '\n' => s.push_str("\\n"),
            '\r' => s.push_str("\\r"),
            '\t' => s.push_str("\\t"),
            c if (c as u32) < 0x20 => {
                let _ = write!(s, "\\u{:04x}", c as u32);
            }
            c => s.push(c),
        }
    }
    s.push('"');
}

pub fn json_str(x: &str) -> String {
    let mut s = String::new();
    write_json_str(&mut s, x);
    s
}

/// Stable 64-bit FNV-1a hash (for distinctness counting and replay file names).
pub fn fnv(bytes: &[u8]) -> u64 {
    let mut h: u64 = 0xcbf29ce484222325;
    for b in bytes {
        h ^= *b as u64;
        h = h.wrapping_mul(0x100000001b3);
    }
    h
}
