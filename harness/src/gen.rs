//! Shared generators (DESIGN section 3): documents and rule programs, decoded from a choice stream.
use crate::ast::*;
use crate::choices::Choices;
use crate::val::{Seg, V};

// Key universe: no two keys share a lower-cased alphanumeric skeleton (the evaluator's case
// conversion fallback is then unobservable); none parses as an integer; none starts with a
// keyword of the grammar (in, or, not, this, when, let, some, exists, empty, is_, keys, rule).
pub const KEYS: [&str; 8] = ["a", "b", "c", "k", "items", "tags", "name", "port"];

pub fn scalar_universe() -> Vec<V> {
    vec![
        V::Int(1),
        V::Int(2),
        V::s("a"),
        V::Bool(true),
        V::Null,
        V::Int(5),
        V::s("b"),
        V::s(""),
        V::Float(1.5),
        V::s("ab"),
        V::Int(0),
        V::Int(-1),
        V::Int(10),
        V::Int(443),
        V::Bool(false),
        V::Float(0.5),
        V::Float(2.0),
        V::Float(10.25),
        V::s("abc"),
        V::s("x1"),
        V::s("prod"),
        V::s("a\u{e4}"),
        V::s("10"),
        V::Int(i64::MAX),
    ]
}

#[derive(Clone, Copy, Debug)]
pub struct Size {
    pub doc_depth: usize,
    pub doc_width: usize,
    pub rules: usize,
    pub lines: usize,
    pub alts: usize,
    pub nest: usize,
    /// multi-word keys of the document may be queried in another naming convention (the tool then
    /// finds them through its case converters); only for checks that compare the tool with itself
    pub alt_case: bool,
    /// core files may carry clauses outside any rule (the implicit `default` rule)
    pub default_rule: bool,
    /// parameterised rules of wide files may call parameterised rules defined before them
    pub nested_calls: bool,
}
impl Size {
    pub fn quick() -> Size {
        Size { doc_depth: 3, doc_width: 4, rules: 4, lines: 3, alts: 3, nest: 2, alt_case: false, default_rule: false, nested_calls: false }
    }
    pub fn thorough() -> Size {
        Size { doc_depth: 5, doc_width: 5, rules: 4, lines: 4, alts: 3, nest: 3, alt_case: false, default_rule: false, nested_calls: false }
    }
}

/// The type-guard idiom of real rule sets: 2-3 rules, each guarded at rule level by
/// `when Resources.*[ Type == 'T' ] !empty` for a different T (the same query path with different
/// filters; one T may be absent from the document), with a file-level `let` counting the resources
/// of that type through a function call, and a parameterised rule called from a guard. These are the
/// queries that are evaluated against the file scope directly. Rules are inserted at random places.
pub fn add_type_guard_idiom(u: &mut Choices, file: &mut File, doc: &V) {
    let mut types = doc_types(doc);
    types.push("AWS::No::Such".to_string());
    let n = file.rules.len();
    let k = (2 + u.below(2)).min(types.len());
    let rot = u.below(types.len());
    types.rotate_left(rot);
    let sel = |ty: &str| Query {
        head: Head::Key("Resources".into()),
        parts: vec![Part::Star, Part::Filter(vec![vec![Item::Clause(cl_bin(q_key(&["Type"]), BinOp::Eq, false, Lit::V(V::s(ty))))]])],
    };
    let with_call = u.chance(1, 2);
    if with_call {
        file.prules.push(PRule {
            name: format!("tg{}p", n),
            params: vec!["tgsel".into()],
            lets: vec![],
            body: vec![vec![Item::Clause(cl_un(Query { head: Head::Var("tgsel".into()), parts: vec![] }, UnOp::Empty, true))]],
        });
    }
    for (i, ty) in types.iter().take(k).enumerate() {
        let cnt = format!("tg{}c{}", n, i);
        file.lets.push(Let { name: cnt.clone(), value: Expr::Call(Call { name: "count".into(), args: vec![Expr::Query { some: false, q: sel(ty) }] }) });
        let guard: Cnf = if with_call && i % 2 == 1 {
            vec![vec![Item::PCall { neg: false, name: format!("tg{}p", n), args: vec![Expr::Query { some: false, q: sel(ty) }], msg: None }]]
        } else {
            vec![vec![Item::Clause(cl_un(sel(ty), UnOp::Empty, true))]]
        };
        let body = vec![vec![Item::Clause(cl_bin(Query { head: Head::Var(cnt), parts: vec![] }, *u.pick(&[BinOp::Ge, BinOp::Eq, BinOp::Lt]), false, Lit::V(V::Int(u.below(3) as i64))))]];
        let at = u.below(file.rules.len() + 1);
        file.rules.insert(at, Rule { name: format!("tg{}r{}", n, i), when: Some(guard), lets: vec![], body });
    }
}

/// The key-capture idiom: a rule that captures the keys of the resources of one type
/// (`Resources[ capN | Type == 'T' ] !empty`), a file-level `let` counting the captured keys, and a
/// rule that refers to the capturing rule and then uses both variables. Appended to `file`.
pub fn add_capture_idiom(u: &mut Choices, file: &mut File, doc: &V) {
    let types = doc_types(doc);
    let n = file.rules.len();
    let ty = if !types.is_empty() && u.chance(4, 5) { types[u.below(types.len())].clone() } else { "AWS::No::Such".to_string() };
    // a quarter of the captures use the name of an existing file-level query variable: whatever
    // that means, every reference to the name must see the same value
    let existing: Vec<String> = file.lets.iter().filter(|l| matches!(l.value, Expr::Query { .. })).map(|l| l.name.clone()).collect();
    let collide = !existing.is_empty() && u.chance(1, 4);
    let cap = if collide { existing[u.below(existing.len())].clone() } else { format!("cap{}", n) };
    let cnt = format!("cap{}n", n);
    let def = format!("capdef{}", n);
    // either the keys of one map (the resources of a type) or of several maps at once (the property
    // names of every resource: equal names at different paths)
    let capq = if u.chance(1, 2) {
        let filt = vec![vec![Item::Clause(cl_bin(q_key(&["Type"]), BinOp::Eq, false, Lit::V(V::Str(ty))))]];
        Query { head: Head::Key("Resources".into()), parts: vec![Part::CapFilter(cap.clone(), filt)] }
    } else {
        let filt = vec![vec![Item::Clause(cl_un(Query { head: Head::This, parts: vec![] }, UnOp::Exists, false))]];
        Query { head: Head::Key("Resources".into()), parts: vec![Part::Star, Part::Key("Properties".into()), Part::CapFilter(cap.clone(), filt)] }
    };
    file.lets.push(Let { name: cnt.clone(), value: Expr::Call(Call { name: "count".into(), args: vec![Expr::Query { some: false, q: Query { head: Head::Var(cap.clone()), parts: vec![] } }] }) });
    let def_rule = Rule { name: def.clone(), when: None, lets: vec![], body: vec![vec![Item::Clause(cl_un(capq, if u.chance(1, 2) { UnOp::Empty } else { UnOp::Exists }, u.chance(1, 2)))]] };
    let k = u.below(6) as i64;
    let mut body = vec![vec![Item::Ref { neg: false, name: def.clone(), msg: None }]];
    if u.chance(1, 3) {
        body[0].push(Item::Ref { neg: true, name: def.clone(), msg: None });
    }
    body.push(vec![Item::Clause(cl_bin(Query { head: Head::Var(cnt), parts: vec![] }, *u.pick(&[BinOp::Eq, BinOp::Le, BinOp::Gt]), false, Lit::V(V::Int(k))))]);
    if u.chance(1, 2) {
        body.push(vec![Item::Clause(cl_un(Query { head: Head::Var(cap.clone()), parts: vec![] }, UnOp::Empty, true))]);
    }
    if u.chance(1, 2) {
        body.push(vec![Item::Clause(cl_bin(Query { head: Head::Var(cap.clone()), parts: vec![] }, BinOp::In, false, Lit::V(V::List(vec![V::s("res0"), V::s("res1"), V::s("twin")]))))]);
    }
    // half of the idioms: a second capture variable over the same map, selecting an overlapping
    // set of entries, counted too
    if !collide && u.chance(1, 2) {
        let cap2 = format!("cap{}b", n);
        let filt2 = vec![vec![Item::Clause(cl_un(q_key(&["Type"]), UnOp::Exists, false))]];
        let q2 = Query { head: Head::Key("Resources".into()), parts: vec![Part::CapFilter(cap2.clone(), filt2)] };
        file.lets.push(Let { name: format!("cap{}bn", n), value: Expr::Call(Call { name: "count".into(), args: vec![Expr::Query { some: false, q: Query { head: Head::Var(cap2.clone()), parts: vec![] } }] }) });
        let def2 = Rule { name: format!("capdef{}b", n), when: None, lets: vec![], body: vec![vec![Item::Clause(cl_un(q2, UnOp::Empty, true))]] };
        body.insert(1, vec![Item::Ref { neg: false, name: format!("capdef{}b", n), msg: None }]);
        let k2 = u.below(5) as i64;
        body.push(vec![Item::Clause(cl_bin(Query { head: Head::Var(format!("cap{}bn", n)), parts: vec![] }, *u.pick(&[BinOp::Eq, BinOp::Ge, BinOp::Lt]), false, Lit::V(V::Int(k2))))]);
        let at = u.below(file.rules.len() + 1);
        file.rules.insert(at, def2);
    }
    let use_rule = Rule { name: format!("capuse{}", n), when: None, lets: vec![], body };
    if collide {
        // two observers of the shared name, one first and one last in the file
        let obs = |nm: String, cap: &str| Rule {
            name: nm,
            when: None,
            lets: vec![],
            body: vec![vec![
                Item::Clause(Clause { some: true, ..cl_bin(Query { head: Head::Var(cap.to_string()), parts: vec![] }, BinOp::In, false, Lit::V(V::List(vec![V::s("res0"), V::s("res1"), V::s("twin")]))) }),
            ]],
        };
        file.rules.insert(0, obs(format!("capobs{}a", n), &cap));
        file.rules.push(obs(format!("capobs{}b", n), &cap));
    }
    // either order in the file
    if u.chance(1, 2) {
        file.rules.push(def_rule);
        file.rules.push(use_rule);
    } else {
        file.rules.push(use_rule);
        file.rules.push(def_rule);
    }
}

/// the same words in four naming conventions: [Pascal, snake, camel, kebab]
pub const CASE_FAMILIES: [[&str; 4]; 2] = [["SizeLimit", "size_limit", "sizeLimit", "size-limit"], ["LogLevel", "log_level", "logLevel", "log-level"]];

/// Adds, to the top-level map and to every resource's Properties, a non-empty subset of the
/// spellings of one or two key families, each spelling with a value of its own.
pub fn add_case_families(u: &mut Choices, doc: &mut V) {
    fn add(u: &mut Choices, m: &mut Vec<(String, V)>) {
        for fam in CASE_FAMILIES.iter() {
            if !u.chance(2, 3) {
                continue;
            }
            let mut any = false;
            for (i, k) in fam.iter().enumerate() {
                if u.chance(1, 2) || (i == 3 && !any) {
                    any = true;
                    m.retain(|(kk, _)| kk != k);
                    m.push((k.to_string(), [V::Int(i as i64 + 1), V::s(&format!("v{}", i)), V::Bool(i % 2 == 0)][u.below(3)].clone()));
                }
            }
        }
    }
    if let V::Map(m) = doc {
        add(u, m);
        if let Some((_, V::Map(res))) = m.iter_mut().find(|(k, _)| k == "Resources") {
            for (_, r) in res.iter_mut() {
                if let V::Map(rm) = r {
                    if let Some((_, V::Map(pm))) = rm.iter_mut().find(|(k, _)| k == "Properties") {
                        add(u, pm);
                    }
                }
            }
        }
    }
}

/// per-case size class: small programs are as important as big ones (and pass more often)
pub fn scaled(u: &mut Choices, sz: Size) -> Size {
    match u.weighted(&[3, 3, 2]) {
        0 => Size { rules: sz.rules.min(2), lines: 2, alts: 2, nest: 1, ..sz },
        1 => Size { rules: sz.rules.min(3), lines: sz.lines.min(3), alts: 2, nest: sz.nest.min(2), ..sz },
        _ => sz,
    }
}

pub fn gen_scalar(u: &mut Choices) -> V {
    let su = scalar_universe();
    // the first 10 are the common ones
    if u.chance(3, 4) {
        su[u.below(10)].clone()
    } else {
        su[u.below(su.len())].clone()
    }
}

pub fn gen_value(u: &mut Choices, depth: usize, sz: &Size) -> V {
    let w = if depth >= sz.doc_depth { [1, 0, 0] } else { [3, 3, 4] };
    match u.weighted(&w) {
        0 => gen_scalar(u),
        1 => {
            let n = u.below(sz.doc_width);
            // lists of maps are the interesting shape for filters
            let of_maps = u.chance(1, 3);
            V::List((0..n).map(|_| if of_maps && depth + 1 < sz.doc_depth { gen_map(u, depth + 1, sz, 1) } else { gen_value(u, depth + 1, sz) }).collect())
        }
        _ => gen_map(u, depth, sz, 0),
    }
}

pub fn gen_map(u: &mut Choices, depth: usize, sz: &Size, min: usize) -> V {
    let n = u.range(min, sz.doc_width.min(KEYS.len()));
    let mut keys: Vec<&str> = vec![];
    for _ in 0..n {
        let k = KEYS[u.below(KEYS.len())];
        if !keys.contains(&k) {
            keys.push(k);
        }
    }
    V::Map(keys.into_iter().map(|k| (k.to_string(), gen_value(u, depth + 1, sz))).collect())
}

pub fn gen_doc(u: &mut Choices, sz: &Size) -> V {
    gen_map(u, 0, sz, 2)
}

// ------------------------------------------------------------------------------------------------
// literals

pub fn lit_universe() -> Vec<Lit> {
    let v = |x: V| Lit::V(x);
    vec![
        v(V::Int(1)),
        v(V::Int(2)),
        v(V::s("a")),
        v(V::Bool(true)),
        v(V::Null),
        v(V::Int(5)),
        v(V::s("b")),
        v(V::s("")),
        v(V::Float(1.5)),
        v(V::List(vec![V::Int(1), V::Int(2)])),
        v(V::List(vec![V::s("a"), V::s("b")])),
        Lit::Regex("a".into()),
        Lit::RangeI(1, 5, true, true),
        v(V::List(vec![V::Int(1)])),
        v(V::Map(vec![("k".into(), V::Int(1))])),
        v(V::List(vec![])),
        v(V::s("ab")),
        v(V::Int(0)),
        v(V::Bool(false)),
        Lit::Regex("^a.*c$".into()),
        Lit::RangeI(1, 5, false, false),
        Lit::RangeF(0.5, 2.0, true, false),
        v(V::Int(10)),
        v(V::Float(2.0)),
        v(V::List(vec![V::List(vec![V::Int(1)]), V::List(vec![V::Int(1), V::Int(2)])])),
        Lit::List(vec![Lit::Regex("^a".into()), Lit::V(V::s("b"))]),
        v(V::Map(vec![])),
        v(V::s("abc")),
    ]
}

pub fn gen_lit(u: &mut Choices, doc_vals: &[V]) -> Lit {
    // document-directed: a value that occurs in the document (when expressible)
    if !doc_vals.is_empty() && u.chance(2, 5) {
        let v = &doc_vals[u.below(doc_vals.len())];
        if v_expressible(v) && v.nodes() <= 6 {
            return Lit::V(v.clone());
        }
    }
    let lu = lit_universe();
    if u.chance(2, 3) {
        lu[u.below(16)].clone()
    } else {
        lu[u.below(lu.len())].clone()
    }
}

// ------------------------------------------------------------------------------------------------
// core programs

#[derive(Clone, Copy, PartialEq, Debug)]
pub enum RefCtx {
    /// directly in a rule body: rule references allowed, `when` bodies too
    RuleBody,
    /// directly in the body of a rule-level `when`
    WhenBody,
    /// inside query blocks / filters / nested whens: no bare rule references
    Inner,
}

#[derive(Clone, Default)]
pub struct Vars {
    pub qvars: Vec<String>,
    pub lvars: Vec<(String, Lit)>,
}

pub struct PGen<'a> {
    pub sz: Size,
    pub doc: &'a V,
    pub doc_vals: Vec<V>,
    /// rule names that may be referenced from the rule being generated
    pub refs: Vec<String>,
    pub counter: usize,
    /// generate prefix `not` on binary clauses (F1 territory)
    pub prefneg_binary: bool,
    pub wide: bool,
    /// parameterised rules callable from here: (name, arity)
    pub prules: Vec<(String, usize)>,
    /// unique custom messages on clauses (C09)
    pub messages: bool,
}

fn subvalues(v: &V, out: &mut Vec<V>) {
    out.push(v.clone());
    match v {
        V::List(l) => l.iter().for_each(|x| subvalues(x, out)),
        V::Map(m) => m.iter().for_each(|(_, x)| subvalues(x, out)),
        _ => {}
    }
}

impl<'a> PGen<'a> {
    pub fn new(doc: &'a V, sz: Size) -> Self {
        let mut dv = vec![];
        subvalues(doc, &mut dv);
        dv.remove(0);
        PGen { sz, doc, doc_vals: dv, refs: vec![], counter: 0, prefneg_binary: true, wide: false, prules: vec![], messages: false }
    }

    fn fresh(&mut self, p: &str) -> String {
        self.counter += 1;
        format!("{}{}", p, self.counter)
    }

    /// query parts (first is always a key) directed at `ctx` when given
    pub fn gen_parts(&mut self, u: &mut Choices, ctx: Option<&V>, depth: usize) -> Vec<Part> {
        let mut parts: Vec<Part> = vec![];
        let paths: Vec<Vec<Seg>> = ctx.map(|c| c.paths().into_iter().filter(|p| !p.is_empty()).collect()).unwrap_or_default();
        if !paths.is_empty() && u.chance(7, 10) {
            let p = &paths[u.below(paths.len())];
            let take = u.range(1, 3.min(p.len()));
            for s in p.iter().take(take) {
                match s {
                    Seg::I(i) => parts.push(match u.weighted(&[4, 2, 2]) {
                        0 => Part::AllIdx,
                        1 => Part::Idx(*i as i32),
                        _ => Part::Star,
                    }),
                    Seg::K(k) if CASE_FAMILIES.iter().any(|f| f.contains(&k.as_str())) && (k.contains('-') || (self.sz.alt_case && u.chance(2, 3))) => {
                        // another spelling of the same words (never the hyphenated one: not a bare key)
                        let fam = CASE_FAMILIES.iter().find(|f| f.contains(&k.as_str())).unwrap();
                        parts.push(Part::Key(fam[u.below(3)].to_string()))
                    }
                    // (the empty-string key cannot be named in a query: only wildcards reach it)
                    Seg::K(k) => parts.push(if k.is_empty() || u.chance(1, 5) { Part::Star } else { Part::Key(k.clone()) }),
                }
            }
        } else {
            parts.push(Part::Key(KEYS[u.below(KEYS.len())].to_string()));
            for _ in 0..u.below(3) {
                parts.push(match u.weighted(&[3, 2, 2, 1]) {
                    0 => Part::Key(KEYS[u.below(KEYS.len())].to_string()),
                    1 => Part::AllIdx,
                    2 => Part::Star,
                    _ => Part::Idx(u.below(3) as i32),
                });
            }
        }
        if !matches!(parts[0], Part::Key(_)) {
            parts.insert(0, Part::Key(KEYS[u.below(KEYS.len())].to_string()));
        }
        // optional filter after a `*`, `[*]` or key (never after an index or another filter)
        if depth < self.sz.nest && u.chance(1, 4) {
            let pos: Vec<usize> = parts
                .iter()
                .enumerate()
                .filter(|(_, p)| matches!(p, Part::Star | Part::AllIdx | Part::Key(_)))
                .map(|(i, _)| i + 1)
                .collect();
            if !pos.is_empty() {
                let i = pos[u.below(pos.len())];
                let sub = ctx.and_then(|c| sample_ctx(c, &parts[..i])).and_then(|v| match v {
                    V::List(l) => l.into_iter().next(),
                    V::Map(m) if matches!(parts[i - 1], Part::Key(_)) => m.into_iter().next().map(|(_, x)| x),
                    x => Some(x),
                });
                let nlines = u.range(1, 2);
                let mut cnf = vec![];
                for _ in 0..nlines {
                    let vars = Vars::default();
                    cnf.push(vec![Item::Clause(self.gen_clause(u, sub.as_ref(), depth + 1, &vars, true))]);
                }
                parts.insert(i, Part::Filter(cnf));
            }
        }
        parts
    }

    pub fn gen_query(&mut self, u: &mut Choices, ctx: Option<&V>, vars: &Vars, depth: usize, simple: bool) -> Query {
        if self.wide && depth > 0 && u.chance(1, 12) {
            // `this` / `this.k` inside blocks and filters
            let mut parts = if u.chance(1, 2) { vec![] } else { self.gen_parts(u, ctx, self.sz.nest) };
            parts.retain(|p| !matches!(p, Part::Filter(_)));
            return Query { head: Head::This, parts };
        }
        if self.wide && !simple && u.chance(1, 14) {
            // map-key filter, or an interpolated key held by a literal variable
            let mut parts = self.gen_parts(u, ctx, self.sz.nest);
            let head = match parts.remove(0) {
                Part::Key(k) => k,
                _ => unreachable!(),
            };
            parts.retain(|p| !matches!(p, Part::Filter(_)));
            let ks = KEYS[u.below(KEYS.len())];
            if u.chance(1, 2) {
                let (op, neg, rhs) = match u.below(3) {
                    0 => (BinOp::Eq, false, Lit::V(V::s(ks))),
                    1 => (BinOp::In, false, Lit::V(V::List(vec![V::s(ks), V::s("k"), V::s("a")]))),
                    _ => (BinOp::Eq, true, Lit::Regex("^a".into())),
                };
                // a keys filter directly after a key, `*` or `[*]` only (anything else is ill-typed)
                let pos = parts.iter().rposition(|p| matches!(p, Part::Key(_) | Part::Star | Part::AllIdx)).map(|i| i + 1).unwrap_or(0);
                // the right-hand side may also be a query variable: no value, one or several
                if !vars.qvars.is_empty() && u.chance(1, 3) {
                    let var = vars.qvars[u.below(vars.qvars.len())].clone();
                    let op = if matches!(rhs, Lit::Regex(_)) { BinOp::In } else { op };
                    parts.insert(pos, Part::KeysFilterVar { op, neg, var });
                    return Query { head: Head::Key(head), parts };
                }
                parts.insert(pos, Part::KeysFilter { op, neg, rhs });
                return Query { head: Head::Key(head), parts };
            } else if let Some((name, _)) = vars.lvars.iter().find(|(_, l)| matches!(l, Lit::V(V::Str(s)) if !s.is_empty())) {
                // documented shape: the interpolated key is last or followed by a key / [*]
                let pos = parts.len();
                parts.insert(pos, Part::VarKey(name.clone()));
                return Query { head: Head::Key(head), parts };
            }
        }
        if !simple && !vars.qvars.is_empty() && u.chance(1, 5) {
            let name = vars.qvars[u.below(vars.qvars.len())].clone();
            let parts = self.gen_parts(u, None, depth);
            let n = u.range(0, 2.min(parts.len() - 1));
            return Query { head: Head::Var(name), parts: parts[1..1 + n].to_vec() };
        }
        let mut parts = self.gen_parts(u, ctx, depth);
        let head = match parts.remove(0) {
            Part::Key(k) => k,
            _ => unreachable!(),
        };
        Query { head: Head::Key(head), parts }
    }

    /// the value(s) a key-headed query selects in `ctx` (first element at wildcards)
    fn selected(&self, ctx: Option<&V>, q: &Query) -> Option<V> {
        let c = ctx?;
        if let Head::Key(k) = &q.head {
            let mut ps = vec![Part::Key(k.clone())];
            ps.extend(q.parts.iter().cloned());
            sample_ctx(c, &ps)
        } else {
            None
        }
    }

    pub fn gen_clause(&mut self, u: &mut Choices, ctx: Option<&V>, depth: usize, vars: &Vars, simple: bool) -> Clause {
        let q = self.gen_query(u, ctx, vars, depth, simple);
        let some = u.chance(1, 5);
        let sel = self.selected(ctx, &q);
        // steer: with probability 1/2 aim at a clause that holds on the sampled value, so that the
        // PASS / FAIL / SKIP mix of generated rules stays balanced (DESIGN 3.2)
        let aim = sel.is_some() && u.chance(1, 2);
        if aim {
            let v = sel.clone().unwrap();
            // a list that the query will have flattened: aim at its first element
            let v1 = match &v {
                V::List(l) if !l.is_empty() && matches!(q.parts.last(), Some(Part::AllIdx) | Some(Part::Star)) => l[0].clone(),
                x => x.clone(),
            };
            let unary = |op: UnOp, opneg: bool| Kind::Unary { op, opneg };
            let bin = |op: BinOp, opneg: bool, l: Lit| Kind::Binary { op, opneg, rhs: Expr::Lit(l) };
            let expressible = v_expressible(&v1) && v1.nodes() <= 6;
            let other = gen_lit(u, &[]);
            let kind = match u.below(8) {
                0 => unary(UnOp::Exists, false),
                1 => unary(
                    match v1 {
                        V::Null => UnOp::IsNull,
                        V::Bool(_) => UnOp::IsBool,
                        V::Int(_) => UnOp::IsInt,
                        V::Float(_) => UnOp::IsFloat,
                        V::Str(_) => UnOp::IsString,
                        V::List(_) => UnOp::IsList,
                        V::Map(_) => UnOp::IsStruct,
                    },
                    false,
                ),
                2 => match &v1 {
                    V::List(l) if !l.is_empty() => unary(UnOp::Empty, true),
                    V::Map(m) if !m.is_empty() => unary(UnOp::Empty, true),
                    V::Str(s) if !s.is_empty() => unary(UnOp::Empty, true),
                    _ => unary(UnOp::Exists, false),
                },
                3 | 4 if expressible => bin(BinOp::Eq, false, Lit::V(v1.clone())),
                5 if expressible && v1.is_scalar() => bin(BinOp::In, false, Lit::V(V::List(vec![V::Int(7), v1.clone()]))),
                6 if expressible && matches!(v1, V::Int(_) | V::Float(_) | V::Str(_)) => {
                    bin(*u.pick(&[BinOp::Le, BinOp::Ge]), false, Lit::V(v1.clone()))
                }
                _ => bin(BinOp::Eq, true, other),
            };
            let prefneg = false;
            return Clause { prefneg, some, q, kind, msg: None };
        }
        if u.chance(2, 5) {
            let op = *u.pick(&[
                UnOp::Exists,
                UnOp::Empty,
                UnOp::IsString,
                UnOp::IsList,
                UnOp::IsStruct,
                UnOp::IsInt,
                UnOp::IsNull,
                UnOp::IsBool,
                UnOp::IsFloat,
                UnOp::Exists,
                UnOp::Empty,
            ]);
            return Clause { prefneg: u.chance(1, 5), some, q, kind: Kind::Unary { op, opneg: u.chance(3, 10) }, msg: None };
        }
        let (op, opneg) = *u.pick(&[
            (BinOp::Eq, false),
            (BinOp::Eq, true),
            (BinOp::In, false),
            (BinOp::In, true),
            (BinOp::Lt, false),
            (BinOp::Le, false),
            (BinOp::Gt, false),
            (BinOp::Ge, false),
            (BinOp::Eq, false),
        ]);
        let prefneg = self.prefneg_binary && u.chance(1, 6);
        // RHS directed at what the query selects
        let rhs = if !vars.lvars.is_empty() && u.chance(1, 5) {
            let (n, _) = &vars.lvars[u.below(vars.lvars.len())];
            Expr::Query { some: false, q: Query { head: Head::Var(n.clone()), parts: vec![] } }
        } else if self.wide && u.chance(1, 6) {
            // a query into the data on the right-hand side
            let rq = self.gen_query(u, ctx, &Vars::default(), self.sz.nest, true);
            Expr::Query { some: false, q: rq }
        } else {
            let selv: Vec<V> = sel
                .map(|v| match v {
                    V::List(l) if !l.is_empty() && u.chance(1, 2) => l,
                    x => vec![x],
                })
                .unwrap_or_default();
            if !selv.is_empty() && u.chance(1, 2) {
                Expr::Lit(gen_lit(u, &selv))
            } else {
                let dv = self.doc_vals.clone();
                Expr::Lit(gen_lit(u, &dv))
            }
        };
        Clause { prefneg, some, q, kind: Kind::Binary { op, opneg, rhs }, msg: None }
    }

    pub fn gen_lets(&mut self, u: &mut Choices, ctx: Option<&V>, depth: usize, prefix: &str) -> (Vec<Let>, Vars) {
        let mut lets = vec![];
        let mut vars = Vars::default();
        let n = *u.pick(&[0usize, 0, 1, 2]);
        for _ in 0..n {
            let name = self.fresh(prefix);
            if self.wide && u.chance(1, 6) {
                // a function call over a query (wide fragment): the result is a query variable
                let mut parts = self.gen_parts(u, ctx, self.sz.nest);
                let head = match parts.remove(0) {
                    Part::Key(k) => k,
                    _ => unreachable!(),
                };
                let arg = Expr::Query { some: false, q: Query { head: Head::Key(head), parts } };
                let call = match u.below(5) {
                    0 => Call { name: "count".into(), args: vec![arg] },
                    1 => Call { name: "to_upper".into(), args: vec![arg] },
                    2 => Call { name: "to_lower".into(), args: vec![arg] },
                    3 => Call { name: "parse_string".into(), args: vec![arg] },
                    _ => Call { name: "regex_replace".into(), args: vec![arg, Expr::Lit(Lit::V(V::s("^(a)(.*)$"))), Expr::Lit(Lit::V(V::s("${2}${1}")))] },
                };
                vars.qvars.push(name.clone());
                lets.push(Let { name, value: Expr::Call(call) });
                continue;
            }
            if u.chance(2, 5) {
                let dv = self.doc_vals.clone();
                let lit = gen_lit(u, &dv);
                vars.lvars.push((name.clone(), lit.clone()));
                lets.push(Let { name, value: Expr::Lit(lit) });
            } else {
                let mut parts = self.gen_parts(u, ctx, depth);
                let head = match parts.remove(0) {
                    Part::Key(k) => k,
                    _ => unreachable!(),
                };
                vars.qvars.push(name.clone());
                lets.push(Let { name, value: Expr::Query { some: u.chance(1, 5), q: Query { head: Head::Key(head), parts } } });
            }
        }
        (lets, vars)
    }

    fn gen_ref(&mut self, u: &mut Choices) -> Item {
        let name = self.refs[u.below(self.refs.len())].clone();
        let msg = if self.messages && u.chance(1, 2) { Some(self.fresh("m")) } else { None };
        Item::Ref { neg: u.chance(3, 10), name, msg }
    }

    pub fn gen_cond(&mut self, u: &mut Choices, ctx: Option<&V>, depth: usize, vars: &Vars) -> Cnf {
        // `when` conditions: clauses and rule references (single_clauses)
        let n = u.range(1, 2);
        let mut cnf = vec![];
        for _ in 0..n {
            let alts = *u.pick(&[1usize, 1, 1, 2]);
            let mut line = vec![];
            for _ in 0..alts {
                if !self.refs.is_empty() && u.chance(3, 10) {
                    line.push(self.gen_ref(u));
                } else {
                    line.push(Item::Clause(self.gen_clause(u, ctx, depth, vars, false)));
                }
            }
            cnf.push(line);
        }
        cnf
    }

    pub fn gen_item(&mut self, u: &mut Choices, ctx: Option<&V>, depth: usize, vars: &Vars, rc: RefCtx) -> Item {
        let can_nest = depth < self.sz.nest;
        let w = [
            55,
            if rc != RefCtx::Inner && !self.refs.is_empty() { 15 } else { 0 },
            if can_nest { 20 } else { 0 },
            if can_nest { 10 } else { 0 },
            if self.wide && !self.prules.is_empty() { 8 } else { 0 },
            if self.wide && rc == RefCtx::RuleBody && can_nest { 10 } else { 0 },
        ];
        match u.weighted(&w) {
            0 => {
                let mut c = self.gen_clause(u, ctx, depth, vars, false);
                if self.messages {
                    c.msg = Some(self.fresh("m"));
                }
                Item::Clause(c)
            }
            1 => self.gen_ref(u),
            4 => {
                let (name, arity) = self.prules[u.below(self.prules.len())].clone();
                let mut args = vec![];
                for _ in 0..arity {
                    if u.chance(1, 3) {
                        let dv = self.doc_vals.clone();
                        args.push(Expr::Lit(gen_lit(u, &dv)));
                    } else {
                        let q = self.gen_query(u, ctx, &Vars::default(), self.sz.nest, true);
                        args.push(Expr::Query { some: false, q });
                    }
                }
                let msg = if self.messages { Some(self.fresh("m")) } else { None };
                Item::PCall { neg: u.chance(1, 4), name, args, msg }
            }
            5 => {
                let types = doc_types(self.doc);
                let ty = if !types.is_empty() && u.chance(4, 5) { types[u.below(types.len())].clone() } else { "AWS::No::Such".to_string() };
                let res_ctx: Option<V> = self.doc.get("Resources").and_then(|r| match r {
                    V::Map(m) => m.iter().map(|(_, v)| v).find(|v| v.get("Type") == Some(&V::Str(ty.clone()))).cloned(),
                    _ => None,
                });
                let when = if u.chance(1, 4) { Some(self.gen_cond(u, ctx, depth, vars)) } else { None };
                let (lets, lv) = if u.chance(1, 4) { self.gen_lets(u, res_ctx.as_ref(), depth, "tv") } else { (vec![], Vars::default()) };
                let mut inner = vars.clone();
                inner.qvars.extend(lv.qvars);
                inner.lvars.extend(lv.lvars);
                let body = self.gen_cnf(u, res_ctx.as_ref(), depth + 1, &inner, RefCtx::Inner);
                Item::TypeBlock { ty, when, lets, body }
            }
            2 => {
                let q = self.gen_query(u, ctx, vars, depth, false);
                // context for the body: a member the query selects (when it can be sampled)
                let sub: Option<V> = match &q.head {
                    Head::Key(k) => ctx.and_then(|c| {
                        let mut ps = vec![Part::Key(k.clone())];
                        ps.extend(q.parts.iter().cloned());
                        sample_ctx(c, &ps)
                    }),
                    _ => None,
                };
                let (lets, lv) = if u.chance(3, 10) { self.gen_lets(u, sub.as_ref(), depth, "bv") } else { (vec![], Vars::default()) };
                let mut inner = vars.clone();
                inner.qvars.extend(lv.qvars);
                inner.lvars.extend(lv.lvars);
                let body = self.gen_cnf(u, sub.as_ref(), depth + 1, &inner, RefCtx::Inner);
                Item::Block { some: u.chance(1, 5), q, notempty: u.chance(1, 10), lets, body }
            }
            _ => {
                let cond = self.gen_cond(u, ctx, depth, vars);
                let (lets, lv) = if u.chance(3, 10) { self.gen_lets(u, ctx, depth, "wv") } else { (vec![], Vars::default()) };
                let mut inner = vars.clone();
                inner.qvars.extend(lv.qvars);
                inner.lvars.extend(lv.lvars);
                let brc = if rc == RefCtx::RuleBody { RefCtx::WhenBody } else { RefCtx::Inner };
                let body = self.gen_cnf(u, ctx, depth + 1, &inner, brc);
                Item::When { cond, lets, body }
            }
        }
    }

    pub fn gen_cnf(&mut self, u: &mut Choices, ctx: Option<&V>, depth: usize, vars: &Vars, rc: RefCtx) -> Cnf {
        let nl = (*u.pick(&[1usize, 1, 2, 2, 3, 4])).min(self.sz.lines);
        let mut cnf = vec![];
        for _ in 0..nl {
            let na = *u.pick(&[1usize, 1, 1, 2, 3]);
            let na = na.min(self.sz.alts);
            let mut line = vec![];
            for _ in 0..na {
                line.push(self.gen_item(u, ctx, depth, vars, rc));
            }
            cnf.push(line);
        }
        cnf
    }
}

/// Follow `parts` from `ctx`, taking the first element at wildcards and ignoring filters; used only
/// to steer generation towards paths that exist.
pub fn sample_ctx(ctx: &V, parts: &[Part]) -> Option<V> {
    let mut v = ctx.clone();
    for p in parts {
        v = match (p, &v) {
            (Part::Key(k), V::Map(_)) => v.get(k)?.clone(),
            (Part::Idx(i), V::List(l)) => l.get(*i as usize)?.clone(),
            (Part::Star, V::List(l)) | (Part::AllIdx, V::List(l)) => l.first()?.clone(),
            (Part::Star, V::Map(m)) => m.first()?.1.clone(),
            (Part::AllIdx, _) | (Part::Star, _) => v.clone(),
            (Part::Filter(_), V::List(l)) => l.first()?.clone(),
            (Part::Filter(_), _) => v.clone(),
            (Part::CapFilter(..), V::Map(m)) => m.first()?.1.clone(),
            (Part::CapFilter(..), _) => v.clone(),
            _ => return None,
        };
    }
    Some(v)
}

pub fn doc_types(doc: &V) -> Vec<String> {
    let mut out = vec![];
    if let Some(V::Map(m)) = doc.get("Resources") {
        for (_, r) in m {
            if let Some(V::Str(t)) = r.get("Type") {
                if !out.contains(t) {
                    out.push(t.clone());
                }
            }
        }
    }
    out
}

pub const CFN_TYPES: [&str; 3] = ["AWS::S3::Bucket", "AWS::EC2::Volume", "AWS::X::Y"];

/// document with an additional CloudFormation-shaped `Resources` section
pub fn gen_cfn_doc(u: &mut Choices, sz: &Size) -> V {
    let mut m = match gen_doc(u, sz) {
        V::Map(m) => m,
        _ => unreachable!(),
    };
    let n = u.range(1, 3);
    let mut res = vec![];
    for i in 0..n {
        let ty = CFN_TYPES[u.below(CFN_TYPES.len())];
        let props = gen_map(u, 1, sz, 1);
        res.push((format!("res{}", i), V::Map(vec![("Type".into(), V::s(ty)), ("Properties".into(), props)])));
    }
    m.retain(|(k, _)| k != "Resources");
    m.push(("Resources".into(), V::Map(res)));
    V::Map(m)
}

/// A wide-fragment rules file (core + type blocks + parameterised rules + optional messages).
pub fn gen_wide_file(u: &mut Choices, doc: &V, sz: Size, messages: bool) -> File {
    let sz = scaled(u, sz);
    let mut g = PGen::new(doc, sz);
    g.wide = true;
    g.messages = messages;
    // parameterised rules first (their bodies may not call each other: no recursion)
    let np = u.below(3);
    let mut prules = vec![];
    for i in 0..np {
        let arity = u.range(1, 2);
        let params: Vec<String> = (0..arity).map(|j| format!("p{}x{}", i, j)).collect();
        let vars = Vars { qvars: params.clone(), lvars: vec![] };
        let save = g.sz;
        g.sz.nest = 1;
        g.sz.lines = 2;
        let mut body = vec![];
        for _ in 0..u.range(1, 2) {
            // clauses over the parameters
            let mut c = g.gen_clause(u, None, 1, &vars, false);
            if !matches!(c.q.head, Head::Var(_)) {
                c.q = Query { head: Head::Var(params[u.below(arity)].clone()), parts: vec![] };
                // bare variable + `empty` tests the result set; keep it (documented exception)
            }
            if messages {
                c.msg = Some(g.fresh("m"));
            }
            body.push(vec![Item::Clause(c)]);
        }
        g.sz = save;
        if sz.nested_calls && i > 0 && u.chance(1, 2) {
            // a call of an earlier parameterised rule (never a later one: no recursion), handing on
            // the own parameters or a literal
            let j = u.below(i);
            let callee: &PRule = &prules[j];
            let args: Vec<Expr> = (0..callee.params.len())
                .map(|_| if u.chance(1, 4) { Expr::Lit(Lit::V(V::Int(1))) } else { Expr::Query { some: false, q: Query { head: Head::Var(params[u.below(arity)].clone()), parts: vec![] } } })
                .collect();
            let msg = if messages { Some(g.fresh("m")) } else { None };
            let at = u.below(body.len() + 1);
            body.insert(at, vec![Item::PCall { neg: false, name: callee.name.clone(), args, msg }]);
        }
        prules.push(PRule { name: format!("pr{}", i), params, lets: vec![], body });
    }
    g.prules = prules.iter().map(|p| (p.name.clone(), p.params.len())).collect();
    let (flets, fvars) = g.gen_lets(u, Some(doc), 0, "fv");
    let n = u.range(1, sz.rules);
    let names: Vec<String> = (0..n).map(|i| format!("r{}", i)).collect();
    let ranks: Vec<usize> = (0..n).map(|_| u.below(1000)).collect();
    let mut rules = vec![];
    for i in 0..n {
        g.refs = (0..n).filter(|j| (ranks[*j], *j) > (ranks[i], i)).map(|j| names[j].clone()).collect();
        let (lets, lv) = if u.chance(2, 5) { g.gen_lets(u, Some(doc), 0, &format!("r{}v", i)) } else { (vec![], Vars::default()) };
        let when = if u.chance(3, 10) { Some(g.gen_cond(u, Some(doc), 0, &fvars)) } else { None };
        let mut vars = fvars.clone();
        vars.qvars.extend(lv.qvars);
        vars.lvars.extend(lv.lvars);
        let body = g.gen_cnf(u, Some(doc), 0, &vars, RefCtx::RuleBody);
        rules.push(Rule { name: names[i].clone(), when, lets, body });
    }
    File { lets: flets, prules, rules, default: vec![] }
}

/// A core-fragment rules file directed at `doc`.
pub fn gen_core_file(u: &mut Choices, doc: &V, sz: Size, prefneg_binary: bool, dup_names: bool) -> File {
    let sz = scaled(u, sz);
    let mut g = PGen::new(doc, sz);
    g.prefneg_binary = prefneg_binary;
    let (flets, fvars) = g.gen_lets(u, Some(doc), 0, "fv");
    let n = u.range(1, sz.rules);
    let mut names: Vec<String> = (0..n).map(|i| format!("r{}", i)).collect();
    if dup_names && n >= 2 && u.chance(1, 8) {
        // a rule defined twice
        let i = u.below(n - 1);
        names[n - 1] = names[i].clone();
    }
    // random DAG: a rule may reference rules of greater rank (file order is unrelated)
    let ranks: Vec<usize> = (0..n).map(|_| u.below(1000)).collect();
    let mut rules = vec![];
    for i in 0..n {
        let mut refs: Vec<String> = vec![];
        for j in 0..n {
            if (ranks[j], j) > (ranks[i], i) && names[j] != names[i] && !refs.contains(&names[j]) {
                // all definitions of a referenced name must have greater rank
                let ok = (0..n).filter(|k| names[*k] == names[j]).all(|k| (ranks[k], k) > (ranks[i], i));
                if ok {
                    refs.push(names[j].clone());
                }
            }
        }
        g.refs = refs;
        let (lets, lv) = if u.chance(2, 5) { g.gen_lets(u, Some(doc), 0, &format!("r{}v", i)) } else { (vec![], Vars::default()) };
        let when = if u.chance(3, 10) { Some(g.gen_cond(u, Some(doc), 0, &fvars)) } else { None };
        let mut vars = fvars.clone();
        vars.qvars.extend(lv.qvars);
        vars.lvars.extend(lv.lvars);
        let body = g.gen_cnf(u, Some(doc), 0, &vars, RefCtx::RuleBody);
        rules.push(Rule { name: names[i].clone(), when, lets, body });
    }
    // clauses outside any rule: the body of the implicit rule `default`
    let mut default = vec![];
    if sz.default_rule && u.chance(1, 5) {
        g.refs = vec![];
        default = g.gen_cnf(u, Some(doc), 0, &fvars, RefCtx::Inner);
        // grammar: at file level a `when` block is an expression of its own, not an `or` alternative
        for line in default.iter_mut() {
            if line.len() > 1 {
                line.retain(|it| !matches!(it, Item::When { .. }));
            }
        }
        default.retain(|l| !l.is_empty());
    }
    File { lets: flets, prules: vec![], rules, default }
}
