//! A small backtracking regular-expression matcher, independent of the `regex` / `fancy-regex`
//! crates the tool uses. Supported: literals, `.`, classes `[abc] [a-z] [^x]`, escapes
//! `\d \w \s \. \/ \\` etc., groups `( )`, alternation `|`, quantifiers `* + ? {n} {n,} {n,m}`, anchors `^ $`.
//! The generators only produce patterns inside this subset. Semantics: "matches somewhere"
//! (unanchored search), like `Regex::is_match`.

#[derive(Debug, Clone)]
enum Node {
    Char(char),
    Any,
    Class(Vec<(char, char)>, bool),
    Start,
    End,
    Group(Box<Node>),
    Cat(Vec<Node>),
    Alt(Vec<Node>),
    Star(Box<Node>),
    Plus(Box<Node>),
    Opt(Box<Node>),
    /// `{n}`, `{n,}`, `{n,m}`
    Rep(Box<Node>, usize, Option<usize>),
}

pub struct Re(Node);

struct P<'a> {
    s: &'a [char],
    i: usize,
}

impl<'a> P<'a> {
    fn peek(&self) -> Option<char> {
        self.s.get(self.i).copied()
    }
    fn alt(&mut self) -> Option<Node> {
        let mut alts = vec![self.cat()?];
        while self.peek() == Some('|') {
            self.i += 1;
            alts.push(self.cat()?);
        }
        Some(if alts.len() == 1 { alts.pop().unwrap() } else { Node::Alt(alts) })
    }
    fn cat(&mut self) -> Option<Node> {
        let mut xs = vec![];
        while let Some(c) = self.peek() {
            if c == '|' || c == ')' {
                break;
            }
            let atom = self.atom()?;
            let atom = match self.peek() {
                Some('*') => {
                    self.i += 1;
                    Node::Star(Box::new(atom))
                }
                Some('+') => {
                    self.i += 1;
                    Node::Plus(Box::new(atom))
                }
                Some('?') => {
                    self.i += 1;
                    Node::Opt(Box::new(atom))
                }
                Some('{') => {
                    self.i += 1;
                    let num = |p: &mut Self| -> Option<usize> {
                        let st = p.i;
                        while p.peek().map_or(false, |c| c.is_ascii_digit()) {
                            p.i += 1;
                        }
                        if p.i == st {
                            return None;
                        }
                        p.s[st..p.i].iter().collect::<String>().parse().ok()
                    };
                    let lo = num(self)?;
                    let hi = if self.peek() == Some(',') {
                        self.i += 1;
                        if self.peek() == Some('}') {
                            None
                        } else {
                            Some(num(self)?)
                        }
                    } else {
                        Some(lo)
                    };
                    if self.peek() != Some('}') {
                        return None;
                    }
                    self.i += 1;
                    if hi.map_or(false, |h| h < lo) {
                        return None;
                    }
                    Node::Rep(Box::new(atom), lo, hi)
                }
                _ => atom,
            };
            xs.push(atom);
        }
        Some(Node::Cat(xs))
    }
    fn esc(&mut self) -> Option<Node> {
        let c = self.peek()?;
        self.i += 1;
        Some(match c {
            'd' => Node::Class(vec![('0', '9')], false),
            'w' => Node::Class(vec![('a', 'z'), ('A', 'Z'), ('0', '9'), ('_', '_')], false),
            's' => Node::Class(vec![(' ', ' '), ('\t', '\t'), ('\n', '\n'), ('\r', '\r')], false),
            'n' => Node::Char('\n'),
            't' => Node::Char('\t'),
            c if !c.is_alphanumeric() => Node::Char(c),
            _ => return None,
        })
    }
    fn atom(&mut self) -> Option<Node> {
        let c = self.peek()?;
        self.i += 1;
        Some(match c {
            '.' => Node::Any,
            '^' => Node::Start,
            '$' => Node::End,
            '(' => {
                let n = self.alt()?;
                if self.peek() != Some(')') {
                    return None;
                }
                self.i += 1;
                Node::Group(Box::new(n))
            }
            '[' => {
                let mut neg = false;
                if self.peek() == Some('^') {
                    neg = true;
                    self.i += 1;
                }
                let mut ranges = vec![];
                loop {
                    let mut c = self.peek()?;
                    self.i += 1;
                    if c == ']' {
                        break;
                    }
                    if c == '\\' {
                        c = self.peek()?;
                        self.i += 1;
                        match c {
                            'd' => {
                                ranges.push(('0', '9'));
                                continue;
                            }
                            'w' => {
                                ranges.extend([('a', 'z'), ('A', 'Z'), ('0', '9'), ('_', '_')]);
                                continue;
                            }
                            _ => {}
                        }
                    }
                    if self.peek() == Some('-') && self.s.get(self.i + 1).map_or(false, |x| *x != ']') {
                        self.i += 1;
                        let hi = self.peek()?;
                        self.i += 1;
                        ranges.push((c, hi));
                    } else {
                        ranges.push((c, c));
                    }
                }
                Node::Class(ranges, neg)
            }
            '\\' => self.esc()?,
            '*' | '+' | '?' | ')' | '{' | '}' => return None,
            c => Node::Char(c),
        })
    }
}

impl Re {
    pub fn new(pat: &str) -> Option<Re> {
        let cs: Vec<char> = pat.chars().collect();
        let mut p = P { s: &cs, i: 0 };
        let n = p.alt()?;
        if p.i != cs.len() {
            return None;
        }
        Some(Re(n))
    }
    pub fn is_match(&self, text: &str) -> bool {
        let t: Vec<char> = text.chars().collect();
        for start in 0..=t.len() {
            if m(&self.0, &t, start, &mut |_| true) {
                return true;
            }
        }
        false
    }
}

/// continuation-passing backtracking matcher
fn m(n: &Node, t: &[char], i: usize, k: &mut dyn FnMut(usize) -> bool) -> bool {
    match n {
        Node::Char(c) => i < t.len() && t[i] == *c && k(i + 1),
        // `.` does not match a newline (default in both regex crates)
        Node::Any => i < t.len() && t[i] != '\n' && k(i + 1),
        Node::Class(rs, neg) => {
            if i >= t.len() {
                return false;
            }
            let inside = rs.iter().any(|(a, b)| *a <= t[i] && t[i] <= *b);
            inside != *neg && k(i + 1)
        }
        Node::Start => i == 0 && k(i),
        Node::End => i == t.len() && k(i),
        Node::Group(g) => m(g, t, i, k),
        Node::Cat(xs) => cat(xs, t, i, k),
        Node::Alt(xs) => xs.iter().any(|x| m(x, t, i, k)),
        Node::Opt(x) => m(x, t, i, k) || k(i),
        Node::Star(x) => star(x, t, i, k),
        Node::Plus(x) => m(x, t, i, &mut |j| star(x, t, j, k)),
        Node::Rep(x, lo, hi) => rep(x, *lo, *hi, t, i, k),
    }
}
fn cat(xs: &[Node], t: &[char], i: usize, k: &mut dyn FnMut(usize) -> bool) -> bool {
    match xs.split_first() {
        None => k(i),
        Some((h, rest)) => m(h, t, i, &mut |j| cat(rest, t, j, k)),
    }
}
fn rep(x: &Node, lo: usize, hi: Option<usize>, t: &[char], i: usize, k: &mut dyn FnMut(usize) -> bool) -> bool {
    if lo > 0 {
        return m(x, t, i, &mut |j| rep(x, lo - 1, hi.map(|h| h - 1), t, j, k));
    }
    match hi {
        Some(0) => k(i),
        Some(h) => m(x, t, i, &mut |j| j > i && rep(x, 0, Some(h - 1), t, j, k)) || k(i),
        None => star(x, t, i, k),
    }
}
fn star(x: &Node, t: &[char], i: usize, k: &mut dyn FnMut(usize) -> bool) -> bool {
    // greedy, guarding against empty iterations
    if m(x, t, i, &mut |j| j > i && star(x, t, j, k)) {
        return true;
    }
    k(i)
}

#[cfg(test)]
mod tests {
    use super::*;
    #[test]
    fn basics() {
        for (p, s, e) in [
            ("a", "bab", true),
            ("^a", "ba", false),
            ("^a.*c$", "abbc", true),
            ("^a.*c$", "abbcd", false),
            ("(ab)+c", "xababc", true),
            ("a|b", "c", false),
            ("[a-c]+$", "xxabc", true),
            ("[^a]", "aaa", false),
            ("a?b", "b", true),
            ("^(a|b)*$", "abba", true),
            ("^(a|b)*$", "abca", false),
            ("\\d+", "ab12", true),
            ("", "", true),
            ("ab{2}c", "xabbcx", true),
            ("ab{2}c", "ab{2}c", false),
            ("^a{1,2}$", "aaa", false),
            ("^a{1,2}$", "aa", true),
            ("(ab){2,}", "ababab", true),
            ("b{0}c", "c", true),
        ] {
            assert_eq!(Re::new(p).unwrap().is_match(s), e, "{} on {}", p, s);
        }
    }
}
