import sys, json, subprocess, itertools, tempfile, os, shutil
sys.path.insert(0,'/tmp/probe')
from model import *
from concurrent.futures import ThreadPoolExecutor
G='/tmp/spike/tooltarget/release/cfn-guard'
U={'missing':'__missing__','n':None,'t':True,'f':False,'i0':0,'i1':1,'i2':2,'im':-1,'f15':1.5,'f2':2.0,'se':"",'sa':"a",'sb':"b",'sab':"ab",'s10':"10",
   'le':[], 'me':{}, 'l1':[1],'l12':[1,2],'l21':[2,1],'lmix':["a",1],'lln':[[1],[2]],'ll12':[[1,2]],'lmaps':[{"k":1},{"j":2}],'mk1':{"k":1},'mkj':{"k":1,"j":2},'lnull':[None],'lf':[1.5,2.0],'ls':["a","b"]}
LIT=[('1',1),('2',2),('0',0),('1.5',1.5),('2.0',2.0),('"a"',"a"),('"ab"',"ab"),('""',""),('true',True),('null',None),('[]',[]),('[1]',[1]),('[1,2]',[1,2]),('["a","b"]',["a","b"]),
     ('[[1],[2]]',[[1],[2]]),('[[1,2]]',[[1,2]]),('{"k":1}',{"k":1}),('{"j":2,"k":1}',{"j":2,"k":1}),('/a/',('regex','a')),('/^a.*b$/',('regex','^a.*b$')),('r[1,2]',('range',1,2,'[]')),('r(1,2)',('range',1,2,'()')),('r[0.5,2.0)',('range',0.5,2.0,'[)')),('[null]',[None]),('[1.5]',[1.5])]
QS=[('x',[('k','x')]),('x[*]',[('k','x'),('[*]',)]),('x.*',[('k','x'),('*',)]),('x[0]',[('k','x'),('i',0)]),('x.k',[('k','x'),('k','k')]),('x[*].k',[('k','x'),('[*]',),('k','k')]),('x[*][*]',[('k','x'),('[*]',),('[*]',)])]
BIN=[('==','==',False),('!=','==',True),('in','in',False),('not in','in',True),('<','<',False),('<=','<=',False),('>','>',False),('>=','>=',False)]
UN=['exists','empty','is_string','is_list','is_struct','is_bool','is_int','is_float','is_null']
def run_batch(doc, clauses):
    d=tempfile.mkdtemp(dir='/dev/shm')
    rules=''.join(f'rule c{i} {{ {c} }}\n' for i,c in enumerate(clauses))
    open(d+'/r.guard','w').write(rules); open(d+'/d.json','w').write(json.dumps(doc))
    p=subprocess.run([G,'validate','-r',d+'/r.guard','-d',d+'/d.json','--structured','-o','json','-S','none'],capture_output=True,text=True)
    shutil.rmtree(d)
    if p.returncode not in (0,19): return None,(p.stderr or p.stdout)[:200]
    j=json.loads(p.stdout)[0]; out={}
    for n in j['compliant']: out[n]='PASS'
    for n in j['not_applicable']: out[n]='SKIP'
    for c in j['not_compliant']: out[c['Rule']['name']]='FAIL'
    return [out[f'c{i}'] for i in range(len(clauses))],None
def job(un):
    name,v=un
    doc={} if v=='__missing__' else {'x':v}
    cl=[]; exp=[]
    for qn,qp in QS:
        mem=query(doc,qp)
        for some in (False,True):
            pre='some ' if some else ''
            for sp,op,neg in BIN:
                for ls,lv in LIT:
                    cl.append(f'{pre}{qn} {sp} {ls}'); exp.append(binary(mem,op,neg,lv,some))
            for op in UN:
                for opneg in (False,True):
                    for prefneg in (False,True):
                        try: e=unary(mem,op,opneg,prefneg,some,False)
                        except EvalError: e='ERR'
                        cl.append(f'{"not " if prefneg else ""}{pre}{qn} {"!" if opneg else ""}{op}'); exp.append(e)
    # errors abort the whole file: run error-expected clauses separately
    ok_idx=[i for i,e in enumerate(exp) if e!='ERR']; err_idx=[i for i,e in enumerate(exp) if e=='ERR']
    got,err=run_batch(doc,[cl[i] for i in ok_idx])
    diffs=[]
    if got is None: diffs.append((name,'BATCH-ERR',err)); return len(cl),diffs
    for i,g in zip(ok_idx,got):
        if g!=exp[i]: diffs.append((name,cl[i],'model',exp[i],'tool',g))
    for i in err_idx[:6]:
        g,err=run_batch(doc,[cl[i]])
        if g is not None: diffs.append((name,cl[i],'model','ERR','tool',g))
    return len(cl),diffs
if __name__=='__main__':
    with ThreadPoolExecutor(16) as ex: res=list(ex.map(job,U.items()))
    tot=sum(r[0] for r in res); diffs=[d for r in res for d in r[1]]
    print('clauses',tot,'diffs',len(diffs))
    import collections
    for d in diffs[:60]: print(d)
