import subprocess, json, sys, os, tempfile
G='/tmp/spike/tooltarget/release/cfn-guard'
def verdict(rules, data):
    with open('/tmp/probe/_r.guard','w') as f: f.write(rules)
    with open('/tmp/probe/_d.json','w') as f: f.write(json.dumps(data) if not isinstance(data,str) else data)
    p=subprocess.run([G,'validate','-r','/tmp/probe/_r.guard','-d','/tmp/probe/_d.json','--structured','-o','json','-S','none'],capture_output=True,text=True)
    if p.returncode not in (0,19): return ('ERR',p.returncode,(p.stderr or p.stdout)[:200].replace('\n',' '))
    j=json.loads(p.stdout)[0]
    d={}
    for n in j['compliant']: d[n]='PASS'
    for n in j['not_applicable']: d[n]='SKIP'
    for c in j['not_compliant']: d[c['Rule']['name']]='FAIL'
    return d
