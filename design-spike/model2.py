# throw-away: composition layer on top of model.py (DESIGN section 4)
import sys; sys.path.insert(0,'/tmp/probe')
from model import *
import model as M
# AST:
# clause: ('c', prefneg, some, query, kind, op, opneg, lit)   kind 'u'|'b'
# ref: ('ref', neg, name)
# block: ('blk', some, query, notempty, lets, cnf)
# when: ('when', cnf_cond, lets, cnf)
# cnf = [ [item,...], ... ]
# query = (head, parts) head: ('key',k)|('this',)|('var',name); parts incl ('f', cnf)
class Ctx:
    def __init__(s, root, value, scopes, rules, cache):
        s.root=root; s.value=value; s.scopes=scopes; s.rules=rules; s.cache=cache
def with_value(c,v): return Ctx(c.root,v,c.scopes,c.rules,c.cache)
def lookup(c,name):
    for sc in reversed(c.scopes):
        if name in sc['defs']:
            if name not in sc['memo']:
                d=sc['defs'][name]
                if d[0]=='lit': sc['memo'][name]=[('L',d[1])]
                else:
                    some,q=d[1],d[2]
                    cc=Ctx(c.root,sc['value'],c.scopes[:c.scopes.index(sc)+1],c.rules,c.cache)
                    r=evalq(cc,q)
                    if some: r=[m for m in r if m[0]!='U']
                    sc['memo'][name]=r
            return sc['memo'][name]
    raise EvalError('novar')
def evalq(c,q):
    head,parts=q
    if head[0]=='var':
        vals=lookup(c,head[1])
        p=list(parts)
        if p and p[0][0]=='[*]': p=p[1:]
        out=[]
        for m in vals:
            if m[0]=='U': out.append(m)
            elif not p: out.append(m)
            else: out.extend(qparts(c,m[1],p,('[*]',),m[1]))
        return out
    if head[0]=='this': return qparts(c,c.value,list(parts),('this',))
    return qparts(c,c.value,[('k',head[1])]+list(parts),None)
MIMIC=True
def qparts(c,v,parts,prev,rv='__same__'):
    if rv=='__same__': rv=c.value
    if not parts: return [('R',v)]
    p=parts[0]; rest=parts[1:]
    t=ty(v)
    if p[0]=='k':
        if t=='map' and p[1] in v: return qparts(c,v[p[1]],rest,p,rv)
        return [('U',)]
    if p[0]=='i':
        if t=='list' and abs(p[1])<len(v): return qparts(c,v[abs(p[1])],rest,p,rv)
        return [('U',)]
    if p[0] in ('*','[*]'):
        if t=='list' or (t=='map' and p[0]=='*'):
            items=v if t=='list' else list(v.values())
            if not items: return [('U',)]
            out=[]
            for x in items: out.extend(qparts(c,x,rest,p,(x if t=='map' else rv)))
            return out
        return qparts(c,v,rest,p,rv)
    if p[0]=='f':
        cnf=p[1]
        def test(x): return evalcnf(with_value(c,x),cnf)=='PASS'
        if t=='list':
            out=[]
            for x in v:
                if test(x): out.extend(qparts(c,x,rest,p,rv))
            return out
        if t=='map':
            if prev and prev[0] in ('*','[*]'):
                tv = rv if MIMIC else v
                return qparts(c,v,rest,p,rv) if test(tv) else []
            if prev and prev[0]=='k':
                out=[]
                for x in v.values():
                    if test(x): out.extend(qparts(c,x,rest,p,x))
                return out
            raise EvalError('filter-dispatch')   # tool panics here (F5); generator avoids
        if prev and prev[0]=='[*]':
            return qparts(c,v,rest,p,rv) if test(v) else []
        return [('U',)]
def is_resultset(q):
    head,parts=q
    if parts and parts[-1][0]=='f': return True
    return head[0]=='var' and not parts
def evalitem(c,it):
    k=it[0]
    if k=='c':
        _,prefneg,some,q,kind,op,opneg,lit=it
        mem=evalq(c,q)
        if kind=='u': return unary([('R',m[1]) if m[0]=='L' else m for m in mem],op,opneg,prefneg,some,is_resultset(q))
        neg = opneg != prefneg
        # literal-variable LHS is compared without list coercion; generator avoids bare literal vars on LHS
        return binary([('R',m[1]) if m[0]=='L' else m for m in mem],op,neg,lit,some)
    if k=='ref':
        st=rule_status(c,it[2]); r = st=='PASS'
        if it[1]: r=not r
        return 'PASS' if r else 'FAIL'
    if k=='blk':
        _,some,q,notempty,lets,cnf=it
        mem=evalq(c,q)
        if not mem: return 'FAIL' if notempty else 'SKIP'
        p=f=0
        for m in mem:
            if m[0]=='U': f+=1; continue
            cc=Ctx(c.root,m[1],c.scopes+[mkscope(lets,m[1])],c.rules,c.cache)
            s=evalcnf(cc,cnf)
            if s=='PASS': p+=1
            elif s=='FAIL': f+=1
        if some: return 'PASS' if p else ('FAIL' if f else 'SKIP')
        return 'FAIL' if f else ('PASS' if p else 'SKIP')
    if k=='when':
        _,cond,lets,cnf=it
        if evalcnf(c,cond)!='PASS': return 'SKIP'
        cc=Ctx(c.root,c.value,c.scopes+[mkscope(lets,c.value)],c.rules,c.cache)
        return evalcnf(cc,cnf)
def mkscope(lets,value): return {'defs':dict(lets),'memo':{},'value':value}
def evalcnf(c,cnf):
    p=f=0
    for line in cnf:
        lf=0; passed=False
        for it in line:
            s=evalitem(c,it)
            if s=='PASS': passed=True; break
            if s=='FAIL': lf+=1
        if passed: p+=1
        elif lf: f+=1
    return 'FAIL' if f else ('PASS' if p else 'SKIP')
def eval_rule(c,rule):
    name,cond,lets,cnf=rule
    root=Ctx(c.root,c.root,c.scopes[:1],c.rules,c.cache)
    if cond is not None and evalcnf(root,cond)!='PASS': return 'SKIP'
    cc=Ctx(c.root,c.root,c.scopes[:1]+[mkscope(lets,c.root)],c.rules,c.cache)
    return evalcnf(cc,cnf)
def rule_status(c,name):
    if name in c.cache: return c.cache[name]
    st='SKIP'
    for r in c.rules:
        if r[0]==name:
            s=eval_rule(c,r)
            if s!='SKIP': st=s; break
    c.cache[name]=st
    return st
def eval_file(doc, flets, rules):
    c=Ctx(doc,doc,[mkscope(flets,doc)],rules,{})
    try:
        return [(r[0],eval_rule(c,r)) for r in rules]
    except EvalError as e:
        return 'ERR'
