import random, json, itertools, subprocess, os, sys
from concurrent.futures import ThreadPoolExecutor
G='/tmp/spike/tooltarget/release/cfn-guard'
KEYS=['a','b','c','items','tags']
def doc(r,d=0):
    t=r.random()
    if d>=3 or t<0.35: return r.choice([1,2,5,"a","b","",True,None,1.5])
    if t<0.65: return [doc(r,d+1) for _ in range(r.randint(0,3))]
    return {k:doc(r,d+1) for k in r.sample(KEYS,r.randint(0,3))}
def query(r):
    parts=[r.choice(KEYS)]
    for _ in range(r.randint(0,2)):
        t=r.random()
        parts.append('.'+r.choice(KEYS) if t<0.5 else ('[*]' if t<0.7 else ('.*' if t<0.85 else '[0]')))
    return ''.join(parts)
LITS=['1','2','"a"','[1,2]','/a/','r[1,5]','true','null','1.5']
def clause(r):
    q=query(r); s='some ' if r.random()<0.2 else ''
    if r.random()<0.4:
        op=r.choice(['exists','!exists','empty','!empty','is_string','is_list','!is_struct','is_int'])
        return f'{s}{q} {op}'
    op=r.choice(['==','!=','<','>=','in','not in'])
    return f'{s}{q} {op} {r.choice(LITS)}'
def item(r,names,d=0):
    t=r.random()
    if t<0.15 and names and d==0: return ('not ' if r.random()<0.3 else '')+r.choice(names)
    if t<0.3 and d<2: return f'{query(r)} {{\n'+lines(r,names,d+1)+'\n}'
    if t<0.4 and d<2: return f'when {clause(r)} {{\n'+lines(r,names,d+1)+'\n}'
    return clause(r)
def line_items(r,names,d):
    return [item(r,names,d) for _ in range(r.choice([1,1,1,2,3]))]
def render_line(alts): return ' or\n'.join(alts)
def lines(r,names,d=0):
    return '\n'.join(render_line(line_items(r,names,d)) for _ in range(r.randint(1,3)))
def run(rules,data):
    import tempfile
    d=tempfile.mkdtemp(dir='/dev/shm')
    open(d+'/r.guard','w').write(rules); open(d+'/d.json','w').write(json.dumps(data))
    p=subprocess.run([G,'validate','-r',d+'/r.guard','-d',d+'/d.json','--structured','-o','json','-S','none'],capture_output=True,text=True)
    import shutil; shutil.rmtree(d)
    if p.returncode not in (0,19): return ('ERR',p.returncode,p.stderr[:150])
    j=json.loads(p.stdout)[0]; out={}
    for n in j['compliant']: out[n]='PASS'
    for n in j['not_applicable']: out[n]='SKIP'
    for c in j['not_compliant']: out[c['Rule']['name']]='FAIL'
    return out
def case(seed):
    r=random.Random(seed)
    names=[f'r{i}' for i in range(r.randint(1,3))]
    rules={}
    for n in names:
        body=[line_items(r,[m for m in names if m!=n],0) for _ in range(r.randint(1,4))]
        rules[n]=body
    data={k:doc(r,1) for k in KEYS}
    def render(order, bodies):
        return '\n'.join(f'rule {n} {{\n'+'\n'.join(render_line(l) for l in bodies[n])+'\n}' for n in order)+'\n'
    base=run(render(names,rules),data)
    variants=[]
    # permute lines of first rule, alternatives, rule order
    n0=names[0]
    for perm in itertools.islice(itertools.permutations(range(len(rules[n0]))),1,6):
        b=dict(rules); b[n0]=[rules[n0][i] for i in perm]; variants.append(render(names,b))
    b=dict(rules); b[n0]=[list(reversed(l)) for l in rules[n0]]; variants.append(render(names,b))
    variants.append(render(list(reversed(names)),rules))
    b=dict(rules); b[n0]=rules[n0]+[rules[n0][0]]; variants.append(render(names,b))
    res=[run(v,data) for v in variants]
    if isinstance(base,tuple) or any(isinstance(x,tuple) for x in res):
        kinds=set([x[1] if isinstance(x,tuple) else 'ok' for x in [base]+res])
        return ('discard',seed,kinds, [x for x in [base]+res if isinstance(x,tuple)][0][2])
    for v,x in zip(variants,res):
        if x!=base: return ('DIFF',seed,base,x,render(names,rules),v,data)
    return ('ok',seed,base)
if __name__=='__main__':
    N=int(sys.argv[1])
    with ThreadPoolExecutor(16) as ex: out=list(ex.map(case,range(N)))
    from collections import Counter
    print(Counter(o[0] for o in out))
    st=Counter(); 
    for o in out:
        if o[0]=='ok': st.update(o[2].values())
    print('status mix',st)
    for o in out:
        if o[0]=='DIFF':
            print('DIFF seed',o[1],o[2],o[3]); print(o[4]); print('--- variant'); print(o[5]); print(json.dumps(o[6])); break
    dk=Counter(); 
    for o in out:
        if o[0]=='discard': dk[(tuple(sorted(map(str,o[2]))), o[3][:90])]+=1
    for k,v in dk.most_common(6): print(v,k)
