import sys, json, random, subprocess, tempfile, shutil, collections
sys.path.insert(0,'/tmp/probe')
import model2 as M2
from model import EvalError
from concurrent.futures import ThreadPoolExecutor
G='/tmp/spike/tooltarget/release/cfn-guard'
K=['a','b','c','items','tags','k']
SC=[1,2,5,"a","b","",True,None,1.5,"ab"]
def doc(r,d=0):
    t=r.random()
    if d>=3 or t<0.3: return r.choice(SC)
    if t<0.6: return [doc(r,d+1) for _ in range(r.randint(0,3))]
    return {k:doc(r,d+1) for k in r.sample(K,r.randint(0,4))}
def paths(v,pre=()):
    out=[pre]
    if isinstance(v,dict):
        for k,x in v.items(): out+=paths(x,pre+(('k',k),))
    elif isinstance(v,list):
        for i,x in enumerate(v): out+=paths(x,pre+(('i',i),))
    return out
def at(v,p):
    for s in p: v=v[s[1]]
    return v
LITS=[('1',1),('2',2),('5',5),('"a"',"a"),('"b"',"b"),('""',""),('true',True),('null',None),('1.5',1.5),('[1,2]',[1,2]),('["a","b"]',["a","b"]),('/a/',('regex','a')),('r[1,5]',('range',1,5,'[]')),('[1]',[1]),('{"k":1}',{"k":1}),('[]',[])]
def lit_of(v):
    for s,x in LITS:
        if type(x)==type(v) and x==v and not isinstance(x,tuple): return (s,x)
    return None
def gen_parts(r, ctxval, depth):
    ps=[p for p in paths(ctxval) if p]
    if ps and r.random()<0.7:
        p=list(r.choice(ps))[:r.randint(1,3)]
        parts=[]
        for s in p:
            if s[0]=='i': parts.append(r.choice([('[*]',),('[*]',),('i',s[1]),('*',)]))
            else: parts.append(s if r.random()<0.8 else ('*',))
        target=None
    else:
        parts=[('k',r.choice(K))]
        for _ in range(r.randint(0,2)): parts.append(r.choice([('k',r.choice(K)),('[*]',),('*',),('i',0)]))
    if parts[0][0]!='k': parts=[('k',r.choice(K))]+parts
    # optional filter after a '*' or '[*]' or key (not after index/filter)
    if depth<2 and r.random()<0.25:
        pos=[i+1 for i,p in enumerate(parts) if p[0] in ('*','[*]','k')]
        if pos:
            i=r.choice(pos)
            parts=parts[:i]+[('f',[[gen_clause(r,None,depth+2,simple=True)] for _ in range(r.randint(1,2))])]+parts[i:]
    return parts
def gen_query(r, ctxval, vars_, depth):
    if vars_ and r.random()<0.2:
        return (('var',r.choice(vars_)), [p for p in gen_parts(r,ctxval,depth)[1:r.randint(1,3)]])
    parts=gen_parts(r,ctxval,depth)
    return (('key',parts[0][1]),parts[1:])
def gen_clause(r, ctxval, depth, simple=False, vars_=(), litvars=()):
    q=gen_query(r, ctxval if ctxval is not None else {}, list(vars_) if not simple else [], depth)
    some=r.random()<0.2
    if r.random()<0.4:
        op=r.choice(['exists','empty','is_string','is_list','is_struct','is_int','is_null','exists','empty'])
        return ('c', r.random()<0.2, some, q, 'u', op, r.random()<0.3, None)
    op,opneg=r.choice([('==',False),('==',True),('in',False),('in',True),('<',False),('<=',False),('>',False),('>=',False),('==',False)])
    if litvars and r.random()<0.2:
        n=r.choice(litvars); return ('c',False,some,q,'b',op,opneg,('litvar',)+n)
    return ('c', False, some, q, 'b', op, opneg, ('lit',)+r.choice(LITS))
def gen_lets(r, ctxval, depth, prefix):
    lets=[]
    for i in range(r.choice([0,0,1,2])):
        n=f'{prefix}{i}'
        if r.random()<0.4: s,x=r.choice(LITS); lets.append((n,('lit',x,s)))
        else:
            parts=gen_parts(r,ctxval,depth)
            lets.append((n,('q',r.random()<0.2,(('key',parts[0][1]),parts[1:]))))
    return lets
def names_of(lets): 
    return [n for n,d in lets if d[0]=='q'], [(n,d[1],d[2]) for n,d in lets if d[0]=='lit']
def gen_item(r, ctxval, depth, refs, qv, lv, top):
    t=r.random()
    if top and refs and t<0.15: return ('ref', r.random()<0.3, r.choice(refs))
    if depth<2 and t<0.35:
        q=gen_query(r,ctxval,qv,depth)
        lets=gen_lets(r,{},depth,f'b{depth}v') if r.random()<0.3 else []
        q2,l2=names_of(lets)
        return ('blk', r.random()<0.2, q, r.random()<0.1, lets, gen_cnf(r,None,depth+1,[],qv+q2,lv+l2,False))
    if depth<2 and t<0.45:
        lets=gen_lets(r,ctxval,depth,f'w{depth}v') if r.random()<0.3 else []
        q2,l2=names_of(lets)
        return ('when', [[gen_clause(r,ctxval,depth,vars_=qv,litvars=lv)]], lets, gen_cnf(r,ctxval,depth+1,refs if top else [],qv+q2,lv+l2,top))
    return gen_clause(r,ctxval,depth,vars_=qv,litvars=lv)
def gen_cnf(r, ctxval, depth, refs, qv, lv, top):
    return [[gen_item(r,ctxval,depth,refs,qv,lv,top) for _ in range(r.choice([1,1,1,2,3]))] for _ in range(r.randint(1,3))]
# ---------- printer
def p_lit(l):
    if l[0]=='lit': return l[1]
    return '%'+l[1]
def p_parts(parts):
    s=''
    for p in parts:
        if p[0]=='k': s+='.'+p[1]
        elif p[0]=='*': s+='.*'
        elif p[0]=='[*]': s+='[*]'
        elif p[0]=='i': s+=f'[{p[1]}]'
        elif p[0]=='f': s+='[ '+p_cnf(p[1],'\n   ')+' ]'
    return s
def p_query(q):
    h,parts=q
    head = h[1] if h[0]=='key' else ('this' if h[0]=='this' else '%'+h[1])
    return head+p_parts(parts)
def p_item(it,ind):
    k=it[0]
    if k=='c':
        _,pn,some,q,kind,op,opneg,lit=it
        s=('not ' if pn else '')+('some ' if some else '')+p_query(q)+' '
        if kind=='u': return s+('!' if opneg else '')+op
        sp={'==':'!=' if opneg else '==','in':'not in' if opneg else 'in'}.get(op,op)
        return s+sp+' '+p_lit(lit)
    if k=='ref': return ('not ' if it[1] else '')+it[2]
    if k=='blk':
        _,some,q,ne,lets,cnf=it
        return ('some ' if some else '')+p_query(q)+(' !empty' if ne else '')+' {\n'+p_lets(lets,ind+'  ')+ind+'  '+p_cnf(cnf,'\n'+ind+'  ')+'\n'+ind+'}'
    if k=='when':
        _,cond,lets,cnf=it
        return 'when '+p_cnf(cond,'\n'+ind+'     ')+' {\n'+p_lets(lets,ind+'  ')+ind+'  '+p_cnf(cnf,'\n'+ind+'  ')+'\n'+ind+'}'
def p_cnf(cnf,sep):
    ind=sep.replace('\n','')
    return sep.join(' or\n'.join(ind+p_item(it,ind) if j else p_item(it,ind) for j,it in enumerate(line)) for line in cnf)
def p_lets(lets,ind):
    s=''
    for n,d in lets:
        if d[0]=='lit': s+=f'{ind}let {n} = {d[2]}\n'
        else: s+=f'{ind}let {n} = '+('some ' if d[1] else '')+p_query(d[2])+'\n'
    return s
def p_file(flets,rules):
    s=p_lets(flets,'')
    for name,cond,lets,cnf in rules:
        s+=f'rule {name}'+(' when '+p_cnf(cond,'\n      ') if cond is not None else '')+' {\n'+p_lets(lets,'  ')+'  '+p_cnf(cnf,'\n  ')+'\n}\n'
    return s
# ---------- convert to model AST (strip printing info)
def m_lit(l): return l[2] if l[0]=='lit' else l[2]
def m_item(it):
    k=it[0]
    if k=='c':
        _,pn,some,q,kind,op,opneg,lit=it
        return ('c',pn,some,m_query(q),kind,op,opneg,None if lit is None else m_lit(lit))
    if k=='ref': return it
    if k=='blk': return ('blk',it[1],m_query(it[2]),it[3],m_lets(it[4]),m_cnf(it[5]))
    if k=='when': return ('when',m_cnf(it[1]),m_lets(it[2]),m_cnf(it[3]))
def m_cnf(c): return [[m_item(i) for i in l] for l in c]
def m_query(q): return (q[0],[('f',m_cnf(p[1])) if p[0]=='f' else p for p in q[1]])
def m_lets(lets): return [(n,('lit',d[1]) if d[0]=='lit' else ('q',d[1],m_query(d[2]))) for n,d in lets]
def run(rules,data):
    d=tempfile.mkdtemp(dir='/dev/shm')
    open(d+'/r.guard','w').write(rules); open(d+'/d.json','w').write(json.dumps(data))
    p=subprocess.run([G,'validate','-r',d+'/r.guard','-d',d+'/d.json','--structured','-o','json','-S','none'],capture_output=True,text=True)
    shutil.rmtree(d)
    if p.returncode not in (0,19):
        if 'panicked' in p.stderr or p.returncode<0: return ('CRASH',p.stderr[:300])
        if p.returncode==5: return ('PARSE',p.stderr[:300])
        return 'ERR'
    j=json.loads(p.stdout)[0]; out={}
    for n in j['compliant']: out[n]='PASS'
    for n in j['not_applicable']: out[n]='SKIP'
    for c in j['not_compliant']: out[c['Rule']['name']]='FAIL'
    return out
def case(seed):
    r=random.Random(seed)
    data={k:doc(r,1) for k in r.sample(K,r.randint(2,5))}
    flets=gen_lets(r,data,0,'fv'); fq,fl=names_of(flets)
    n=r.randint(1,4); names=[f'r{i}' for i in range(n)]; rank={nm:r.random() for nm in names}
    rules=[]
    for nm in names:
        refs=[m for m in names if rank[m]>rank[nm]]
        lets=gen_lets(r,data,0,nm+'v') if r.random()<0.4 else []
        q2,l2=names_of(lets)
        cond=[[ (('ref',r.random()<0.3,r.choice(refs)) if refs and r.random()<0.4 else gen_clause(r,data,0,vars_=fq,litvars=fl)) ]] if r.random()<0.3 else None
        rules.append((nm,cond,lets,gen_cnf(r,data,0,refs,fq+q2,fl+l2,True)))
    txt=p_file(flets,rules)
    try: exp=M2.eval_file(data,m_lets(flets),[(nm,None if c is None else m_cnf(c),m_lets(l),m_cnf(b)) for nm,c,l,b in rules])
    except RecursionError: exp='ERR'
    got=run(txt,data)
    if isinstance(got,tuple): return (got[0],seed,got[1],txt)
    if exp=='ERR' or got=='ERR':
        return ('ok-err',seed) if exp==got else ('DIFF',seed,exp,got,txt,data)
    e=dict(exp)
    return ('ok',seed,e) if e==got else ('DIFF',seed,e,got,txt,data)
if __name__=='__main__':
    N=int(sys.argv[1]); off=int(sys.argv[2]) if len(sys.argv)>2 else 0
    with ThreadPoolExecutor(16) as ex: out=list(ex.map(case,range(off,off+N)))
    print(collections.Counter(o[0] for o in out))
    st=collections.Counter()
    for o in out:
        if o[0]=='ok': st.update(o[2].values())
    print('verdict mix',st)
    shown=0
    for o in out:
        if o[0]=='DIFF' and shown<4:
            shown+=1; print('DIFF seed',o[1],'model',o[2],'tool',o[3]); print(o[4]); print(json.dumps(o[5]))
    for kind in ('PARSE','CRASH'):
        for o in out:
            if o[0]==kind: print(kind,o[1],o[2][:250]); print(o[3]); break
