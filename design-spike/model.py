# throw-away calibration model of DESIGN.md section 4 (single-clause fragment)
import re, json
def ty(v):
    if v is None: return 'null'
    if isinstance(v,bool): return 'bool'
    if isinstance(v,int): return 'int'
    if isinstance(v,float): return 'float'
    if isinstance(v,str): return 'str'
    if isinstance(v,list): return 'list'
    if isinstance(v,dict): return 'map'
    if isinstance(v,tuple): return v[0]   # ('regex',s) ('range',lo,hi,incl)
class NC(Exception): pass
class EvalError(Exception): pass
def cmp_order(a,b):
    ta,tb=ty(a),ty(b)
    if ta!=tb or ta not in ('int','float','str','null'): raise NC()
    if ta=='null': return 0
    if ta=='str':
        a=a.encode(); b=b.encode()
    return (a>b)-(a<b)
def eq(a,b):
    ta,tb=ty(a),ty(b)
    if ta=='str' and tb=='regex': return re.search(b[1],a) is not None
    if ta=='regex' and tb=='str': return re.search(a[1],b) is not None
    if ta=='str' and tb=='str': return a==b
    if ta=='map' and tb=='map':
        if len(a)!=len(b): return False
        for k,v in a.items():
            if k not in b: return False
            if not eq(v,b[k]): return False
        return True
    if ta=='list' and tb=='list':
        if len(a)!=len(b): return False
        for x,y in zip(a,b):
            if not eq(x,y): return False
        return True
    if ta=='bool' and tb=='bool': return a==b
    if ta=='regex' and tb=='regex': return a[1]==b[1]
    if tb=='range' and ta in ('int','float'):
        lo,hi,incl=b[1],b[2],b[3]
        if ty(lo)!=ta: raise NC()
        l = lo<=a if incl[0]=='[' else lo<a
        h = hi>=a if incl[1]==']' else hi>a
        return l and h
    return cmp_order(a,b)==0
def peq(a,b):   # derived PartialEq used by `contains`
    try: return eq(a,b)
    except NC: return False
# ---- binary with literal RHS r; member l resolved. returns list of 'P'/'F'
def flip(x): return 'F' if x=='P' else 'P'
def mv(l,r,f):
    try: return 'P' if f(l,r) else 'F'
    except NC: return 'N'
def op_eq(l,r):
    if ty(r)=='list':
        if ty(l) not in ('list','map') and len(r)==1: return [mv(l,r[0],eq)]
        return [mv(l,r,eq)]
    if ty(l)=='list': return [mv(x,r,eq) for x in l]
    return [mv(l,r,eq)]
def string_in(l,r):
    if ty(l)=='str' and ty(r)=='str': return 'P' if l in r else 'F'
    return 'N'
def contained_in(l,r):
    # returns (kind, res, extra)
    if ty(l)=='list':
        if ty(r)=='list':
            if r and ty(r[0])=='list':
                return ('LL', 'P' if any(peq(x,l) for x in r) else 'F', None)
            diff=[x for x in l if not any(peq(y,x) for y in r)]
            return ('L', 'P' if not diff else 'F', diff)
        return ('V','N',None)
    if ty(r)=='list':
        return ('V', 'P' if any(peq(y,l) for y in r) else 'F', None)
    return ('V', mv(l,r,eq), None)
def op_in(l,r,neg):
    if ty(r)=='str':
        res=[string_in(x,r) for x in l] if ty(l)=='list' else [string_in(l,r)]
        return [ (flip(x) if neg and x!='N' else x) for x in res]
    kind,res,diff=contained_in(l,r)
    if not neg or res=='N': return [res]
    if kind=='V': return [flip(res)]
    if res=='P': return ['F']
    # ListIn fail under not: reverse diff
    if kind=='LL': diffv=[l]
    else: diffv=diff
    rev=[x for x in l if not any(peq(d,x) for d in diffv)]
    return ['P' if not rev else 'F']
def flat(v): return list(v) if ty(v)=='list' else [v]
ORD={'<':lambda c:c<0,'<=':lambda c:c<=0,'>':lambda c:c>0,'>=':lambda c:c>=0}
def op_ord(l,r,op):
    out=[]
    for a in flat(l):
        for b in flat(r):
            try: out.append('P' if ORD[op](cmp_order(a,b)) else 'F')
            except NC: out.append('N')
    return out
def binary(members, op, neg, r, some):
    # members: list of ('R',v)|('U',)
    if not members: return 'SKIP'
    res=[]
    for m in members:
        if m[0]=='U': res.append('F'); continue
        l=m[1]
        if op=='==': x=op_eq(l,r); x=[(flip(y) if neg and y!='N' else y) for y in x]
        elif op=='in': x=op_in(l,r,neg)
        else: x=op_ord(l,r,op); x=[(flip(y) if neg and y!='N' else y) for y in x]
        res.extend('F' if y=='N' else y for y in x)
    return agg(res,some)
def agg(res,some):
    if some: return 'PASS' if 'P' in res else 'FAIL'
    return 'FAIL' if 'F' in res else 'PASS'
def unary(members, op, opneg, prefneg, some, resultset):
    if op=='empty' and resultset:
        if not members:
            r= not opneg
            if prefneg: r=not r
            return 'PASS' if r else 'FAIL'
        res=[]
        for m in members:
            if m[0]=='U': ok = not opneg
            else: ok = (m[1] is None) != opneg
            if prefneg: ok=not ok
            res.append('P' if ok else 'F')
        return agg(res,some)
    if not members: return 'SKIP'
    res=[]
    for m in members:
        if op=='exists': ok = m[0]=='R'
        elif op=='empty':
            if m[0]=='U': ok=True
            else:
                t=ty(m[1])
                if t in ('list','map','str'): ok=len(m[1])==0
                elif t=='bool': ok=False
                else: raise EvalError()
        else:
            want={'is_string':'str','is_list':'list','is_struct':'map','is_bool':'bool','is_int':'int','is_float':'float','is_null':'null'}[op]
            ok = m[0]=='R' and ty(m[1])==want
        if opneg: ok=not ok
        if prefneg: ok=not ok
        res.append('P' if ok else 'F')
    return agg(res,some)
# ---- queries: parts: ('k',name) ('*',) ('[*]',) ('i',n)
def query(v, parts):
    if not parts: return [('R',v)]
    p=parts[0]; rest=parts[1:]
    if p[0]=='k':
        if ty(v)=='map' and p[1] in v: return query(v[p[1]],rest)
        return [('U',)]
    if p[0]=='i':
        if ty(v)=='list' and abs(p[1])<len(v): return query(v[abs(p[1])],rest)
        return [('U',)]
    if p[0]=='*':
        if ty(v)=='list' or ty(v)=='map':
            items=v if ty(v)=='list' else list(v.values())
            if not items: return [('U',)]
            out=[]
            for x in items: out.extend(query(x,rest))
            return out
        return query(v,rest)
    if p[0]=='[*]':
        if ty(v)=='list':
            if not v: return [('U',)]
            out=[]
            for x in v: out.extend(query(x,rest))
            return out
        return query(v,rest)
