#![no_main]
//! bytes -> choice stream -> wide AST + document (the harness's own decoder). On every accepted
//! case: no panic (C08), the verbose record explains itself (C02), the structured report
//! partitions the rules as the record says (C09).
use gv::ast::print_file;
use gv::choices::Choices;
use gv::gen::{gen_cfn_doc, gen_wide_file, Size};
use libfuzzer_sys::fuzz_target;

fuzz_target!(|data: &[u8]| {
    let stream: Vec<u32> = data.chunks(4).map(|c| {
        let mut b = [0u8; 4];
        b[..c.len()].copy_from_slice(c);
        u32::from_le_bytes(b)
    }).collect();
    let mut u = Choices::new(&stream);
    let sz = Size::quick();
    let doc = gen_cfn_doc(&mut u, &sz);
    let msgs = u.chance(1, 2);
    let file = gen_wide_file(&mut u, &doc, sz, msgs);
    let rules = print_file(&file);
    let doc_text = doc.to_json();
    if let Err(e) = gv::props::c08::fuzz_exercise(&rules, &doc_text, false) {
        panic!("C08 violated: {}\n{}\n{}", e, doc_text, rules);
    }
    let case = serde_json::json!({"kind": "record", "doc": doc_text, "rules": rules});
    if let gv::engine::CaseResult::Fail(f) = gv::props::c02::replay(&case) {
        if !f.sig.contains("generator-invalid") {
            panic!("C02 violated: {}\n{}\n{}", f.msg, doc_text, rules);
        }
    }
    let case9 = serde_json::json!({"doc": doc_text, "rules": [rules]});
    if let gv::engine::CaseResult::Fail(f) = gv::props::c09::replay(&case9) {
        if !f.sig.contains("generator-invalid") {
            panic!("C09 violated: {}\n{}\n{}", f.msg, doc_text, rules);
        }
    }
});
