#![no_main]
//! bytes = document text. C08: no loader may panic; C11: if the text is JSON, every loader that
//! accepts it loads the same document.
use libfuzzer_sys::fuzz_target;

const RULES: &str = "rule r {\n  a exists\n  Resources.*.Properties.a == 1 <<m>>\n}\nrule s {\n  AWS::S3::Bucket {\n    Properties exists\n  }\n}\n";

fuzz_target!(|data: &[u8]| {
    if let Ok(text) = std::str::from_utf8(data) {
        if let Err(e) = gv::props::c08::fuzz_exercise(RULES, text, false) {
            panic!("C08 violated: {}", e);
        }
        if let Err(e) = gv::props::c11::fuzz_loaders_agree(text) {
            panic!("C11 violated: {}", e);
        }
    }
});
