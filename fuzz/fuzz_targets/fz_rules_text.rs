#![no_main]
//! bytes = rules text. C08: no entry point may panic on it; a text the parser rejects must be
//! reported with line and column and must not be evaluated.
use libfuzzer_sys::fuzz_target;

const DOC: &str = r#"{"a": [{"k": 1, "name": "x"}, {"j": 2}], "b": "k", "c": {"a": 1.5, "k": null}, "items": [1, 2, "a"], "Resources": {"r1": {"Type": "AWS::S3::Bucket", "Properties": {"a": 1, "tags": ["x"]}}, "r2": {"Type": "AWS::EC2::Volume", "Properties": {"a": "1"}}}}"#;

fuzz_target!(|data: &[u8]| {
    if let Ok(rules) = std::str::from_utf8(data) {
        if let Err(e) = gv::props::c08::fuzz_exercise(rules, DOC, false) {
            panic!("C08 violated: {}", e);
        }
    }
});
