#![no_main]
//! bytes -> choice stream -> AST + synonym/layout choice stream; canonical and variant text must
//! parse to the same program (C14 oracle (i)).
use gv::ast::print_file;
use gv::choices::Choices;
use gv::gen::{gen_cfn_doc, gen_wide_file, Size};
use gv::vprint::print_variant;
use libfuzzer_sys::fuzz_target;

fuzz_target!(|data: &[u8]| {
    let stream: Vec<u32> = data.chunks(4).map(|c| {
        let mut b = [0u8; 4];
        b[..c.len()].copy_from_slice(c);
        u32::from_le_bytes(b)
    }).collect();
    let mut u = Choices::new(&stream);
    let sz = Size::quick();
    let doc = gen_cfn_doc(&mut u, &sz);
    let file = gen_wide_file(&mut u, &doc, sz, true);
    let canon = print_file(&file);
    let var = print_variant(&file, &mut u);
    if let Err(e) = gv::props::c14::fuzz_same_program(&canon, &var.text) {
        panic!("C14 violated: {}\n--- canonical\n{}\n--- variant\n{}", e, canon, var.text);
    }
});
