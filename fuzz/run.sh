#!/usr/bin/env bash
# ./fuzz/run.sh <target> <seconds> <jobs> <property-id>
# Builds the libFuzzer targets (nightly, ASan, -O) against /repo's working tree and runs one
# campaign. Prints VIOLATION lines for crashes that reproduce, writes a summary JSON.
# exit 0 no crash / 1 crash reproduced / 2 could not build or only timeouts (inconclusive)
set -uo pipefail
cd "$(dirname "$0")"
target="$1"; secs="${2:-120}"; jobs="${3:-8}"; prop="${4:-C08}"
export CARGO_NET_OFFLINE=true
export RUSTFLAGS="-Adangerous_implicit_autorefs -Awarnings"
if ! cargo +nightly fuzz build -O --fuzz-dir /verif/fuzz "$target" > target-build.log 2>&1; then
  echo "INCONCLUSIVE: fuzz target $target does not build (see fuzz/target-build.log)"; exit 2
fi
bin=target/x86_64-unknown-linux-gnu/release/$target
work=target/campaign/$target; rm -rf "$work"; mkdir -p "$work/corpus" "artifacts/$target"
rm -f artifacts/$target/*
seeds=(); [ -d "corpus/$target" ] && seeds=("corpus/$target")
( cd "$work" && ASAN_OPTIONS=detect_odr_violation=0 "../../../$bin" -max_total_time="$secs" -jobs="$jobs" -workers="$jobs" -max_len=4096 -len_control=0 \
    -timeout=25 -seed="${VERIF_SEED:-1}" -artifact_prefix="../../../artifacts/$target/" -print_final_stats=1 corpus ${seeds[@]/#/../../../} > /dev/null 2>&1 )
execs=$(cat "$work"/fuzz-*.log 2>/dev/null | grep -a 'stat::number_of_executed_units' | awk '{s+=$2} END {print s+0}')
crashes=0; timeouts=0; rc=0
for a in artifacts/$target/*; do
  [ -f "$a" ] || continue
  case "$(basename "$a")" in
    crash-*|oom-*)
      if ! ASAN_OPTIONS=detect_odr_violation=0 "$bin" "$a" > "$a.log" 2>&1; then
        crashes=$((crashes+1)); rc=1
        echo "VIOLATION property=$prop replay=/verif/fuzz/$a"
        grep -a -m1 -E 'violated|panicked at|ERROR: AddressSanitizer' "$a.log" | cut -c1-300 | sed 's/^/  /'
      fi ;;
    timeout-*|slow-unit-*) timeouts=$((timeouts+1)) ;;
  esac
done
echo "{\"target\": \"$target\", \"seconds\": $secs, \"jobs\": $jobs, \"executions\": ${execs:-0}, \"crashes_reproduced\": $crashes, \"timeouts\": $timeouts}" > "target/summary-$target.json"
echo "fuzz $target: ${execs:-0} executions in ${secs}s x ${jobs} jobs, crashes=$crashes timeouts=$timeouts"
if [ $rc -eq 0 ] && [ $timeouts -gt 0 ]; then echo "INCONCLUSIVE: $timeouts input(s) exceeded the 25 s per-input limit of $target (kept under fuzz/artifacts/$target)"; exit 2; fi
exit $rc
