#!/usr/bin/env bash
# setup_cmd of MANIFEST.json: build everything the checks need, offline, from files on disk only.
#  1. vendor/  : unpack both offline cargo caches into one directory source (DESIGN 2.3)
#  2. harness  : cargo build --release of /verif/harness (depends on /repo/guard by path)
#  3. tool     : the repository's own cfn-guard binary built by its pinned toolchain
# Fuzz targets are built lazily by `./check <ID> thorough` (fuzz/build.sh) because they need nightly.
set -euo pipefail
cd "$(dirname "$0")"
export CARGO_NET_OFFLINE=true
V=/verif/vendor
if [ ! -f "$V/.complete" ]; then
  rm -rf "$V"; mkdir -p "$V"
  python3 - "$V" <<'EOF'
import sys, os, glob, tarfile, hashlib, json
dst = sys.argv[1]
n = 0
for crate in sorted(glob.glob(os.path.expanduser('~/.cargo/registry/cache/*/*.crate'))):
    name = os.path.basename(crate)[:-len('.crate')]
    out = os.path.join(dst, name)
    if os.path.exists(out):
        continue
    sha = hashlib.sha256(open(crate, 'rb').read()).hexdigest()
    with tarfile.open(crate, 'r:gz') as t:
        t.extractall(dst)
    with open(os.path.join(out, '.cargo-checksum.json'), 'w') as f:
        json.dump({'files': {}, 'package': sha}, f)
    n += 1
print('vendored', n, 'crates')
EOF
  touch "$V/.complete"
fi
./build.sh all
