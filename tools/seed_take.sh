#!/usr/bin/env bash
# Take a sub-agent's delivery from its worktree: copy, commit (seed_check cleans uncommitted replays), run the named checks.
set -uo pipefail
wt="$1"; name="$2"; shift 2
mkdir -p /verif/seeded/$name && cp -r "$wt"/_seed/* /verif/seeded/$name/
cd /verif && git add -A && git commit -qm "seed $name (raw delivery)"
/verif/tools/seed_check.sh "$name" "$@" 2>&1 | grep -v '^\s*Compiling\|Finished'
