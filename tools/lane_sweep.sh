#!/usr/bin/env bash
# Parallel version of seed_sweep.sh: every kept seeded change is applied in a scratch worktree of
# /repo (one per lane, under /dev/shm), a lane-private copy of the harness is built against it and
# the check of the seed's own property is run at the quick tier (GV_ROOT / GV_TOOL point into the
# lane). /repo and /verif/harness are never touched, so this can run beside other work.
#   tools/lane_sweep.sh <lanes> [seed-name ...]      (default: every directory under seeded/)
# Result: one line per seed in /dev/shm/lanes-<pid>/result.sorted (printed at the end when seeds were missed), checks_result.json of each seed updated
# for its own property. Lanes and worktrees are removed at the end.
set -uo pipefail
lanes="${1:-4}"; shift || true
cd /verif
if [ $# -gt 0 ]; then names=("$@"); else names=($(ls seeded)); fi
base=/dev/shm/lanes-$$
rm -rf "$base"; mkdir -p "$base"
git -C /repo worktree prune
lane() {
  local i="$1"; shift
  local L="$base/l$i"
  mkdir -p "$L/verif"
  git -C /repo worktree add --detach -q "$L/repo" HEAD || return
  rsync -a --exclude target /verif/harness "$L/verif/"
  sed -i "s#path = \"/repo/guard\"#path = \"$L/repo/guard\"#" "$L/verif/harness/Cargo.toml"
  cp /verif/known_findings.json "$L/verif/"; mkdir -p "$L/verif/evidence"
  for name in "$@"; do
    local id="${name%%-*}"
    local d="/verif/seeded/$name"
    rm -rf "$L/verif/replays"; cp -r /verif/replays "$L/verif/replays"
    ( cd "$L/repo" && git checkout -q -- . && git apply "$d/patch.diff" ) 2> "$L/apply.err" || { echo "$name own=-1 patch does not apply" >> "$base/result.log"; continue; }
    if ! ( cd "$L/verif/harness" && CARGO_NET_OFFLINE=true cargo +stable build --release --quiet > "$L/build.log" 2>&1 ); then
      echo "$name own=-2 harness does not build" >> "$base/result.log"; continue
    fi
    case "$id" in C05|C06|C08|C12|C19)
      if ! ( cd "$L/repo" && cargo build --release --offline --quiet -p cfn-guard --bin cfn-guard --target-dir "$L/tool" > "$L/tool.log" 2>&1 ); then
        echo "$name own=-2 tool does not build" >> "$base/result.log"; continue
      fi;;
    esac
    local o rc v first
    o=$( (GV_ROOT="$L/verif" GV_TOOL="$L/tool/release/cfn-guard" VERIF_SEED="${VERIF_SEED:-1}" "$L/verif/harness/target/release/gv" run "$id" quick; echo "GVRC=$?") 2>&1 | grep -v '^proptest')
    rc=$(echo "$o" | sed -n 's/^GVRC=//p' | tail -1)
    v=$(echo "$o" | grep -c '^VIOLATION')
    # exit 2 (inconclusive: watchdog, generator health) is not a verdict on the seed
    if [ "$rc" != 0 ] && [ "$rc" != 1 ]; then echo "$name own=-3 check exited $rc: $(echo "$o" | grep -i -m1 inconclusive | cut -c1-160)" >> "$base/result.log"; continue; fi
    first=$(echo "$o" | grep -A1 '^VIOLATION' | head -2 | tail -1 | cut -c1-220)
    echo "$name own=$v $first" >> "$base/result.log"
    python3 - "$d/checks_result.json" "$id" "$v" "$first" <<'PY'
import json, sys
p, i, v, first = sys.argv[1:5]
try: r = json.load(open(p))
except Exception: r = {}
r[i] = {"violation_lines": int(v), "first": first}
json.dump(r, open(p, "w"))
PY
  done
  ( cd "$L/repo" && git checkout -q -- . )
  git -C /repo worktree remove --force "$L/repo"
  rm -rf "$L"
}
# deal the seeds round-robin
for ((i = 0; i < lanes; i++)); do
  mine=()
  for ((k = i; k < ${#names[@]}; k += lanes)); do mine+=("${names[$k]}"); done
  lane "$i" "${mine[@]}" &
done
wait
git -C /repo worktree prune
sort "$base/result.log" > "$base/result.sorted"
echo "seeds: $(wc -l < "$base/result.sorted")  missed: $(grep -c ' own=0 ' "$base/result.sorted")  broken: $(grep -c ' own=-' "$base/result.sorted")"
grep -E ' own=(0|-[0-9]) ' "$base/result.sorted" || true
if [ -n "${LANE_KEEP:-}" ]; then cp "$base/result.sorted" "$LANE_KEEP"; fi
rm -rf "$base"
