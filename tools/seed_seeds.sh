#!/usr/bin/env bash
# Is the detection of a kept seeded change independent of the PRNG seed? Applies the change to
# /repo, runs the property's quick check under each given VERIF_SEED, undoes the change.
#   tools/seed_seeds.sh <name> <check> <seed>...
set -uo pipefail
name="$1"; chk="$2"; shift 2
d=/verif/seeded/$name
cd /repo && git diff --quiet || { echo "/repo has uncommitted changes"; exit 2; }
git apply "$d/patch.diff" || { echo "$name: patch does not apply"; exit 2; }
line="$name $chk:"
for s in "$@"; do
  o=$(cd /verif && VERIF_SEED=$s ./check "$chk" quick 2>&1); rc=$?
  v=$(echo "$o" | grep -c '^VIOLATION')
  line="$line seed$s=rc$rc/v$v"
done
cd /repo && git checkout -- .
cd /verif && git clean -fdq replays
echo "$line"
