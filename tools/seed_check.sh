#!/usr/bin/env bash
# Apply a kept seeded change to /repo, run the named checks (quick tier), record which raise a
# VIOLATION, and undo the change straight afterwards.
set -uo pipefail
name="$1"; shift
d=/verif/seeded/$name
cd /repo && git diff --quiet || { echo "/repo has uncommitted changes"; exit 2; }
git apply "$d/patch.diff" || { echo "patch does not apply"; exit 2; }
res="{"
for c in "$@"; do
  o=$(cd /verif && ./check "$c" quick 2>&1 | grep -v '^proptest'); rc=$?
  v=$(echo "$o" | grep -c '^VIOLATION')
  first=$(echo "$o" | grep -A1 '^VIOLATION' | head -2 | tail -1 | cut -c1-220 | sed 's/"/\\"/g')
  echo "$c: violations=$v  $first"
  res="$res\"$c\": {\"violation_lines\": $v, \"first\": \"$first\"},"
done
cd /repo && git checkout -- . 
# replay files written while the seeded change was applied are not findings of the real tree
cd /verif && git clean -fdq replays   # NOTE: removes every uncommitted replay file: commit real ones first
echo "${res%,}}" > "$d/checks_result.json"
cd /verif && ./build.sh harness
