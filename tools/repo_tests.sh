#!/usr/bin/env bash
# Runs the repository's own suite (guard OFF = no hooks exist) and compares with BASELINE.json:
# prints any failing test that is not in the baseline's always_fail set.
cd /repo && cargo test --workspace --no-fail-fast --offline > /root/repo_test.log 2>&1
python3 - <<'PY'
import json,re
b=json.load(open('/root/.vp/BASELINE.json'))
af=set(x.split('::',2)[-1] for x in b['always_fail'])
log=open('/root/repo_test.log').read()
failed=set(re.findall(r'^test (\S+) \.\.\. FAILED$',log,re.M)) | set(re.findall(r'^    (\S+::\S+)$',log,re.M))
nfail=sum(int(x) for x in re.findall(r'^test result: \S+ \d+ passed; (\d+) failed',log,re.M))
passed=sum(int(x) for x in re.findall(r'^test result: \S+ (\d+) passed',log,re.M))
new=[f for f in failed if not any(a.endswith(f) for a in af)]
print('passed',passed,'failed (by name)',len(failed),'failed (cargo totals)',nfail,'unexpected failures:',new)
if 'error: could not compile' in log or 'error[' in log: print('COMPILE ERROR')
PY
