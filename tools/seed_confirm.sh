#!/usr/bin/env bash
# Confirm a seeded change delivered by a sub-agent in its scratch worktree /tmp/seed-<ID>[suffix]:
#  - with the patch: workspace builds, the repository's tests fail only in the baseline's always_fail set,
#    and demo.sh exits 1;  - without the patch: demo.sh exits 0.
# Then copy it to /verif/seeded/<name>/ and remove the build output.
set -uo pipefail
wt="$1"; name="$2"
cd "$wt" || exit 2
test -f _seed/patch.diff || { echo "no patch"; exit 2; }
out=/verif/seeded/$name; mkdir -p "$out"
log=$(mktemp)
cargo test --workspace --no-fail-fast --offline > "$log" 2>&1
python3 - "$log" > "$out/confirm_tests.txt" <<'PY'
import json,re,sys
b=json.load(open('/root/.vp/BASELINE.json'))
af=set(x.split('::',2)[-1] for x in b['always_fail'])
log=open(sys.argv[1]).read()
failed=set(re.findall(r'^test (\S+) \.\.\. FAILED$',log,re.M)) | set(re.findall(r'^    (\S+::\S+)$',log,re.M))
passed=len(re.findall(r'^test (\S+) \.\.\. ok',log,re.M))
nfail=sum(int(x) for x in re.findall(r'^test result: \S+ \d+ passed; (\d+) failed',log,re.M))
new=[f for f in failed if not any(a.endswith(f) for a in af)]
print(json.dumps({"passed":passed,"failed_total":nfail,"unexpected_failures":new,"compile_error":('error: could not compile' in log)}))
PY
cat "$out/confirm_tests.txt"
cargo build --offline -p cfn-guard --bin cfn-guard > /dev/null 2>&1
cp target/debug/cfn-guard /tmp/cfn-guard.patched.$$
( cd _seed && bash ./demo.sh /tmp/cfn-guard.patched.$$ > /dev/null 2>&1 ); rc_patched=$?
git stash -q -- guard guard-ffi guard-lambda
cargo build --offline -p cfn-guard --bin cfn-guard > /dev/null 2>&1
cp target/debug/cfn-guard /tmp/cfn-guard.orig.$$
( cd _seed && bash ./demo.sh /tmp/cfn-guard.orig.$$ > /dev/null 2>&1 ); rc_orig=$?
git stash pop -q
echo "demo: patched rc=$rc_patched (want 1), original rc=$rc_orig (want 0)"
echo "{\"demo_rc_patched\": $rc_patched, \"demo_rc_original\": $rc_orig}" > "$out/confirm_demo.txt"
rm -f /tmp/cfn-guard.patched.$$ /tmp/cfn-guard.orig.$$ "$log"
cp -r _seed/* "$out/"
rm -rf target
