#!/usr/bin/env bash
# Run every registered check at the given tier, validate the evidence files.
cd /verif
tier="${1:-quick}"
for id in $(python3 -c "import json;print(' '.join(c['property_id'] for c in json.load(open('MANIFEST.json'))['checks']))"); do
  s=$(date +%s); out=$( (./check $id $tier; echo "CHECKRC=$?") 2>&1 | grep -v '^proptest'); rc=$(echo "$out" | sed -n 's/^CHECKRC=//p' | tail -1)
  echo "$id rc=$rc $(( $(date +%s) - s ))s :: $(echo "$out" | grep -E '^(C[0-9]+ |VIOLATION|INCONCLUSIVE)' | head -3 | tr '\n' ' ')"
done
python3-vt - <<'PY'
import json,jsonschema,glob
ms=json.load(open('/root/.vp/MANIFEST.schema.json')); es=json.load(open('/root/.vp/EVIDENCE.schema.json'))
m=json.load(open('/verif/MANIFEST.json')); jsonschema.validate(m,ms)
for c in m['checks']:
    try:
        jsonschema.validate(json.load(open('/verif/'+c['evidence_file'])),es)
    except Exception as e:
        print('EVIDENCE INVALID', c['property_id'], str(e)[:200])
print('manifest + evidence schemas ok')
PY
