#!/usr/bin/env python3
"""Fill the `commit` and `record` fields of fixed findings in known_findings.json from /repo's fix: commits."""
import json, subprocess
SUBJ = {
 "F1": "prefix `not` was ignored on binary clauses",
 "F2": "`not` was ignored on parameterized rule calls",
 "F3": "run_checks returned only the tail",
 "F4": "--payload ignored --input-parameters",
 "F5": "a filter applied to a struct after `this`",
 "F6": "the error for a malformed data file panicked",
 "F7": "data that is not a well formed document was accepted",
 "F8": "the CloudFormation console reporter hit unreachable!() for failures outside of resources",
 "F9": "a regular expression that hits the engine's backtracking limit",
 "F10": "reporting a failed check on a literal variable hit unreachable!()",
 "F11": "a rule that refers to itself overflowed the stack",
 "F12": "join, substring and regex_replace panicked",
 "F13": "substring() panicked when an offset fell inside",
 "F14": "substring() offsets were truncated to 16 bits",
 "F15": "--structured panicked when an input parameter file",
 "F16": "rulegen printed rules, properties and IN-list members in hash order",
 "F17": "plain YAML scalars `inf`, `infinity` and `nan`",
 "F19": "a literal argument of a parameterized rule behaved differently",
 "F21": "rulegen panicked on a resource without a string `Type`",
 "F23": "`L not in [[..],[..]]` could never pass",
 "F26": "a filter after `[*]` or `.*` on a list of maps",
 "F27": "the Terraform-plan console reporter panicked",
 "F28": "join() raised an error for non-string values",
 "F29": "data that is not a well formed document was accepted",
 "F30": "`test -o json|yaml|junit` exited 0",
 "F35": "a variable defined in terms of itself overflowed the stack",
 "F36": "the CloudFormation console reporter subtracted below zero",
 "F37": "`in` with a regular expression that hits the backtracking limit",
 "F38": "a custom message of only blanks or separators",
 "F39": "the source excerpt of the console reporter depended on the order",
 "F47": "parse_int() silently saturated floats",
 "F46": "`test --dir` ran a test file against the wrong rules file",
 "F43": "an empty plain YAML scalar was loaded as the empty string",
 "F44": "a map with the same key twice was loaded with inconsistent contents",
 "F40": "captured map keys were recorded again every time",
 "F52": "plain validate exited 0 when a rules file could not be read",
 "F51": "a data file holding several YAML documents was evaluated",
 "F53": "the error for a rule that does not exist listed the known rule names in hash order",
 "F54": "a key capture that shares its name with a `let` variable",
 "F55": "the CloudFormation console reporter hit unreachable!() for a resource whose name starts with",
 "F57": "a list index beyond the i32 range wrapped around",
 "F58": "JUnit output was not well-formed XML when a quoted value held control characters",
 "F59": "rulegen wrote floats with a positive exponent",
 "F60": "the Terraform console reporter panicked (todo!)",
 "F61": "long lines with multi-byte characters made the output writer panic",
 "F62": "JSON documents given to the library API had floats read one ulp off",
 "F65": "a range inside a list literal never matched",
 "F66": "the structured report rewrote newlines in the custom message",
 "F67": "a line break between a key capture",
 "F31": "`test` listed the rules of a test case in a different order",
}
log = subprocess.run(["git", "-C", "/repo", "log", "--format=%h %s"], capture_output=True, text=True).stdout.splitlines()
k = json.load(open('/verif/known_findings.json'))
missing = []
for f in k['findings']:
    if f['status'] != 'fixed':
        continue
    subj = SUBJ.get(f['id'])
    hit = [l for l in log if subj and subj in l and l.split(' ', 1)[1].startswith('fix:')]
    if not hit:
        missing.append(f['id']); continue
    h = hit[0].split(' ')[0]
    f['commit'] = h
    f['record'] = f"fixed: property={f['property']} {h} {f['what']}"
json.dump(k, open('/verif/known_findings.json', 'w'), indent=1)
fixes = [l for l in log if l.split(' ', 1)[1].startswith('fix:')]
used = {f['commit'] for f in k['findings'] if f['status'] == 'fixed'}
print("fix commits:", len(fixes), "referenced:", len(used), "findings without commit:", missing)
print("fix commits not referenced by any finding:", [l for l in fixes if l.split(' ')[0] not in used])
