#!/usr/bin/env python3
"""Writes /verif/seeded/<name>/meta.json 'verif' block and regenerates the seed table in DESIGN.md."""
import json, os, glob, re
NOTES = {
 "C02-a": "escaped at first (no custom message was ever generated on a parameterised call); the wide generator now puts messages on calls and references",
 "C07-a": "escaped C07 at first (one rules file per case); C07 gained the multi-rules-file stage",
 "C11-a": "escaped at first (tag table used non-empty payloads); tagged empty scalars added",
 "C13-a": "escaped at first (no -0.0 in the universe); -0.0 added",
 "C15-a": "escaped at first (no key interpolation); interpolation transform added",
 "C06-a": "escaped at first (no document on which every rule SKIPs); 'not applicable' data kind added",
 "C05-a": "escaped at first (no failing `query == query` clause with several differing values); such a rule is now part of every C05 case",
 "C08-a": "escaped at first (no index after an interpolated key); two ill-typed shapes `c.%k[N]` added; the sub-agent also reported F35",
 "C17-a": "escaped at first (parameter files always had distinct base names); half of the cases now use <dir-i>/params.json",
 "C18-a": "escaped at first (regex_replace was given one matching member); 1-3 matching members among unresolved / non-string ones",
 "C19-a": "escaped at first (backslashes in strings were excluded wholesale as F18); F18 narrowed to trim / quote / trailing backslash, which also exposed F34",
 "C02-b": "escaped at first (one document per invocation); C02 'multi-document' and C05 'batch' stages added",
 "C10-b": "escaped at first (documents never began with blank lines or indentation); leading whitespace added to the document layouts",
 "C05-b": "escaped at first (single-word keys only: the tool's key-case converters were never exercised); documents now carry multi-word keys in several naming conventions that the rules query in yet another one (C02/C05/C07/C12 batch stages)",
 "C07-b": "escaped C07 at first (one data file per case; caught by C06); C07 gained the multi-data stage (exit code, per-file status, JUnit counters over 2-3 data files)",
 "C08-b": "escaped at first (the hand-written list of self-referential variables had no function-valued `let` inside a block); replaced by a generated product scope x definition kind x cycle length x use, run through the real binary; the sub-agent also reported F36-F38",
 "C11-b": "escaped at first (the block writer never used literal / folded block scalars); `|`, `|-`, `>-` added to the YAML block writer",
 "C12-b": "escaped at first (all rules files had distinct base names in one directory); a third of the batches now use <dir-i>/policy.guard and <dir-j>/template.json",
 "C14-b": "caught by the C14 rewrite stage; C01 was blind to it (no clauses outside rules) - the implicit default rule was added to C01's generator and model",
 "C17-b": "escaped at first (no rule walked the merged top-level map as a whole); `this.*`, keys filters and count(this.*) rules added",
 "C19-b": "escaped at first (ints up to 65536 only); integers beyond 2^53 added",
 "C15-b": "same mechanism as C01-a / C04-a (the sub-agents converged on it independently)",
 "C01-c": "escaped at first (the quick tier never nested a filter inside a filter, the only way a filter clause SKIPs); depth budget raised",
 "C05-c": "escaped at first (no rule whose result could depend on TZ); stage 'environment' added",
 "C09-c": "escaped at first (messages of failing value checks below a PASSed `some` block counted as allowed); the allowed set is now collected along FAIL paths only",
 "C10-c": "escaped at first (an empty `from` path was always taken for a literal); `from` of a key-headed query must point into the document",
 "C11-c": "escaped at first (no string ended in a newline, documents were never indented as a whole); both added",
 "C14-c": "escaped at first (no `let` inside type blocks), then caught under 2 of 3 PRNG seeds only; block variables, twin resources and variable-only blocks added until every seed tried catches it",
 "C15-c": "escaped at first (parameter names never coincided with caller variables); crossed-names abstraction added",
 "C18-c": "escaped at first (no conversion of a parse_char result); parse_int / parse_float of chars added",
 "C02-c": "caught at first only under some PRNG seeds; C02 stage 'values' (all status vectors of 1-3 values for type / query / filter / some blocks) now catches it by enumeration",
 "C05-d": "escaped at first (one data file per run); multi-data modes (sarif, json, junit, console over four data files) added to the process stage",
 "C08-d": "escaped at first (no oracle for 'does not conform to the grammar'); stage 'framing': a comment header / trailer never decides whether a text is accepted",
 "C09-d": "escaped at first (a listed check that lost its message was not noticed); the message oracle now works both ways: every message whose own clause failed on a FAIL path must be carried by a listed check",
 "C11-d": "escaped at first (floats were written in one spelling); `1e+22`, `1.0e22`, `1E22` spellings added",
 "C13-d": "escaped at first (no two integers that round to the same double); i64::MAX-1 and 2^53 neighbours added",
 "C15-d": "caught at first only under some PRNG seeds; stage 'mixed-projections' added (projection resolving for some entries only, through variables at every level and through parameters)",
 "C16-d": "escaped at first (ground truth was the library loader, which like `test` has no source locations); statuses are now cross-checked with the validate command, programs capture keys across several maps",
 "C17-d": "escaped at first (one data file per run); a structured run over the data file and a copy of it added",
 "C02-e": "escaped at first (a negated call of a SKIPped parameterised rule was too rare); C02 stage 'named-clauses' enumerates R / not R / f(k) / not f(k) x forced status x `or` companions",
 "C04-e": "escaped at first (only the two same-named definitions were exchanged); the duplicate-names stage now also reorders the other rules while keeping the definitions in their order",
 "C05-e": "escaped at first (outputs were only read from stdout); parse-tree / rulegen `-o FILE` modes with FILE absent, longer or shorter before the run",
 "C06-e": "escaped C06 at first (distinct base names; caught by C12); a third of the C06 cases use <dir-i>/policy.guard",
 "C07-e": "hidden at first behind the signature of known finding F42 (any table disagreement under duplicated names); the stage now compares the table's PASS / FAIL / SKIP sets one by one and only the exact F42 pattern keeps the known signature",
 "C08-e": "escaped at first (the test command only ever got one, usually unusable, spec file); stage 'test-specs': every combination of 2-3 spec files of 7 kinds x 4 formats",
 "C10-e": "escaped at first (no empty-string key); a fifth of the documents carry an entry under the key \"\"",
 "C13-e": "escaped at first (the mini regex grammar had no brace quantifiers); `{n}`, `{n,}`, `{n,m}` added to the independent matcher and the pattern generator",
 "C17-e": "escaped at first (parameter files held only scalars on which all loaders agree); stage 'raw-scalars': 26 disputed spellings in a parameter file and in the data vs the concatenated text",
 "C19-e": "escaped at first (mutations only used values foreign to the whole template); every other mutation now borrows a value of another property of the same type",
 "C04-f": "escaped at first (one capture variable per map); a second capture variable over the same map added to the capture idiom",
 "C05-f": "escaped at first (no two property values that compare equal as numbers but differ as text); numeric ties (`Sz` / `Big` properties) added to the rulegen templates",
 "C06-f": "escaped at first (no rule name defined twice in a tested file); a doubly defined rule `d` with expectations that mismatch in one of three ways added",
 "C07-f": "escaped at first (rules files of one run always had distinct base names); a third of the multi-file cases use <dir-i>/rules.guard; the sub-agent also reported F58",
 "C08-f": "escaped at first (key filters only had literal right-hand sides); `[ keys <op> %var ]` added to the generator (variable resolving to no / one / several values) and four shapes to the ill-typed table",
 "C11-f": "escaped at first (no tagged scalar in key position among the negatives); five tagged-key texts added",
 "C12-f": "escaped at first (JUnit was only read by C07, one data file at a time for the counters per suite); C12 compares each <testsuite> of a batch with the one of validating that file alone, and the totals with the sums",
 "C14-f": "escaped at first (comments were only placed between rule-body lines); a line break with a comment may now follow `[` / `name |` and precede `]` in filters, key filters and key captures, and comment lines separate filter clauses",
 "C15-f": "escaped at first (abstraction sites were clauses of bodies only); literals in the condition of an inner `when` block are abstracted to rule / file level, optionally with a `let` of the same name inside the guarded block",
 "C18-f": "escaped at first (substring offsets were literals, and the grammar has no negative float literal); a third of the substring calls take their offsets from the document (negative, whole, huge floats; i64::MIN)",
 "C03-g": "escaped C03 at first (the flip law was only asserted for scalars and lists of lists; C01's model caught it); the law now also covers a list that lies entirely inside (the empty list included) or entirely outside a list of scalars",
 "C04-g": "escaped at first (no two file-scope queries with the same path and different filters); the type-guard idiom was added to a quarter of the wide programs: 2-3 rules guarded by `when Resources.*[ Type == 'T' ] !empty` for different T, counting lets and a parameterised rule called from a guard",
 "C06-g": "escaped at first (whether a pair is an evaluation error was learnt from the library, which the change affects alike); the `ee..` rules texts are now errors by construction, and raise them inside when blocks, query blocks, filters, rule conditions, referenced and parameterised rules",
 "C07-g": "escaped at first (quick-xml does not check character data unless asked); the JUnit parser now unescapes every text and attribute value; `&` in values and custom messages",
 "C08-g": "escaped at first (no float literal that overflows to infinity); three ill-typed shapes and dictionary tokens added; the grammar oracle now tells a parse-tree failure after parsing (infinite float cannot be serialised) from a rejection by the grammar",
 "C09-g": "escaped at first (the truth about messages came from the evaluation record, which the change rewrites); the association message -> callee is now taken from the generated program, and parameterised rules may call earlier ones",
 "C11-g": "relied on serde_json's inexact float parsing, which became finding F62 and was repaired; what is left of the change (JSON `-0` read as a float from a .json test file) is caught by the new stage 'number-spellings'",
 "C12-g": "escaped C12 at first (caught by C06 once it had several test files per rules file); C12 now runs the one-case files as a directory (-a / -m / default x 4 formats): the run fails iff some file fails alone; half of the cases state the true statuses",
 "C15-g": "escaped at first (interpolated variables were single strings); a list of two key names, one possibly missing, vs the clause written once per key",
 "C16-g": "escaped at first (no clauses outside rules in tested files); a third of the programs have an implicit default rule with expectations under the name the test command gives it",
 "C17-g": "escaped at first (parameter files were regular files); layout bit: the last parameter file is a symbolic link to a file without a data extension",
 "C18-g": "escaped at first (out-of-range ints for parse_char were small); ints congruent to a digit modulo 2^8 / 2^16 / 2^32 and the i64 bounds added",
 "C04-h": "escaped at first (C04's documents never held two spellings of one multi-word key); a third of the wide cases now do, with rules that reach the families through different case conversions",
 "C05-h": "escaped at first (the batch stage only compared --structured runs); plain -o json / -o yaml / console -p over 2-3 data files vs the files on their own",
 "C07-h": "escaped at first (every entry point got the same well-behaved JSON); stage 'entry-points': ten texts whose reading is not obvious (`-0`, repeated names, ints beyond i64, overflowing floats, surrogate escapes, YAML hex) must be decided alike through file, stdin and --payload",
 "C08-h": "escaped at first (a watchdog hit was always inconclusive, and no template had an escaped quote in a nested value); a process that has burnt 60 CPU seconds of its 90 s on a 300-byte input is a hang, whatever the load; two rulegen templates added",
 "C09-h": "escaped at first (the record was trusted as it stood); the truth record must itself follow from its parts (C02's laws) before the report is compared with it",
 "C10-h": "escaped at first (lists had at most a handful of entries); a fifth of the documents hold a list of 11-130 entries with failing and unresolved checks on single entries",
 "C11-h": "escaped at first (no NUL in the string universe); `ab\\0cd`, a lone NUL and other control characters added (which exposed F64)",
 "C14-h": "escaped at first (the variant printer only broke lines after commas); blanks and line breaks before commas, after `[` and before `]`",
 "C15-h": "escaped at first (block-level variables were bound directly, blocks mostly ran on one value); stage 'block-chains': blocks over 2-4 entries whose clause goes through 1-3 block-level variables defined from one another (also out of order, also from `this`), plus a chained variant of the prefix transform",
 "C16-h": "escaped at first (one guard file per --dir run); a second guard file `x-logs.guard` with its own test file",
 "C17-h": "escaped at first (structured runs were only read as JSON); structured YAML, JUnit and SARIF modes",
 "C18-h": "escaped at first (ints for parse_string were small); ints beyond 2^53 for every function (this also exposed a swallowed panic of the harness itself, see DESIGN 10.3)",
 "C19-h": "escaped at first (logical ids were numbered type by type); ids and document order are now independent of the types",
 "C07-i": "escaped at first (several rules files went through -r only); the multi-file stage also hands the rules texts to --payload (plain -o json and console)",
 "C08-i": "escaped at first (short-form tags only sat on the kind of node they are meant for); five documents with every tag on the wrong kind of node, also at the root",
 "C10-i": "escaped at first (no map with two spellings of one key below a converted key; and a reached point was accepted for *any* context prefix, the reached value itself included); a fifth of the documents carry the case-twin idiom, the path oracle knows the key-case conversion (the key as written first), and the idiom's rule-level clauses are judged against the root context only",
 "C13-i": "escaped at first (no two distinct floats closer than f64::EPSILON in the quick universe); 1e-300 / 0.0 and 1.0 / 1.0000000000000002 added",
 "C15-i": "escaped at first (shadowing definitions were literals); half of the shadowing lets are function calls yielding the literal (not under negated operators: F24)",
 "C09-a": "caught through the file-status law; C09 now also compares rule names with the generated programs",
}
rows = []
for d in sorted(glob.glob('/verif/seeded/*')):
    name = os.path.basename(d)
    try:
        meta = json.load(open(d + '/meta.json'))
    except Exception:
        continue
    res = {}
    if os.path.exists(d + '/checks_result.json'):
        try:
            res = json.load(open(d + '/checks_result.json'))
        except Exception:
            res = {}
    conf_t = open(d + '/confirm_tests.txt').read().strip() if os.path.exists(d + '/confirm_tests.txt') else ''
    conf_d = open(d + '/confirm_demo.txt').read().strip() if os.path.exists(d + '/confirm_demo.txt') else ''
    caught = [c for c, v in res.items() if v.get('violation_lines', 0) > 0]
    missed = [c for c, v in res.items() if v.get('violation_lines', 0) == 0]
    meta['verif'] = {"confirmed_tests": conf_t, "confirmed_demo": conf_d, "checks_run": "./check <ID> quick with the patch applied to /repo, then git checkout -- .",
                     "caught_by": caught, "not_caught_by": missed, "note": NOTES.get(name, "")}
    json.dump(meta, open(d + '/meta.json', 'w'), indent=1)
    summ = (meta.get('summary') or '').replace('|', '/').replace('\n', ' ')
    if len(summ) > 230:
        summ = summ[:227] + '...'
    rows.append(f"| {name} | {meta.get('property','')} | {summ} | {', '.join(caught) or '-'} | {', '.join(missed) or '-'} | {NOTES.get(name,'')} |")
table = "| seed | property | change | caught by (quick) | run but not caught | note |\n|---|---|---|---|---|---|\n" + "\n".join(rows)
p = '/verif/DESIGN.md'
s = open(p).read()
if 'SEED_TABLE' in s:
    s = s.replace('SEED_TABLE', '<!-- seed-table-begin -->\n' + table + '\n<!-- seed-table-end -->')
else:
    s = re.sub(r'<!-- seed-table-begin -->.*?<!-- seed-table-end -->', lambda m: '<!-- seed-table-begin -->\n' + table + '\n<!-- seed-table-end -->', s, flags=re.S)
open(p, 'w').write(s)
print(table)
