#!/usr/bin/env python3
"""Writes /verif/seeded/<name>/meta.json 'verif' block and regenerates the seed table in DESIGN.md."""
import json, os, glob, re
NOTES = {
 "C02-a": "escaped at first (no custom message was ever generated on a parameterised call); the wide generator now puts messages on calls and references",
 "C07-a": "escaped C07 at first (one rules file per case); C07 gained the multi-rules-file stage",
 "C11-a": "escaped at first (tag table used non-empty payloads); tagged empty scalars added",
 "C13-a": "escaped at first (no -0.0 in the universe); -0.0 added",
 "C15-a": "escaped at first (no key interpolation); interpolation transform added",
 "C06-a": "escaped at first (no document on which every rule SKIPs); 'not applicable' data kind added",
 "C05-a": "escaped at first (no failing `query == query` clause with several differing values); such a rule is now part of every C05 case",
 "C08-a": "escaped at first (no index after an interpolated key); two ill-typed shapes `c.%k[N]` added; the sub-agent also reported F35",
 "C17-a": "escaped at first (parameter files always had distinct base names); half of the cases now use <dir-i>/params.json",
 "C18-a": "escaped at first (regex_replace was given one matching member); 1-3 matching members among unresolved / non-string ones",
 "C19-a": "escaped at first (backslashes in strings were excluded wholesale as F18); F18 narrowed to trim / quote / trailing backslash, which also exposed F34",
 "C02-b": "escaped at first (one document per invocation); C02 'multi-document' and C05 'batch' stages added",
 "C10-b": "escaped at first (documents never began with blank lines or indentation); leading whitespace added to the document layouts",
 "C09-a": "caught through the file-status law; C09 now also compares rule names with the generated programs",
}
rows = []
for d in sorted(glob.glob('/verif/seeded/*')):
    name = os.path.basename(d)
    try:
        meta = json.load(open(d + '/meta.json'))
    except Exception:
        continue
    res = {}
    if os.path.exists(d + '/checks_result.json'):
        try:
            res = json.load(open(d + '/checks_result.json'))
        except Exception:
            res = {}
    conf_t = open(d + '/confirm_tests.txt').read().strip() if os.path.exists(d + '/confirm_tests.txt') else ''
    conf_d = open(d + '/confirm_demo.txt').read().strip() if os.path.exists(d + '/confirm_demo.txt') else ''
    caught = [c for c, v in res.items() if v.get('violation_lines', 0) > 0]
    missed = [c for c, v in res.items() if v.get('violation_lines', 0) == 0]
    meta['verif'] = {"confirmed_tests": conf_t, "confirmed_demo": conf_d, "checks_run": "./check <ID> quick with the patch applied to /repo, then git checkout -- .",
                     "caught_by": caught, "not_caught_by": missed, "note": NOTES.get(name, "")}
    json.dump(meta, open(d + '/meta.json', 'w'), indent=1)
    summ = (meta.get('summary') or '').replace('|', '/').replace('\n', ' ')
    if len(summ) > 230:
        summ = summ[:227] + '...'
    rows.append(f"| {name} | {meta.get('property','')} | {summ} | {', '.join(caught) or '-'} | {', '.join(missed) or '-'} | {NOTES.get(name,'')} |")
table = "| seed | property | change | caught by (quick) | run but not caught | note |\n|---|---|---|---|---|---|\n" + "\n".join(rows)
p = '/verif/DESIGN.md'
s = open(p).read()
if 'SEED_TABLE' in s:
    s = s.replace('SEED_TABLE', '<!-- seed-table-begin -->\n' + table + '\n<!-- seed-table-end -->')
else:
    s = re.sub(r'<!-- seed-table-begin -->.*?<!-- seed-table-end -->', lambda m: '<!-- seed-table-begin -->\n' + table + '\n<!-- seed-table-end -->', s, flags=re.S)
open(p, 'w').write(s)
print(table)
