#!/usr/bin/env bash
# Re-run every kept seeded change against the check of its own property (plus the checks named in
# its previous result), to make sure detection did not regress. Commits nothing.
cd /verif
git diff --quiet -- replays known_findings.json || { echo "commit replays/known_findings first (seed_check cleans untracked replays)"; exit 2; }
for d in seeded/*/; do
  n=$(basename "$d"); p=${n%%-*}
  extra=$(python3 -c "
import json,sys
try:
    r=json.load(open('$d/checks_result.json')); print(' '.join(k for k in r if k!='$p'))
except Exception: print('')")
  echo "== $n"; ./tools/seed_check.sh "$n" "$p" $extra 2>&1 | grep -E "^C[0-9]+: violations" | cut -c1-160
done
python3 tools/seed_table.py > /dev/null
