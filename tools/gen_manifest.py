#!/usr/bin/env python3
"""Regenerates /verif/MANIFEST.json from the table below (one entry per built check)."""
import json

BASE = "cd /repo && cargo nextest run --workspace --no-fail-fast --offline || cargo test --workspace --no-fail-fast --offline"

CHECKS = {
 "C01": dict(
   text="Differential test of run_checks verdicts against an independent reference interpreter of the documented core language: bounded-exhaustive over all single-clause programs of a value/literal/query-shape universe in five syntactic forms (plain, prefix-not, query block, filter, when), plus proptest-generated composed programs (filters, blocks, when, rule references in both directions, lets at three scopes, same-named rules). The implicit `default` rule (clauses outside any rule) and filters nested inside filters are part of the generated programs and of the model.",
   note="Trusts the reference model (harness/src/model.rs); its undocumented corners were calibrated against the pinned tree (DESIGN 4, Appendix A). Bounded program size/depth and document universe.",
   tech="differential PBT against a reference model (proptest choice streams + bounded-exhaustive enumeration)", ref="DESIGN.md sections 4, 5/C01"),
 "C02": dict(
   text="Every composite node of the verbose evaluation record is recomputed from its children's recorded statuses (file, rule, rule/when/type conditions, when blocks, or-lines, query blocks, type blocks, rule references incl. negation) on proptest-generated wide programs; plus bounded-exhaustive enumeration of all PASS/FAIL/SKIP leaf assignments of CNF shapes at the 8 call sites of the combinator; root status vs non-verbose output and exit code. A further stage gives 2-3 documents to one validate --print-json invocation and checks every record of the stream, each against the same document evaluated alone, and the exit code against the record roots.",
   note="Leaf statuses are taken from the record itself (C01 judges leaves). Negation flags and block sizes are read from the tool's own parse tree. Blocks whose query carries a filter or variable are not judged (their query evaluation leaves records inside the block node).",
   tech="invariant checking over generated evaluation records + exhaustive shape enumeration with a three-line combinator oracle", ref="DESIGN.md 5/C02"),
 "C03": dict(
   text="Metamorphic negation laws evaluated by the tool on both sides: prefix not == operator-level negation, double negation, flip law on single comparable values (incl. ordering complement), in 5 syntactic contexts and 3 right-hand forms, exhaustively over a class product; forced PASS/FAIL/SKIP rule references and parameterised calls under not; random clauses from the shared generator.",
   note="Comparability for the flip law is decided by value types in the harness; no reference model is involved beyond locating the selected value.",
   tech="metamorphic testing (pairs of programs, bounded-exhaustive class product + proptest)", ref="DESIGN.md 5/C03"),
 "C04": dict(
   text="Permutation / duplication invariance: lines of any CNF, alternatives of any line, rules of the file, duplicated lines/alternatives/rules; all permutations up to 4 items, sampled beyond; per-rule statuses by name and file status must not change. A quarter of the wide programs capture map keys in a variable (`map[ name | filter ]`), count them in a file-level let and use both in a rule that refers to the capturing rule.",
   note="Cases where some ordering raises an evaluation error are discarded (statement's precondition); unique rule names.",
   tech="metamorphic testing over proptest-generated programs (history = population order of memoised variables / rule statuses)", ref="DESIGN.md 5/C04"),
 "C07": dict(
   text="One (rules, data) pair rendered through ~27 configurations (console table with every -S selection and -v, plain json/yaml, -p record, --structured json/yaml/junit/sarif, files / stdin / payload, run_checks verbose and non-verbose); PASS/FAIL/SKIP sets, file status and exit code extracted from every output must equal the library record's; YAML==JSON as data; JUnit well-formed with consistent counters; SARIF result count == failing leaf checks; reports beyond 8 KiB / 64 KiB. Stages 'multi-file' (2-3 rules files), 'multi-data' (2-3 data files, failing file often not last: exit code, per-file status, JUnit counters) and 'duplicate-names' (a rule name defined twice).",
   note="Only evaluations without error are compared (error exits are C06's subject). Parsers for the outputs live in the harness (serde_json, serde_yaml, quick-xml). Known finding F42 (duplicated rule name, console vs JSON) excluded by signature.",
   tech="differential testing across output formats / entry points on proptest-generated inputs", ref="DESIGN.md 5/C07"),
 "C09": dict(
   text="Structured report vs verbose record of the same evaluation: compliant / not_applicable / not_compliant are exactly the PASS / SKIP / FAIL rules, disjoint, each once; file status; exit code; every listed check's custom message belongs to a check that failed under that rule; multi-rules-file report == union/concatenation of single-file reports; CLI (payload) and library entry points. A listed check must lie on a path of FAIL nodes below its rule (a check under a clause / block / disjunction that did not FAIL is not a cause).",
   note="Ground-truth statuses come from the verbose record (C01/C02 judge them). Globally distinct rule names and unique messages by construction.",
   tech="invariant checking of generated reports against the evaluation record (proptest)", ref="DESIGN.md 5/C09"),
 "C13": dict(
   text="Bounded-exhaustive value-pair matrix (ints incl. i64 bounds, floats incl. -0.0/subnormal/1e308, strings incl. unicode, bools, null, lists, maps) x six operators x prefix-not x literal/query placement against native comparison; exhaustive range-bracket enumeration; sampled `in [..]` and regex (independent backtracking matcher).",
   note="List/single-value coercion exempt (documented); two recorded known findings (F24, F25) are excluded by exact signature.",
   tech="bounded-exhaustive enumeration + PBT against native comparison / an independent regex matcher", ref="DESIGN.md 5/C13"),
 "C15": dict(
   text="P vs P' where one occurrence is abstracted: right-hand literal -> let (file/rule/block/when scope, optional shadowing), left-hand query prefix -> let + %v.rest, block query -> let, unused let (incl. one that would raise an error), clause -> parameterised rule with query or literal argument; rule order of P' shuffled to vary which reference forces the lazy evaluation. Also a two-parameter rule whose parameter names are the caller's variable names, passed crossed over.",
   note="Exempt as documented: emptiness test on a bare variable; `%v[*]` (no-op on the result set) and filters directly after a variable are not treated as textual substitutions.",
   tech="metamorphic testing (program transformation) over proptest-generated programs", ref="DESIGN.md 5/C15"),
 "C05": dict(
   text="Every case runs 5 times as a fresh process of the real binary in 16 modes (validate console/json/yaml/structured json,yaml,junit,sarif/-v/-p; test console/json/yaml/junit; parse-tree json/yaml; rulegen) under varied irrelevant environment (HOME, TZ, LANG, cwd): equal exit status, byte-identical structured output (JUnit time masked), console output identical as a multiset of lines; plus 5 interleaved in-process evaluations. Stage 'batch': one validate --structured invocation over 2-3 documents must report per document exactly what an invocation of its own reports (nothing carried over from what was evaluated earlier in the process). Stage 'environment': programs whose result could depend on time zone or locale (parse_epoch with / without offset, case mapping, locale-formatted numbers, string order) under six TZ / LANG / LC_* settings. Data files are written in single-line and multi-line layouts; documents carry multi-word keys in several naming conventions.",
   note="Five runs per mode; an order leak over n>=3 hashed entries escapes a case with probability <= (1/6)^4. NO_COLOR held fixed.",
   tech="repeated-execution differential testing across fresh processes (hash seeds) on proptest-generated inputs", ref="DESIGN.md 5/C05"),
 "C06": dict(
   text="Exit-code oracle computed from facts established through other code paths (parse-tree decides 'parses', run_checks decides each pair's status) for 1-3 rules files x 1-3 data files of 6x5 kinds in 10 invocation modes, in process and through the real binary (main's Err -> 255); test command: rules/spec/expectation kinds x layouts x formats. `test --dir` runs hold 1-4 guard files (stems sorting before / after / extending the primary stem, in sub-directories; good, mismatching, broken, without tests); rules files without any rule.",
   note="Template-based file kinds (the fold over files is what is searched, not the clause language). Known finding F41 (rules file without rules) excluded by signature.",
   tech="PBT with a differential oracle (exit code vs independently established per-pair facts)", ref="DESIGN.md 5/C06"),
 "C08": dict(
   text="Any panic / abort / signal / hang is a violation: 53 ill-typed parser-accepted program shapes x 29 awkward documents (bounded-exhaustive product), token/byte mutants of generated programs and documents, token soup for every file role, through run_checks, parse-tree, validate (payload in 6 modes, files, stdin, -i) and test; recursion, 48-64-deep nesting and rulegen edge cases through the real binary; rejected rules files must give exit 5 with line/column and no evaluated rule. Variable and rule cycles are generated (6 scopes x 7 definition kinds x length 1-3 x 6 uses; 6 link kinds x 3 lengths) and run through the real binary.",
   note="In-process calls use catch_unwind (panic site = signature); stack-exhausting inputs go through the binary. A watchdog hit on anything but the designated probe of known finding F33 is reported as inconclusive (exit 2). libFuzzer targets under fuzz/ extend this in the thorough tier.",
   tech="robustness fuzzing: grammar-aware mutation + enumerated hazard product (proptest) with crash/grammar oracles", ref="DESIGN.md 5/C08, 6"),
 "C10": dict(
   text="Every {path,value} pair of the structured report resolves in the harness's copy of the document to exactly that value; every unresolved check's reached point is an instance of a prefix of its clause's query with the next segment missing; every Path=..[L,C] of a scalar equals the position recorded by the harness's own JSON/YAML writers (random layout). Layouts include leading blank lines / indentation, comments, `---`, varying indentation units. `from` of a clause whose query starts at a key must point into the document.",
   note="`to` is judged only when the clause compares with a data query; only scalar positions are judged; remaining_query text is not judged.",
   tech="invariant checking of generated reports against the generated document and writer-recorded positions (proptest)", ref="DESIGN.md 5/C10"),
 "C11": dict(
   text="String-heavy documents written 4 ways x loaded by validate (payload, file), run_checks and test: the dumped loaded document equals the generated one exactly and a generated probe battery passes everywhere; exhaustive tag table (21 tags x 6 payload forms) short form == long form; malformed / non-string-key texts rejected by every loader. Writers cover literal / folded block scalars, empty values for null, ASCII-only JSON escapes, leading blank lines and whole-document indentation; negatives include repeated map keys.",
   note="Strings are written plain only when YAML 1.1 and 1.2 agree they are strings; aliases and comment-only text are not asserted (not in the statement). Known findings F48 (JSON repeated names via serde_json) and F49 (surrogate-pair escapes) excluded by signature.",
   tech="round-trip / differential PBT across writers and loaders + exhaustive tag table", ref="DESIGN.md 5/C11"),
 "C12": dict(
   text="Batch (1-3 rules files sharing names x 1-4 documents; explicit lists in two orders, directories -a/-m/default, payload lists) vs every pair validated alone: per-data-file report == union of singleton reports, console output == multiset union, exit 19 iff some singleton FAILs; test cases in one spec file vs one file per case. Rules / data files with distinct base names in one directory or the same base name in a directory each; multi-word keys in several naming conventions; key captures.",
   note="Batches containing an evaluation error are discarded.",
   tech="metamorphic testing (batch vs singletons) on proptest-generated inputs", ref="DESIGN.md 5/C12"),
 "C14": dict(
   text="Canonical vs variant printing of the same generated AST: per-token synonym choices (17 class/alternative pairs, also enumerated one class at a time) and layout/comments; parse-tree JSON (locations removed, leading This dropped) equal and verdicts equal on two documents; type block vs explicit filter block; bare clauses vs rule default. Type-block rewrites include block-level lets, a twin resource with other values, and documents without resources.",
   note="Only spellings listed by the grammar comment / docs count as synonyms. Known finding F45 (type block on a document without resources) excluded by signature.",
   tech="metamorphic testing with a choice-stream variant printer (proptest + enumeration of the synonym table)", ref="DESIGN.md 5/C14"),
 "C16": dict(
   text="`test` (console, json, yaml, junit; -r/-t and --dir; JSON and YAML spec files) vs the per-rule statuses of run_checks on each input with the met-rule of the statement: met set, unmet entries with expected and evaluated lists, rules without expectation, JUnit marks/counters, exit 0/7.",
   note="Inputs raising evaluation errors are discarded (C06 judges error exits).",
   tech="differential PBT (test command vs validate path)", ref="DESIGN.md 5/C16"),
 "C17": dict(
   text="Keys of a generated map distributed over data + 1-3 parameter files; every -i order in 4 modes vs the pre-merged document (exit code, verdict sets); deliberately duplicated keys must give an error naming the key and no verdict. Parameter files as JSON or block YAML, given one by one or as a directory; rules that walk the merged top-level map (`this.*`, keys filters, count); a second definition with the same or another value.",
   note="Verdicts compared as status sets.",
   tech="metamorphic testing (split vs merged) on proptest-generated inputs", ref="DESIGN.md 5/C17"),
 "C18": dict(
   text="18 functions / composites (incl. parse_char, parse_epoch vs a days-from-civil implementation, parse_int / parse_float of chars and of out-of-range floats) on generated argument lists (strings of many shapes, numbers, bools, null, lists, unresolved members) in 4 argument forms vs independent implementations; result set read from the report; converters must raise errors on unparsable input; later use of a bound result; the documentation's own examples.",
   note="Outcomes the documentation does not determine are generated but not asserted; Rust std string functions are trusted base.",
   tech="PBT against an independent reference implementation", ref="DESIGN.md 5/C18"),
 "C19": dict(
   text="rulegen (real binary) on generated templates (JSON / YAML): emitted text parses, one rule per type with properties, all PASS on the source template, and changing any scalar property value makes exactly that type's rule FAIL.",
   note="Four recorded known findings (F18, F22, F32, F34) are excluded by exact hazard signature.",
   tech="round-trip PBT (generate -> parse -> validate -> mutate)", ref="DESIGN.md 5/C19"),
}

# stages added in the later seeding rounds (d-f), appended to the texts above
EXTRA = {
 "C02": " Further stages: 'values' (a value site x status vectors of 1-3 values), 'named-clauses' (R / not R / f(k) / not f(k) x forced status x `or` companions), 'multi-document' (the record of each document of a batch).",
 "C03": " The flip law also covers a list lying wholly inside (the empty list included) or wholly outside a list of scalars.",
 "C04": " A third of the wide documents hold several spellings of a multi-word key with different values, queried through the tool's case converters. Type-guard idiom (2-3 rules guarded by `when Resources.*[ Type == 'T' ] !empty` for different T, counting lets, a parameterised rule called from a guard). Stage 'duplicate-names': a rule name defined twice; the other rules are reordered around the two definitions, which keep their order (their exchange is known finding F50). Capture idiom with a second capture variable and with names colliding with a `let`.",
 "C05": " Numeric ties in rulegen templates, `-o FILE` modes with a pre-existing file, stage 'environment' (TZ incl. POSIX strings, HOME, LANG, cwd; stderr compared too). Batches also without --structured (-o json, -o yaml, console -p): the output over 2-3 data files is the outputs of the files on their own.",
 "C06": " Non-UTF-8 and comment-only rules files, same base names in a directory each, rule names defined twice with mismatching expectations; evaluation errors by construction (11 shapes: inside when blocks, query blocks, filters, rule conditions, referenced and parameterised rules); 1-2 further test files per rules file walked with -a / -m.",
 "C07": " Stages 'multi-data' and 'duplicate-names'; multi-file cases with equal base names; values with markup and control characters (the JUnit text must consist of XML 1.0 characters; character data and attribute values must unescape). Stage 'entry-points': ten texts whose reading is not obvious decided alike through file, stdin and --payload; several rules texts through --payload in the multi-file stage.",
 "C08": " Stage 'framing' (comments / blank lines around a text do not decide acceptance), stage 'test-specs' (2-3 spec files of 7 kinds x 4 formats), generated self-reference cycles, key filters whose right-hand side is a variable resolving to no / one / several values, huge list indices, float literals that overflow; Terraform-plan-shaped failing clauses; long multi-byte values through 11 output paths of the real binary. Short-form tags on the wrong kind of node. A child that has used 30 CPU seconds or more when the 90 s watchdog fires is a hang (violation); a watchdog hit without that is inconclusive.",
 "C09": " Cause paths: every message listed under a rule belongs to a clause that failed on a FAIL path of that rule, and every such clause with a message is listed (two-way); a nested `Rule` entry (a parameterised call, also from within a parameterised rule) carries the message written at a call of exactly that rule (map taken from the generated program). The truth record must itself satisfy C02's laws. A third of the rules files carry two-line custom messages, which the report must carry unaltered (F66).",
 "C11": " Negatives include tagged scalars in key position, duplicate keys and multi-document streams; full-precision floats (53-bit mantissas over powers of ten) written in several spellings; NUL and other control characters in strings; stage 'number-spellings' (14 spellings x JSON / YAML x every loader incl. test files named .json / .yaml / .JSON / .jsn).",
 "C12": " JUnit: each <testsuite> of a batch equals the one of validating that data file alone (times masked) and the totals are the sums. test: the one-case files as a directory (-a / -m / default x 4 formats) fail iff some file fails alone.",
 "C10": " A fifth of the documents hold a list of 11-130 entries (multi-digit indices in the pointers); a fifth carry a map with two spellings of one key below a key reached through case conversion (the path oracle takes the key as written first; rule-level idiom clauses are judged against the root context only).",
 "C13": " Universe includes i64::MAX-1 and the neighbours of 2^53; brace quantifiers in the regex generator and matcher; ranges and patterns as members of `in` lists; floats closer to one another than f64::EPSILON.",
 "C14": " Comments and line breaks also after `[` / `name |` and before `]` of filters, key filters and key captures, comment lines between filter clauses; blanks and line breaks before commas, after `[` and before `]` of lists; block lets, variable-only blocks, documents without resources. A third of the programs carry the key-capture idiom; the layout between a capture's name and its `|` varies (blank, none, line break - F67).",
 "C15": " Literals in the condition of an inner `when` block abstracted to rule / file level, optionally with a `let` of the same name inside the guarded block; stage 'mixed-projections'; a list of two key names interpolated vs the clause written once per key; stage 'block-chains' (blocks over 2-4 values, clause through 1-3 block-level variables defined from one another); shadowing definitions that are function calls.",
 "C16": " Library statuses are cross-checked against `validate --payload --structured`; CloudFormation-shaped inputs with the key-capture idiom; a third of the programs have an implicit default rule with expectations under the name the test command gives it; --dir runs with a second guard file whose stem continues the first one's.",
 "C17": " Stage 'raw-scalars' (26 spellings on which YAML versions disagree, in a parameter file and in the data, vs the concatenated text); rules that walk the merged root as a whole; two data files per structured run; the last parameter file as a symbolic link; structured YAML / JUnit / SARIF modes.",
 "C18": " substring offsets are also taken from the document (negative, whole and huge floats, i64::MIN); parse_char of ints congruent to a digit modulo 2^8 / 2^16 / 2^32; ints beyond 2^53 for every function.",
 "C19": " Property values include floats (plain, with positive / negative exponent, negative: a diagnostic and no rules is accepted there); logical ids and document order independent of the types.",
}
for k, v in EXTRA.items():
    CHECKS[k]["text"] += v

ALL = [json.loads(l) for l in open('/verif/properties.jsonl')]
NA_REASON = "check under construction in this session (not yet registered)"

m = {
 "version": 1,
 "setup_cmd": "./setup.sh",
 "hooks": {"guard": "gv_verif_hooks",
           "enable": "none needed: every observation point is public library API (run_checks, Validate/Test/ParseTree/Rulegen builders with Writer/Reader) or the cfn-guard binary; no hook commits exist",
           "baseline_off_cmd": BASE, "source_commits": [], "add_only": True},
 "engines": [{"name": "gv", "path": "harness/", "serves_properties": sorted(CHECKS),
              "kind_free_text": "Rust harness: proptest-driven choice-stream generators, bounded-exhaustive enumerations, reference model, in-process and process-level drivers, known-findings handling, replay"}],
 "checks": [],
 "not_applicable": [],
 "notes": "See DESIGN.md. exit 0 = held (KNOWN-FINDING lines may be printed), 1 = VIOLATION line(s), 2 = inconclusive (harness build failure, watchdog, generator-health regression). fix: commits in /repo are recorded in known_findings.json.",
}
for p in ALL:
    i = p["id"]
    if i in CHECKS:
        c = CHECKS[i]
        m["checks"].append({
            "property_id": i, "quick_cmd": f"./check {i} quick", "thorough_cmd": f"./check {i} thorough",
            "evidence_file": f"evidence/{i}.json", "replay_cmd_template": f"./check {i} --replay {{path}}", "engine": "gv",
            "level_claimed": {"category": "exploration", "text": c["text"], "design_ref": c["ref"]},
            "level_note": c["note"], "technique": c["tech"]})
    else:
        m["not_applicable"].append({"property_id": i, "reason": NA_REASON})
json.dump(m, open('/verif/MANIFEST.json', 'w'), indent=1)
print("checks:", [c["property_id"] for c in m["checks"]], "not yet:", [n["property_id"] for n in m["not_applicable"]])
