#!/usr/bin/env python3
"""Regenerates /verif/MANIFEST.json from the table below (one entry per built check)."""
import json

BASE = "cd /repo && cargo nextest run --workspace --no-fail-fast --offline || cargo test --workspace --no-fail-fast --offline"

CHECKS = {
 "C01": dict(
   text="Differential test of run_checks verdicts against an independent reference interpreter of the documented core language: bounded-exhaustive over all single-clause programs of a value/literal/query-shape universe in five syntactic forms (plain, prefix-not, query block, filter, when), plus proptest-generated composed programs (filters, blocks, when, rule references in both directions, lets at three scopes, same-named rules).",
   note="Trusts the reference model (harness/src/model.rs); its undocumented corners were calibrated against the pinned tree (DESIGN 4, Appendix A). Bounded program size/depth and document universe.",
   tech="differential PBT against a reference model (proptest choice streams + bounded-exhaustive enumeration)", ref="DESIGN.md sections 4, 5/C01"),
 "C02": dict(
   text="Every composite node of the verbose evaluation record is recomputed from its children's recorded statuses (file, rule, rule/when/type conditions, when blocks, or-lines, query blocks, type blocks, rule references incl. negation) on proptest-generated wide programs; plus bounded-exhaustive enumeration of all PASS/FAIL/SKIP leaf assignments of CNF shapes at the 8 call sites of the combinator; root status vs non-verbose output and exit code.",
   note="Leaf statuses are taken from the record itself (C01 judges leaves). Negation flags and block sizes are read from the tool's own parse tree. Blocks whose query carries a filter or variable are not judged (their query evaluation leaves records inside the block node).",
   tech="invariant checking over generated evaluation records + exhaustive shape enumeration with a three-line combinator oracle", ref="DESIGN.md 5/C02"),
 "C03": dict(
   text="Metamorphic negation laws evaluated by the tool on both sides: prefix not == operator-level negation, double negation, flip law on single comparable values (incl. ordering complement), in 5 syntactic contexts and 3 right-hand forms, exhaustively over a class product; forced PASS/FAIL/SKIP rule references and parameterised calls under not; random clauses from the shared generator.",
   note="Comparability for the flip law is decided by value types in the harness; no reference model is involved beyond locating the selected value.",
   tech="metamorphic testing (pairs of programs, bounded-exhaustive class product + proptest)", ref="DESIGN.md 5/C03"),
 "C04": dict(
   text="Permutation / duplication invariance: lines of any CNF, alternatives of any line, rules of the file, duplicated lines/alternatives/rules; all permutations up to 4 items, sampled beyond; per-rule statuses by name and file status must not change.",
   note="Cases where some ordering raises an evaluation error are discarded (statement's precondition); unique rule names.",
   tech="metamorphic testing over proptest-generated programs (history = population order of memoised variables / rule statuses)", ref="DESIGN.md 5/C04"),
 "C07": dict(
   text="One (rules, data) pair rendered through ~27 configurations (console table with every -S selection and -v, plain json/yaml, -p record, --structured json/yaml/junit/sarif, files / stdin / payload, run_checks verbose and non-verbose); PASS/FAIL/SKIP sets, file status and exit code extracted from every output must equal the library record's; YAML==JSON as data; JUnit well-formed with consistent counters; SARIF result count == failing leaf checks; reports beyond 8 KiB / 64 KiB.",
   note="Only evaluations without error are compared (error exits are C06's subject). Parsers for the outputs live in the harness (serde_json, serde_yaml, quick-xml).",
   tech="differential testing across output formats / entry points on proptest-generated inputs", ref="DESIGN.md 5/C07"),
 "C09": dict(
   text="Structured report vs verbose record of the same evaluation: compliant / not_applicable / not_compliant are exactly the PASS / SKIP / FAIL rules, disjoint, each once; file status; exit code; every listed check's custom message belongs to a check that failed under that rule; multi-rules-file report == union/concatenation of single-file reports; CLI (payload) and library entry points.",
   note="Ground-truth statuses come from the verbose record (C01/C02 judge them). Globally distinct rule names and unique messages by construction.",
   tech="invariant checking of generated reports against the evaluation record (proptest)", ref="DESIGN.md 5/C09"),
 "C13": dict(
   text="Bounded-exhaustive value-pair matrix (ints incl. i64 bounds, floats incl. -0.0/subnormal/1e308, strings incl. unicode, bools, null, lists, maps) x six operators x prefix-not x literal/query placement against native comparison; exhaustive range-bracket enumeration; sampled `in [..]` and regex (independent backtracking matcher).",
   note="List/single-value coercion exempt (documented); two recorded known findings (F24, F25) are excluded by exact signature.",
   tech="bounded-exhaustive enumeration + PBT against native comparison / an independent regex matcher", ref="DESIGN.md 5/C13"),
 "C15": dict(
   text="P vs P' where one occurrence is abstracted: right-hand literal -> let (file/rule/block/when scope, optional shadowing), left-hand query prefix -> let + %v.rest, block query -> let, unused let (incl. one that would raise an error), clause -> parameterised rule with query or literal argument; rule order of P' shuffled to vary which reference forces the lazy evaluation.",
   note="Exempt as documented: emptiness test on a bare variable; `%v[*]` (no-op on the result set) and filters directly after a variable are not treated as textual substitutions.",
   tech="metamorphic testing (program transformation) over proptest-generated programs", ref="DESIGN.md 5/C15"),
}

ALL = [json.loads(l) for l in open('/verif/properties.jsonl')]
NA_REASON = "check under construction in this session (not yet registered)"

m = {
 "version": 1,
 "setup_cmd": "./setup.sh",
 "hooks": {"guard": "gv_verif_hooks",
           "enable": "none needed: every observation point is public library API (run_checks, Validate/Test/ParseTree/Rulegen builders with Writer/Reader) or the cfn-guard binary; no hook commits exist",
           "baseline_off_cmd": BASE, "source_commits": [], "add_only": True},
 "engines": [{"name": "gv", "path": "harness/", "serves_properties": sorted(CHECKS),
              "kind_free_text": "Rust harness: proptest-driven choice-stream generators, bounded-exhaustive enumerations, reference model, in-process and process-level drivers, known-findings handling, replay"}],
 "checks": [],
 "not_applicable": [],
 "notes": "See DESIGN.md. exit 0 = held (KNOWN-FINDING lines may be printed), 1 = VIOLATION line(s), 2 = inconclusive (harness build failure, watchdog, generator-health regression). fix: commits in /repo are recorded in known_findings.json.",
}
for p in ALL:
    i = p["id"]
    if i in CHECKS:
        c = CHECKS[i]
        m["checks"].append({
            "property_id": i, "quick_cmd": f"./check {i} quick", "thorough_cmd": f"./check {i} thorough",
            "evidence_file": f"evidence/{i}.json", "replay_cmd_template": f"./check {i} --replay {{path}}", "engine": "gv",
            "level_claimed": {"category": "exploration", "text": c["text"], "design_ref": c["ref"]},
            "level_note": c["note"], "technique": c["tech"]})
    else:
        m["not_applicable"].append({"property_id": i, "reason": NA_REASON})
json.dump(m, open('/verif/MANIFEST.json', 'w'), indent=1)
print("checks:", [c["property_id"] for c in m["checks"]], "not yet:", [n["property_id"] for n in m["not_applicable"]])
